#!/usr/bin/env python
# Property test for C19: "Knee-evaluation scores obey their accounting
# identities" (kneeliverse.evaluation: cm / accuracy / f1score / mcc /
# mae / mse / rmse / rmspe).
#
# The oracles below are written against the STATEMENT of the property, not
# against one implementation: wherever the statement leaves a choice open
# (which of several equally near knees / points is "the nearest", a distance
# that is within rounding of the tolerance, which side is matched when
# |K| == |E| under best/worst) every admissible choice is accepted.
#
# Exit 0: property holds on all generated inputs.  Exit 1: violated.
import math
import signal
import sys
import warnings
from fractions import Fraction

signal.alarm(55)

import numpy as np
import kneeliverse.evaluation as ev
from kneeliverse.evaluation import Strategy

warnings.simplefilter('ignore')
np.seterr(all='ignore')

REL = 1e-9          # relative slack for floating-point comparisons
TIE = 1e-9          # two distances closer than this (relative) count as a tie
failures = []
stats = {'cases': 0, 'cm_tie_cases': 0, 'cm_skipped_tp': 0, 'perfect': 0,
         'metric_checks': 0, 'metric_tie_cases': 0}


def fail(msg):
    failures.append(msg)
    if len(failures) <= 20:
        print('VIOLATION:', msg)


def leq(u, v):
    """u <= v up to rounding."""
    return u <= v or math.isclose(u, v, rel_tol=REL, abs_tol=0.0)


# --------------------------------------------------------------------------
# oracle for the confusion matrix
# --------------------------------------------------------------------------
def achievable_tp(points, knees, expected, t):
    """Set of all TP counts that the greedy one-to-one matching of the
    statement can produce, over every admissible resolution of ties."""
    xs = points[:, 0].tolist()
    dx = max(xs) - min(xs)
    kx = [points[int(k), 0].item() for k in knees]
    t_dec = Fraction(repr(float(t)))
    options = []          # per expected point: list of (knee position or None)
    ambiguous = False
    for row in expected.tolist():
        px = row[0]
        d = [abs(Fraction(v) - Fraction(px)) for v in kx]
        dmin = min(d)
        fd = [math.fabs(v - px) for v in kx]        # the same distances in floating point
        fmin = min(fd)
        cands = [j for j, v in enumerate(d) if v <= dmin * (1 + Fraction(TIE)) or fd[j] == fmin]
        if dx == 0:
            opts = [None]
        else:
            q = dmin / Fraction(dx)
            if q == t_dec or q <= Fraction(float(t)) * (1 - Fraction(1, 10**12)):
                inside = [True]
            elif q > Fraction(float(t)) * (1 + Fraction(1, 10**12)):
                inside = [False]
            else:
                inside = [True, False]
            opts = []
            if True in inside:
                opts.extend(cands)
            if False in inside:
                opts.append(None)
        if len(opts) > 1:
            ambiguous = True
        options.append(opts)
    combos = 1
    for o in options:
        combos *= len(o)
        if combos > 20000:
            return None, ambiguous
    results = set()

    def rec(i, claimed, tp):
        if i == len(options):
            results.add(tp)
            return
        for o in options[i]:
            if o is None or o in claimed:
                rec(i + 1, claimed, tp)
            else:
                rec(i + 1, claimed | {o}, tp + 1)

    rec(0, frozenset(), 0)
    return results, ambiguous


def check_cm(tag, points, knees, expected, t, perfect):
    n, nk, ne = len(points), len(knees), len(expected)
    m = ev.cm(points, knees, expected, t)
    m = np.asarray(m)
    if m.shape != (2, 2):
        fail(f'{tag}: cm shape {m.shape}')
        return
    tp, fp = (int(v) for v in m[0])
    fn, tn = (int(v) for v in m[1])
    if any(float(v) != int(v) for v in m.ravel()):
        fail(f'{tag}: non-integer cm {m.tolist()}')
    if min(tp, fp, fn, tn) < 0:
        fail(f'{tag}: negative entry {m.tolist()}')
    if tp + fn != ne:
        fail(f'{tag}: TP+FN={tp + fn} != |E|={ne}')
    if tp + fp != nk:
        fail(f'{tag}: TP+FP={tp + fp} != |K|={nk}')
    if tp + fp + fn + tn != n:
        fail(f'{tag}: entries sum to {tp + fp + fn + tn} != n={n}')
    tps, amb = achievable_tp(points, knees, expected, t)
    if amb:
        stats['cm_tie_cases'] += 1
    if tps is None:
        stats['cm_skipped_tp'] += 1
    elif tp not in tps:
        fail(f'{tag}: TP={tp} is not a greedy one-to-one count (admissible: {sorted(tps)}) '
             f'kx={points[knees, 0].tolist()} ex={expected[:, 0].tolist()} t={t}')

    acc = ev.accuracy(m)
    f1 = ev.f1score(m)
    if not (0.0 <= acc <= 1.0):
        fail(f'{tag}: accuracy {acc} outside [0,1]')
    if not math.isclose(acc, (tp + tn) / n, rel_tol=REL):
        fail(f'{tag}: accuracy {acc} != (TP+TN)/n')
    if not (0.0 <= f1 <= 1.0):
        fail(f'{tag}: f1 {f1} outside [0,1]')
    if not math.isclose(f1, 2 * tp / (2 * tp + fp + fn), rel_tol=REL):
        fail(f'{tag}: f1 {f1} != 2TP/(2TP+FP+FN)')
    den = (tp + fp) * (tp + fn) * (tn + fp) * (tn + fn)
    mc = None
    if den != 0:
        mc = ev.mcc(m)
        if not (-1.0 - 1e-12 <= mc <= 1.0 + 1e-12):
            fail(f'{tag}: mcc {mc} outside [-1,1]')
        if not math.isclose(mc, (tp * tn - fp * fn) / math.sqrt(den), rel_tol=REL, abs_tol=1e-12):
            fail(f'{tag}: mcc {mc} != closed form')
    if perfect:
        stats['perfect'] += 1
        if (tp, fp, fn) != (nk, 0, 0):
            fail(f'{tag}: perfect detection but cm={m.tolist()}')
        if acc != 1.0 or f1 != 1.0:
            fail(f'{tag}: perfect detection but accuracy={acc} f1={f1}')
        if mc is not None and not math.isclose(mc, 1.0, rel_tol=1e-12):
            fail(f'{tag}: perfect detection but mcc={mc}')


# --------------------------------------------------------------------------
# oracle for MAE / MSE / RMSE / RMSPE
# --------------------------------------------------------------------------
def matching_bounds(a, b, eps=1e-16):
    """Nearest-neighbour matching from side a onto side b.  Returns, for each
    of (abs, square, squared-percentage), the smallest and the largest mean
    per-coordinate error over every admissible choice of the nearest point."""
    lo = [0.0, 0.0, 0.0]
    hi = [0.0, 0.0, 0.0]
    tie = False
    for p in a:
        d2 = [float(Fraction(p[0]) - Fraction(q[0])) ** 2 + float(Fraction(p[1]) - Fraction(q[1])) ** 2
              for q in b]
        dmin = min(d2)
        cands = [j for j, v in enumerate(d2) if v <= dmin * (1 + 2 * TIE)]
        if len(cands) > 1:
            tie = True
        vals = []
        for j in cands:
            q = b[j]
            e0 = float(Fraction(p[0]) - Fraction(q[0]))
            e1 = float(Fraction(p[1]) - Fraction(q[1]))
            r0 = e0 / (p[0] + eps)
            r1 = e1 / (p[1] + eps)
            vals.append((abs(e0) + abs(e1), e0 * e0 + e1 * e1, r0 * r0 + r1 * r1))
        for c in range(3):
            lo[c] += min(v[c] for v in vals)
            hi[c] += max(v[c] for v in vals)
    cnt = 2.0 * len(a)
    return [v / cnt for v in lo], [v / cnt for v in hi], tie


def sides(nk, ne, s):
    """Admissible 'from' sides ('K' or 'E') for a strategy."""
    if s is Strategy.knees:
        return ['K']
    if s is Strategy.expected:
        return ['E']
    if nk == ne:
        return ['E', 'K']
    if s is Strategy.best:
        return ['E'] if ne < nk else ['K']
    return ['E'] if ne > nk else ['K']


def within(v, lo, hi):
    return leq(lo, v) and leq(v, hi)


def check_metrics(tag, points, knees, expected, exact):
    kp = points[knees].tolist()
    ex = expected.tolist()
    cache = {}
    for s in Strategy:
        vals = {'mae': ev.mae(points, knees, expected, s),
                'mse': ev.mse(points, knees, expected, s),
                'rmse': ev.rmse(points, knees, expected, s),
                'rmspe': ev.rmspe(points, knees, expected, s)}
        stats['metric_checks'] += 1
        for name, v in vals.items():
            v = float(v)
            if math.isnan(v) or v < 0.0:
                fail(f'{tag}/{s}: {name}={v} is negative or NaN')
        if not math.isclose(vals['rmse'], math.sqrt(vals['mse']), rel_tol=1e-12, abs_tol=0.0):
            fail(f"{tag}/{s}: rmse={vals['rmse']} != sqrt(mse)={math.sqrt(vals['mse'])}")
        if exact:
            for name, v in vals.items():
                if float(v) != 0.0:
                    fail(f'{tag}/{s}: E is exactly the knee points but {name}={v}')
        ok = {'mae': False, 'mse': False, 'rmspe': False}
        detail = []
        for side in sides(len(kp), len(ex), s):
            if side not in cache:
                cache[side] = matching_bounds(kp, ex) if side == 'K' else matching_bounds(ex, kp)
            lo, hi, tie = cache[side]
            if tie:
                stats['metric_tie_cases'] += 1
            if within(float(vals['mae']), lo[0], hi[0]):
                ok['mae'] = True
            if within(float(vals['mse']), lo[1], hi[1]):
                ok['mse'] = True
            if not (math.isfinite(lo[2]) and math.isfinite(hi[2])):
                ok['rmspe'] = True      # overflow of the percentage error, nothing to compare
            elif within(float(vals['rmspe']), math.sqrt(lo[2]), math.sqrt(hi[2])):
                ok['rmspe'] = True
            detail.append((side, lo, hi))
        for name, good in ok.items():
            if not good:
                fail(f'{tag}/{s}: {name}={vals[name]} is not the mean per-coordinate error of the '
                     f'nearest-neighbour matching {detail}')


# --------------------------------------------------------------------------
# generators
# --------------------------------------------------------------------------
def make_curve(rng, n):
    kind = rng.integers(0, 9)
    if kind == 0:                                   # integer grid, integer dtype
        x = np.arange(n, dtype=np.int64) * int(rng.integers(1, 4)) + int(rng.integers(-5, 6))
        y = (rng.integers(0, 50, n)).astype(np.int64)
        y = np.sort(y)[::-1].copy()
        return np.column_stack((x, y))
    if kind == 1:                                   # float grid (midpoints are exact ties)
        x = np.arange(n, dtype=float)
        y = 100.0 / (1.0 + x)
    elif kind == 2:                                 # plateau in y
        x = np.cumsum(rng.uniform(0.5, 2.0, n))
        y = np.where(x < x[n // 2], 10.0, 1.0)
    elif kind == 3:                                 # collinear run
        x = np.cumsum(rng.uniform(0.5, 2.0, n))
        y = 5.0 - 0.25 * x
    elif kind == 4:                                 # zeros
        x = np.arange(n, dtype=float)
        y = np.zeros(n)
    elif kind == 5:                                 # very small magnitude
        x = np.cumsum(rng.uniform(0.5, 2.0, n)) * 1e-150
        y = (1.0 / np.arange(1, n + 1)) * 1e-150
    elif kind == 6:                                 # very large magnitude
        x = np.cumsum(rng.uniform(0.5, 2.0, n)) * 1e150
        y = (1.0 / np.arange(1, n + 1)) * 1e150
    elif kind == 7:                                 # negative offset, noisy
        x = np.cumsum(rng.uniform(0.1, 1.0, n)) - 20.0
        y = np.exp(-0.2 * np.arange(n)) * 50 + rng.normal(0, 0.5, n) - 3.0
    else:                                           # plain knee curve
        x = np.cumsum(rng.uniform(0.5, 2.0, n))
        y = 1.0 / (0.1 + x)
    return np.column_stack((x, y))


def make_expected(rng, points, knees, ne):
    """(expected, exact) - expected has the dtype of the curve or float."""
    mode = rng.integers(0, 6)
    kp = points[knees]
    n = len(points)
    if mode == 0:                                   # E is exactly the knee points
        return kp.copy(), True
    if mode == 1:                                   # other points of the curve
        idx = rng.choice(n, size=ne, replace=False)
        return points[idx].copy(), False
    if mode == 2 and len(knees) >= 2:               # midpoints between consecutive knees (x ties)
        sk = np.sort(knees)
        mids = (points[sk[:-1]].astype(float) + points[sk[1:]].astype(float)) / 2.0
        take = rng.choice(len(mids), size=min(ne, len(mids)), replace=False)
        e = mids[take]
        extra = ne - len(e)
        if extra > 0:
            e = np.vstack((e, kp[rng.choice(len(kp), size=extra)].astype(float)))
        return e[rng.permutation(len(e))], False
    if mode == 3:                                   # knee points moved by a fraction of the x range
        src = kp[rng.choice(len(kp), size=ne)].astype(float)
        span = float(points[:, 0].max() - points[:, 0].min())
        frac = rng.choice([0.0, 0.01, 0.05, 0.1, 0.25, -0.01, -0.05, -0.1], size=ne)
        src[:, 0] = src[:, 0] + frac * span
        return src, False
    if mode == 4:                                   # repeated expected points (duplicate claims)
        one = kp[rng.integers(0, len(kp))]
        return np.tile(one, (ne, 1)), False
    lo = points.min(axis=0).astype(float)           # anywhere in the bounding box
    hi = points.max(axis=0).astype(float)
    return lo + rng.uniform(0, 1, (ne, 2)) * (hi - lo), False


def main():
    rng = np.random.default_rng(20261003)
    tolerances = [0.0, 0.01, 0.05, 0.1, 0.25, 0.5, 1.0]
    for case in range(420):
        n = int(rng.integers(3, 48))
        points = make_curve(rng, n)
        nk = int(rng.integers(1, max(2, n // 2)))
        nk = min(nk, n - 1)
        knees = rng.choice(n, size=nk, replace=False)
        if rng.random() < 0.8:
            knees = np.sort(knees)
        ne = int(rng.integers(1, n - nk + 1))
        ne = min(ne, 12)
        expected, exact = make_expected(rng, points, knees, ne)
        if exact:
            ne = len(expected)
        if len(knees) + len(expected) > n:
            continue
        t = float(rng.choice(tolerances)) if rng.random() < 0.8 else float(rng.uniform(0, 0.3))
        tag = f'case{case}(n={n},|K|={len(knees)},|E|={len(expected)},dtype={points.dtype},t={t})'
        stats['cases'] += 1
        try:
            check_cm(tag, points, knees, expected, t, perfect=exact)
            check_metrics(tag, points, knees, expected, exact)
        except Exception as exc:                    # an exception on a valid input is a violation
            fail(f'{tag}: raised {type(exc).__name__}: {exc}')

    # hand-made awkward cases ------------------------------------------------
    grid = np.column_stack((np.arange(11.0), 10.0 / (1.0 + np.arange(11.0))))
    # two expected points compete for the same knee, another knee is equally near to one of them
    for t in (0.05, 0.1, 0.2, 1.0):
        for knees in (np.array([2, 4]), np.array([4, 2]), np.array([1, 3, 5, 7])):
            for ex in ([3.0, 2.1], [3.0, 1.9], [3.0, 4.0, 5.0], [2.0, 2.0, 2.0], [6.0, 0.0]):
                e = np.column_stack((np.array(ex), np.ones(len(ex))))
                tag = f'grid(t={t},K={knees.tolist()},ex={ex})'
                stats['cases'] += 1
                check_cm(tag, grid, knees, e, t, perfect=False)
                check_metrics(tag, grid, knees, e, False)
    # exact boundary: knee exactly t * range away from the expected point
    for t, off in ((0.1, 1.0), (0.2, 2.0), (0.5, 5.0)):
        e = np.array([[3.0 + off, 1.0]])
        m = ev.cm(grid, np.array([3]), e, t)
        stats['cases'] += 1
        if int(m[0][0]) != 1:
            fail(f'boundary t={t}: knee exactly t*range away is not claimed: {m.tolist()}')
        check_cm(f'boundary(t={t})', grid, np.array([3]), e, t, perfect=False)
    # integer curve, perfect detection, t = 0
    ipts = np.column_stack((np.arange(20, dtype=np.int64), np.arange(20, dtype=np.int64)[::-1] ** 2))
    ik = np.array([1, 5, 9, 18])
    stats['cases'] += 1
    check_cm('int-perfect', ipts, ik, ipts[ik].copy(), 0.0, perfect=True)
    check_metrics('int-perfect', ipts, ik, ipts[ik].copy(), True)
    # integer curve, expected half a sample away (errors must not be truncated)
    stats['cases'] += 1
    check_metrics('int-half', ipts, ik, ipts[ik].astype(float) + 0.5, False)
    check_cm('int-half', ipts, ik, ipts[ik].astype(float) + 0.5, 0.05, perfect=False)

    # a knee far down the knee array is claimed again and again
    big = np.column_stack((np.arange(300.0), 1000.0 / (1.0 + np.arange(300.0))))
    bk = np.arange(0, 300, 3)
    be = np.tile(big[bk[80]], (5, 1))
    stats['cases'] += 1
    check_cm('repeated-claims', big, bk, be, 0.01, perfect=False)
    # coordinates with an offset that is large compared with the spacing
    off = np.column_stack((1.7e9 + np.arange(60.0), 3e9 + 500.0 / (1.0 + np.arange(60.0))))
    ok_ = np.array([3, 4, 5, 20, 40])
    stats['cases'] += 2
    check_cm('offset-perfect', off, ok_, off[ok_].copy(), 0.0, perfect=True)
    check_metrics('offset-perfect', off, ok_, off[ok_].copy(), True)
    check_metrics('offset-shifted', off, ok_, off[ok_] + np.array([0.25, 0.0]), False)
    # long curve, perfect detection
    long_ = np.column_stack((np.arange(2000.0), 1e4 / (1.0 + np.arange(2000.0))))
    lk = np.arange(10, 2000, 40)
    stats['cases'] += 1
    m = ev.cm(long_, lk, long_[lk].copy(), 0.01)
    if [int(v) for v in np.asarray(m).ravel()] != [50, 0, 0, 1950]:
        fail(f'long-perfect: cm={np.asarray(m).tolist()}')
    if ev.accuracy(m) != 1.0 or ev.f1score(m) != 1.0 or not math.isclose(ev.mcc(m), 1.0, rel_tol=1e-12):
        fail(f'long-perfect: accuracy={ev.accuracy(m)} f1={ev.f1score(m)} mcc={ev.mcc(m)}')
    # many knees: every knee has its expected point a quarter sample to the right
    wide = np.column_stack((np.arange(9000.0), 1e5 / (1.0 + np.arange(9000.0))))
    wk = np.arange(0, 8400, 2)
    we = wide[wk] + np.array([0.25, 0.0])
    stats['cases'] += 1
    for s in Strategy:
        got = (ev.mae(wide, wk, we, s), ev.mse(wide, wk, we, s), ev.rmse(wide, wk, we, s))
        want = (0.125, 0.03125, math.sqrt(0.03125))
        for name, g, w in zip(('mae', 'mse', 'rmse'), got, want):
            if not math.isclose(g, w, rel_tol=REL):
                fail(f'wide/{s}: {name}={g}, mean per-coordinate error of the matching is {w}')
    m = np.asarray(ev.cm(wide, wk, we, 0.001))
    if [int(v) for v in m.ravel()] != [4200, 0, 0, 4800]:
        fail(f'wide: cm={m.tolist()}')

    print('stats:', stats)
    if failures:
        print(f'{len(failures)} violation(s) of C19')
        return 1
    print('C19 holds on all generated inputs')
    return 0


if __name__ == '__main__':
    sys.exit(main())
