#!/usr/bin/env python
"""C20 property test (purity, determinism, layout- and dtype-independence, linkage)
for the Kneedle entry points and the knee post-processing helpers.

Exit status 0: the property holds on all generated inputs; 1: it is violated."""
import ast
import copy
import importlib
import signal
import sys
import time

signal.alarm(58)  # hard stop, whatever the library does

import numpy as np
import kneeliverse.kneedle as kneedle
import kneeliverse.postprocessing as pp
import kneeliverse.zmethod as zmethod
import kneeliverse.clustering as clustering

N_INPUTS = 300
BUDGET = 45.0   # seconds of wall clock for the dynamic part
failures = []


# ---------------------------------------------------------------- generators
def curve(rng, it):
    """integer valued curve: strictly increasing x, y >= 0 (so that it has an
    exact int64 and an exact float64 representation)"""
    n = int(rng.integers(8, 120)) if it % 10 else int(rng.integers(300, 900))
    x = np.cumsum(rng.integers(1, 6, size=n)).astype(np.float64)
    kind = it % 6
    if kind == 0:      # convex decreasing (MRC like) + small noise
        y = np.round(2000.0 / (1.0 + 0.08 * x)) + rng.integers(0, 3, size=n)
    elif kind == 1:    # concave increasing
        y = np.round(40.0 * np.sqrt(x))
    elif kind == 2:    # plateaus and ties
        y = np.sort(rng.integers(0, 12, size=n))[::-1].astype(np.float64)
    elif kind == 3:    # noise, many zeros
        y = np.maximum(rng.integers(-5, 15, size=n), 0).astype(np.float64)
    elif kind == 4:    # convex increasing
        y = np.round(x * x / 50.0)
    else:              # stairs
        y = np.round(500.0 / (1.0 + (x // 17))) 
    return np.column_stack((x, y))


def representations(p):
    big = np.full((2 * len(p) + 1, 5), -7.0)
    big[1::2, 1::3] = p
    ibig = big.astype(np.int64)
    return [('C/float64', np.ascontiguousarray(p)),
            ('F/float64', np.asfortranarray(p)),
            ('view/float64', big[1::2, 1::3]),
            ('C/int64', np.ascontiguousarray(p).astype(np.int64)),
            ('F/int64', np.asfortranarray(p.astype(np.int64))),
            ('view/int64', ibig[1::2, 1::3])]


# ------------------------------------------------------------------- helpers
def snapshot(a):
    return a.copy() if isinstance(a, np.ndarray) else copy.deepcopy(a)


def unchanged(a, b):
    if isinstance(a, np.ndarray):
        return isinstance(b, np.ndarray) and a.dtype == b.dtype and a.shape == b.shape and np.array_equal(a, b)
    return type(a) is type(b) and a == b


def same(a, b):
    if a is None or b is None:
        return a is b
    if isinstance(a, dict):
        return a.keys() == b.keys() and all(same(a[k], b[k]) for k in a)
    if isinstance(a, tuple):
        return len(a) == len(b) and all(same(i, j) for i, j in zip(a, b))
    a = np.asarray(a)
    b = np.asarray(b)
    if a.shape != b.shape:
        return False
    if a.dtype.kind in 'iub' and b.dtype.kind in 'iub':
        return np.array_equal(a, b)
    return np.allclose(a.astype(float), b.astype(float), rtol=1e-9, atol=1e-12, equal_nan=True)


def check(label, fn, p, extra=()):
    """fn(points, *extra) on every representation of p"""
    ref = None
    for name, q in representations(p):
        args = [q] + [snapshot(e) for e in extra]
        before = [snapshot(a) for a in args]
        try:
            out1 = fn(*args)
            pure = all(unchanged(a, b) for a, b in zip(before, args))
            out2 = fn(*args)
        except Exception as e:
            failures.append(f'{label} [{name}]: raised {type(e).__name__}: {str(e).splitlines()[0][:100]}')
            continue
        if not pure or not all(unchanged(a, b) for a, b in zip(before, args)):
            failures.append(f'{label} [{name}]: an argument was modified')
        if not same(out1, out2):
            failures.append(f'{label} [{name}]: second call returned something else')
        if isinstance(out1, np.ndarray) and any(isinstance(a, np.ndarray) and np.shares_memory(out1, a) for a in args) \
                and len(out1) > 1:
            # a result aliasing its input could be modified behind the caller's back
            failures.append(f'{label} [{name}]: result shares memory with an argument')
        if ref is None:
            ref = out1
        elif not same(ref, out1):
            failures.append(f'{label} [{name}]: differs from C/float64: {np.asarray(ref).ravel()[:6]} vs {np.asarray(out1).ravel()[:6]}')


# -------------------------------------------------------------- static part
def linkage(module):
    """every attribute taken from an imported module alias must exist"""
    src = open(module.__file__).read()
    tree = ast.parse(src)
    aliases = {}
    for node in ast.walk(tree):
        if isinstance(node, ast.Import):
            for a in node.names:
                if a.asname:
                    aliases[a.asname] = importlib.import_module(a.name)
                elif '.' not in a.name:
                    aliases[a.name] = importlib.import_module(a.name)
    for node in ast.walk(tree):
        if isinstance(node, ast.Attribute) and isinstance(node.value, ast.Name) and node.value.id in aliases:
            if not hasattr(aliases[node.value.id], node.attr):
                failures.append(f'{module.__name__}:{node.lineno}: {node.value.id}.{node.attr} does not resolve')
    # names: compile and look for globals that are neither defined nor builtins
    import builtins
    defined = set(dir(module)) | set(dir(builtins))
    for node in ast.walk(tree):
        if isinstance(node, ast.FunctionDef):
            local = {a.arg for a in node.args.args + node.args.kwonlyargs}
            for sub in ast.walk(node):
                if isinstance(sub, ast.Name) and isinstance(sub.ctx, ast.Store):
                    local.add(sub.id)
                elif isinstance(sub, (ast.Import, ast.ImportFrom)):
                    local.update((a.asname or a.name).split('.')[0] for a in sub.names)
                elif isinstance(sub, ast.arg):
                    local.add(sub.arg)
            for sub in ast.walk(node):
                if isinstance(sub, ast.Name) and isinstance(sub.ctx, ast.Load) and sub.id not in local and sub.id not in defined:
                    failures.append(f'{module.__name__}:{sub.lineno}: name {sub.id} does not resolve')


for mod in (kneedle, pp):
    linkage(mod)


# ------------------------------------------------------------- dynamic part
rng = np.random.default_rng(20)
start = time.time()
done = 0
for it in range(N_INPUTS):
    if time.time() - start > BUDGET:
        break
    p = curve(rng, it)
    n = len(p)
    small = n <= 150

    for cd in kneedle.Direction:
        for cc in kneedle.Concavity:
            check(f'differences({cd},{cc}) #{it}', lambda q, cd=cd, cc=cc: kneedle.differences(q, cd, cc), p)

    t = (0.5, 1.0, 2.0)[it % 3]
    check(f'kneedle.knee(t={t}) #{it}', lambda q: kneedle.knee(q, t), p)
    if small:
        pdm = list(kneedle.PeakDetection)[it % 4]
        check(f'kneedle.knees({pdm}) #{it}', lambda q: kneedle.knees(q, t, 1.0, pdm), p)
        check(f'kneedle.multi_knee #{it}', lambda q: kneedle.multi_knee(q, 0.01, 3), p)

    # knee index sets: sorted, without the extremes
    m = int(rng.integers(2, min(n - 2, 25)))
    k = np.sort(rng.choice(np.arange(1, n - 1), size=m, replace=False))
    for kk, kind in ((k, 'ndarray'), ([int(i) for i in k], 'list')):
        check(f'filter_worst_knees({kind}) #{it}', pp.filter_worst_knees, p, (kk,))
        check(f'rank_corners({kind}) #{it}', pp.rank_corners, p, (kk,))
    check(f'filter_worst_knees(single) #{it}', pp.filter_worst_knees, p, (k[:1],))
    check(f'filter_corner_knees #{it}', pp.filter_corner_knees, p, (k,))
    if p[:, 1].max() > p[:, 1].min():
        check(f'add_points_even_knees #{it}', lambda q, kk: pp.add_points_even_knees(q, kk, 0.05, 0.05, bool(it % 2)), p, (k,))
    check(f'filter_clusters_corners #{it}', lambda q, kk: pp.filter_clusters_corners(q, kk, clustering.single_linkage, 0.05), p, (k,))
    if small:
        out = list(zmethod.Outlier)[it % 3]
        check(f'zmethod.knees2({out}) #{it}', lambda q: zmethod.knees2(q, 0.05, 0.05, out), p)
    done += 1

print(f'{done} curves x 6 representations checked in {time.time() - start:.1f}s')
if done < 200:
    print('warning: fewer than 200 curves were checked within the time budget')
if failures:
    print('C20 violated (%d findings):' % len(failures))
    for f in failures[:15]:
        print('  ', f)
    sys.exit(1)
print('ok')
sys.exit(0)
