#!/usr/bin/env python
"""
Property test for C05: fixed-size RDP (kneeliverse.rdp.rdp_fixed) is an
exact-size, nested greedy refinement.

For every generated performance curve (x strictly increasing) x 2 distances
x 3 orderings and EVERY k in 0..n+1 it is checked that

  (1) rdp_fixed(points, k) returns exactly min(max(k, 2), n) indices, strictly
      increasing, first 0 and last n-1;
  (2) the results for k and k+1 are nested and differ by exactly one index;
  (3) the gained index lies strictly inside one retained segment;
  (4) no interior point of that segment is farther from the chord of the
      segment than the gained one by more than rounding noise;
  (5) the segment has the maximal ordering score (triangle, area, residual)
      among the retained segments that still have interior points (equal
      within rounding noise is good enough, the statement does not say which
      of several maximal segments is taken).

Distances and scores are recomputed here with plain numpy on a copy of the
curve that is scaled by a power of two (exact), so that the reference works
for magnitudes from 1e-150 to 1e150.  'Rounding noise' is 1e-10 times the size
of the terms that are subtracted in the formulas (about 1e6 ulps), plus the
absolute 4*eps below which the library itself calls a segment straight.

The curves: smooth/noisy convex decays, saturating curves, staircases with
plateaus, tents and valleys that are exactly symmetric (ties), integer
piecewise linear curves with exactly collinear runs, straight lines, constant
curves, zeros and zero tails, bumpy steep curves (points project outside the
chord), geometric x grids, integer dtype, magnitudes 1e-150 ... 1e150.

Exit status 0: property holds everywhere; 1: violated (or timeout).
"""
import signal
import sys
import warnings

import numpy as np


def _timeout(signum, frame):
    print('FAIL: timeout')
    sys.stdout.flush()
    sys.exit(1)


signal.signal(signal.SIGALRM, _timeout)
signal.alarm(58)
warnings.simplefilter('ignore')

import kneeliverse.rdp as rdp                       # noqa: E402
from kneeliverse.rdp import Distance, Order         # noqa: E402

EPS = float(np.finfo(float).eps)
REL = 1e-9
NOISE = 1e-10


# ------------------------------------------------------------- reference
def ref_distance(q, distance):
    """distances of the points of q to the chord q[0]..q[-1] and their noise"""
    a, b = q[0], q[-1]
    abx, aby = b[0] - a[0], b[1] - a[1]
    L = float(np.hypot(abx, aby))
    rx, ry = q[:, 0] - a[0], q[:, 1] - a[1]
    perp = np.abs(abx * ry - aby * rx) / L
    noise = (abs(abx) * np.abs(ry).max() + abs(aby) * np.abs(rx).max()) / L
    if distance is Distance.perpendicular:
        return perp, NOISE * noise
    along = (rx * abx + ry * aby) / L
    noise += (abs(abx) * np.abs(rx).max() + abs(aby) * np.abs(ry).max()) / L
    out = np.maximum(np.maximum(-along, along - L), 0.0)
    return np.hypot(out, perp), NOISE * noise


def ref_score(q, distance, order):
    """ordering score of the segment q and the rounding noise of that score"""
    n = len(q)
    if order is Order.segment:
        x, y = q[:, 0], q[:, 1]
        m = (y[-1] - y[0]) / (x[-1] - x[0])
        score = float(np.sum((y - (y[0] + m * (x - x[0]))) ** 2))
        e = 1e-12 * (abs(m) * float(np.abs(x).max()) + float(np.abs(y).max()))
        return score, 2.0 * e * np.sqrt(n * score) + n * e * e
    d, dn = ref_distance(q, distance)
    if order is Order.area:
        return float(np.sum(d)), n * dn
    base = float(np.hypot(q[-1, 0] - q[0, 0], q[-1, 1] - q[0, 1]))
    return 0.5 * base * float(d.max()), 0.5 * base * dn


# --------------------------------------------------------------- checker
def check_curve(name, points):
    n = len(points)
    errors = []
    fp = np.asarray(points, dtype=float)
    big = float(np.abs(fp).max())
    scale = 2.0 ** np.floor(np.log2(big)) if big > 0 else 1.0
    q = fp / scale

    for distance in (Distance.shortest, Distance.perpendicular):
        for order in (Order.triangle, Order.area, Order.segment):
            tag = '%s n=%d %s/%s' % (name, n, distance, order)
            results = {}
            bad = False
            for k in range(0, n + 2):
                reduced, _ = rdp.rdp_fixed(points.copy(), k, distance=distance, order=order)
                reduced = [int(i) for i in reduced]
                results[k] = reduced
                want = min(max(k, 2), n)
                if len(reduced) != want or len(set(reduced)) != want:
                    errors.append('%s k=%d: %d indices (%d distinct), expected exactly %d: %s'
                                  % (tag, k, len(reduced), len(set(reduced)), want, reduced))
                    bad = True
                elif reduced[0] != 0 or reduced[-1] != n - 1 or \
                        any(j <= i for i, j in zip(reduced, reduced[1:])):
                    errors.append('%s k=%d: not a strictly increasing selection with both '
                                  'end points: %s' % (tag, k, reduced))
                    bad = True
            if bad:
                continue
            for k in range(2, n):
                small, large = results[k], results[k + 1]
                gained = sorted(set(large) - set(small))
                if not set(small) <= set(large) or len(gained) != 1:
                    errors.append('%s: k=%d not nested in k=%d (%s vs %s)'
                                  % (tag, k, k + 1, small, large))
                    continue
                g = gained[0]
                seg = [(l, r) for l, r in zip(small, small[1:]) if l < g < r]
                if len(seg) != 1:
                    errors.append('%s k=%d: gained index %d is not strictly inside a '
                                  'retained segment of %s' % (tag, k, g, small))
                    continue
                l, r = seg[0]
                d, dn = ref_distance(q[l:r + 1], distance)
                dmax = float(d[1:-1].max())
                if d[g - l] < dmax - (REL * dmax + dn + 4.0 * EPS / scale):
                    errors.append('%s k=%d->%d: segment [%d,%d] split at %d (distance %.6g) '
                                  'but interior point %d is farther (%.6g)'
                                  % (tag, k, k + 1, l, r, g, d[g - l] * scale,
                                     l + 1 + int(np.argmax(d[1:-1])), dmax * scale))
                scores = {(i, j): ref_score(q[i:j + 1], distance, order)
                          for i, j in zip(small, small[1:]) if j - i > 1}
                top = max(scores, key=lambda key: scores[key][0])
                best, best_noise = scores[top]
                mine, mine_noise = scores[(l, r)]
                if mine + mine_noise < best - best_noise - REL * best:
                    errors.append('%s k=%d->%d: refined segment [%d,%d] has score %.6g but '
                                  'segment [%d,%d] has score %.6g (units of the scaled curve)'
                                  % (tag, k, k + 1, l, r, mine, top[0], top[1], best))
    return errors


# ------------------------------------------------------------ generators
def _grid(rng, n):
    kind = rng.randint(0, 5)
    if kind == 0:
        return np.arange(1.0, n + 1.0)
    if kind == 1:
        return np.cumsum(rng.randint(1, 9, n) / 8.0)
    if kind == 2:
        return np.cumsum(rng.uniform(0.05, 3.0, n))
    if kind == 3:
        return np.arange(0.0, float(n))
    return 2.0 ** np.arange(n) if n <= 20 else np.cumsum(1.2 ** np.arange(n))


def _shape(rng, x, n):
    kind = rng.randint(0, 12)
    t = (x - x[0]) / max(x[-1] - x[0], 1e-300)
    if kind == 0:
        return 'decay', 90.0 / (1.0 + rng.uniform(1.0, 30.0) * t) + rng.uniform(0.0, 5.0)
    if kind == 1:
        return 'noisy-decay', 90.0 / (1.0 + 12.0 * t) + rng.uniform(0.0, 4.0, n)
    if kind == 2:
        return 'saturating', 80.0 * (1.0 - np.exp(-t * rng.uniform(2.0, 9.0))) + 0.5 * t
    if kind == 3:       # plateaus, many equal values
        return 'staircase', np.floor(40.0 * np.exp(-3.0 * t) + rng.uniform(0.0, 2.0, n)) / 4.0
    if kind == 4:       # exactly collinear runs on integers
        slopes = np.repeat(rng.randint(0, 6, 1 + n // 3), 3)[:n]
        return 'piecewise-linear', np.cumsum(slopes).astype(float)
    if kind == 5:
        return 'zero-tail', np.maximum(0.0, 60.0 - rng.uniform(100.0, 260.0) * t) \
            + np.where(t < 0.2, rng.uniform(0.0, 3.0, n), 0.0)
    if kind == 6:       # points project outside their chords
        return 'steep-bumpy', 60.0 / (1.0 + 25.0 * t) + 30.0 + rng.uniform(-25.0, 25.0, n)
    if kind == 7:       # symmetric tent / valley on a symmetric grid: exact ties
        i = np.arange(n)
        tent = np.minimum(i, n - 1 - i).astype(float) * rng.randint(1, 4)
        return 'tent', tent if rng.randint(0, 2) else tent.max() - tent
    if kind == 8:       # table top: plateau in the middle, horizontal chord
        i = np.arange(n)
        return 'table', np.where((i > 0) & (i < n - 1), float(rng.randint(1, 9)), 0.0)
    if kind == 9:       # few distinct levels, random order (ties everywhere)
        return 'levels', rng.randint(0, 3, n).astype(float) * rng.randint(1, 5)
    if kind == 10:      # sawtooth
        return 'sawtooth', (np.arange(n) % rng.randint(2, 5)).astype(float) * 3.0 + 1.0
    return 'random-walk', np.abs(np.cumsum(rng.normal(0.0, 1.0, n))) + 0.5


def curves():
    yield 'test-suite', np.array([[0, 0], [1, 1], [2, 2], [3, 2], [4, 3], [5, 4]])
    yield 'two-points', np.array([[1.0, 3.0], [2.0, 1.0]])
    yield 'three-points', np.array([[1.0, 3.0], [2.0, 1.0], [4.0, 0.5]])
    yield 'line', np.column_stack((np.arange(9.0), 3.0 * np.arange(9.0) + 1.0))
    yield 'line-third', np.column_stack((np.arange(1.0, 11.0), np.arange(1.0, 11.0) / 3.0))
    yield 'constant', np.column_stack((np.arange(1.0, 8.0), np.full(7, 2.5)))
    yield 'zeros', np.column_stack((np.arange(1.0, 7.0), np.zeros(6)))
    yield 'int-line', np.column_stack((np.arange(1, 12), 7 * np.arange(1, 12) + 3))
    yield 'parallel-offsets', np.array([[0.0, 0.0], [1.0, 1.3], [2.0, 1.6], [3.0, 1.9],
                                        [4.0, 2.2], [5.0, 2.5], [6.0, 1.8]])
    # straight up to rounding, huge magnitude: the split point is decided by
    # the last bits of the distances
    yield 'line-1e150', np.array([[2.5e+149, 1e+150], [5e+149, 4e+150],
                                  [7.499999999999999e+149, 7e+150], [1e+150, 1e+151]])
    # periodic curve: many points with mathematically equal distance
    yield 'sawtooth-milli', np.column_stack((np.arange(1.0, 13.0),
                                             np.tile([0.001, 0.004, 0.007], 4)))
    yield 'levels-1e-150', np.column_stack((np.arange(1.0, 10.0),
                                            [1.0, 2, 1, 0, 0, 2, 2, 0, 0])) * 1e-150
    rng = np.random.RandomState(7051)
    scales = [(1.0, 1.0), (1.0, 1.0), (1.0, 1.0), (1.0, 1e-3), (1.0, 1e3), (1.0, 1e6),
              (1e-150, 1e-150), (1e150, 1e150), (1.0, 1e-150), (1.0, 1e150),
              (1e-7, 1e9), (1e150, 1e-150)]
    for i in range(300):
        if i < 200:
            n = rng.randint(2, 12)
        elif i < 285:
            n = rng.randint(12, 24)
        else:
            n = rng.randint(30, 44)
        x = _grid(rng, n)
        name, y = _shape(rng, x, n)
        y = np.maximum(y, 0.0)
        sx, sy = scales[rng.randint(0, len(scales))]
        name += '-%gx%g' % (sx, sy)
        if sx > 1e100:
            # keep every coordinate within the 1e150 range (exact power of two)
            sx = sx / 2.0 ** np.ceil(np.log2(x.max()))
        pts = np.column_stack((x * sx, y * sy))
        if rng.randint(0, 5) == 0:
            # counts: integer dtype, moderate magnitude, x strictly increasing
            pts = np.column_stack((np.arange(1, n + 1) * rng.randint(1, 5),
                                   np.round(y * [1.0, 10.0, 1000.0][rng.randint(0, 3)])))
            pts = pts.astype(np.int64)
            name += '-int'
        yield '%s#%d' % (name, i), pts


def main():
    errors = []
    count = 0
    for name, pts in curves():
        count += 1
        errors.extend(check_curve(name, pts))
    if errors:
        print('C05 VIOLATED (%d findings on %d curves), first ones:' % (len(errors), count))
        for e in errors[:15]:
            print('  -', e)
        return 1
    print('C05 holds on all %d generated curves' % count)
    return 0


if __name__ == '__main__':
    rc = main()
    sys.stdout.flush()
    sys.exit(rc)
