#!/usr/bin/env python
# coding: utf-8
"""
C14 property test (L): even-point insertion returns the documented candidates,
height-filtered.

For every curve with non-constant x and y, every reduction, knee set,
thresholds tx, ty > 0 and either setting of extremes, add_points_even completes
and returns the running-minimum-filtered, sorted, duplicate-free union of
  - the mapped knees,
  - the ceil(w/(2*tx)) evenly index-spaced points inside every retained segment
    (normalised width w > 2*tx and normalised height > ty),
  - and (when requested) both curve end points.
add_points_even_knees does the same over the gaps between consecutive knees and
the curve ends.  Every returned index is valid.

The expected result is computed by an independent, plain-Python model of the
statement.  A few hundred generated inputs (float64 and integer curves, even
and uneven sampling, monotone / staircase / noisy / arbitrary shapes, random
and RDP reductions, grid-valued thresholds that hit exact boundaries).

Exit status: 0 when the property holds for all inputs, 1 when it is violated.
"""

import os
import sys
import math
import signal


def _timeout(signum, frame):
    print('FAIL: timeout - even-point insertion did not terminate')
    sys.stdout.flush()
    os._exit(1)


signal.signal(signal.SIGALRM, _timeout)
signal.alarm(55)

import numpy as np
import kneeliverse.rdp as rdp
import kneeliverse.postprocessing as pp


# ----------------------------------------------------------------- the model --
def running_min_filter(points, idx):
    if len(idx) <= 1:
        return list(idx)
    out = [idx[0]]
    h_min = points[idx[0]][1]
    for k in idx[1:]:
        h = points[k][1]
        if h <= h_min:
            out.append(k)
            h_min = h
    return out


def ranges(points):
    x, y = points[:, 0], points[:, 1]
    return math.fabs(x.max() - x.min()), math.fabs(y.max() - y.min())


def even_inside(points, left, right, dx, tx):
    w = math.fabs(points[right][0] - points[left][0]) / dx
    n = int(math.ceil(w / (2.0*tx)))
    inc = int((right-left)/n)
    return [left + k*inc for k in range(1, n+1)]


def is_retained(points, left, right, dx, dy, tx, ty):
    w = math.fabs(points[right][0] - points[left][0]) / dx
    h = math.fabs(points[right][1] - points[left][1]) / dy
    return w > 2.0*tx and h > ty


def expected_even(points, reduced, knees, tx, ty, extremes):
    dx, dy = ranges(points)
    out = set(int(reduced[k]) for k in knees)
    for i in range(1, len(reduced)):
        left, right = int(reduced[i-1]), int(reduced[i])
        if is_retained(points, left, right, dx, dy, tx, ty):
            out.update(even_inside(points, left, right, dx, tx))
    if extremes:
        out.update((0, len(points)-1))
    return running_min_filter(points, sorted(out))


def expected_even_knees(points, knees, tx, ty, extremes):
    dx, dy = ranges(points)
    out = set(int(k) for k in knees)
    markers = [0] + [int(k) for k in knees] + [len(points)-1]
    for left, right in zip(markers[:-1], markers[1:]):
        if is_retained(points, left, right, dx, dy, tx, ty):
            out.update(even_inside(points, left, right, dx, tx))
    if extremes:
        out.update((0, len(points)-1))
    return running_min_filter(points, sorted(out))


# ------------------------------------------------------------------ checking --
failures = 0
checked = 0


def report(label, what, **info):
    global failures
    failures += 1
    if failures <= 8:
        print(f'FAIL [{label}]: {what}')
        for k, v in info.items():
            print(f'   {k:9s}= {v}')


def verify(label, call, want, n, **info):
    global checked
    checked += 1
    try:
        got = call()
    except Exception as e:  # the property says the call completes
        report(label, f'raised {type(e).__name__}: {e}', **info)
        return
    got = np.asarray(got)
    if got.size and not np.issubdtype(got.dtype, np.integer):
        report(label, f'non-integer indexes returned ({got.dtype})', **info)
        return
    got = [int(v) for v in got]
    if any(v < 0 or v >= n for v in got):
        report(label, 'invalid index returned', returned=got, **info)
        return
    if got != sorted(set(got)):
        report(label, 'result not sorted / duplicate-free', returned=got, **info)
        return
    if got != want:
        report(label, 'result differs from the documented candidates', expected=want, returned=got,
               missing=sorted(set(want)-set(got)), spurious=sorted(set(got)-set(want)), **info)


def make_curve(rng, case):
    n = int(rng.randint(4, 220))
    if rng.rand() < 0.5:
        xs = np.arange(n, dtype=float) * float(rng.choice([1.0, 0.5, 2.0, 10.0])) + float(rng.choice([0.0, 1.0, 100.0]))
    else:
        xs = np.cumsum(rng.uniform(0.05, 4.0, size=n))
    kind = case % 6
    if kind == 0:      # convex decreasing knee curve
        ys = 50.0/(1.0 + 0.2*(xs-xs[0])) + rng.uniform(0, 0.01, size=n)
    elif kind == 1:    # staircase with exact ties (plateaus)
        ys = np.sort(rng.randint(0, 7, size=n))[::-1]*10.0
    elif kind == 2:    # noisy decreasing
        ys = np.linspace(30, 0, n) + rng.normal(0, 1.5, size=n)
    elif kind == 3:    # arbitrary non-monotone
        ys = rng.uniform(0, 20, size=n)
    elif kind == 4:    # grid-valued, many ties, non-monotone
        ys = rng.randint(0, 5, size=n).astype(float)
    else:              # piecewise linear with a hump
        ys = np.interp(np.arange(n), [0, n*0.2, n*0.4, n*0.7, n-1], [5.0, 9.0, 2.0, 3.0, 0.0])
    points = np.column_stack((xs, ys))
    if rng.rand() < 0.25:   # integer-typed curve (counters)
        points = np.column_stack((np.arange(n)*int(rng.choice([1, 3])) + int(rng.choice([0, 7])),
                                  np.round(ys*3).astype(int))).astype(np.int64)
    if points[:, 1].max() == points[:, 1].min() or points[:, 0].max() == points[:, 0].min():
        return None
    return points


def make_reduction(rng, points):
    n = len(points)
    if rng.rand() < 0.25 and n >= 6:
        pts = points.astype(float)
        pts[:, 1] = pts[:, 1] + 1.0   # keep the relative cost metrics finite
        reduced, removed = rdp.rdp(pts, t=float(rng.choice([0.01, 0.05, 0.2])))
        return np.asarray(reduced, dtype=int), removed
    m = int(rng.randint(0, min(n-2, 14)+1))
    inner = np.sort(rng.choice(np.arange(1, n-1), size=m, replace=False)) if m > 0 else np.array([], dtype=int)
    reduced = np.concatenate(([0], inner, [n-1])).astype(int)
    return reduced, rdp.compute_removed_points(points, reduced)


TX = [0.01, 0.02, 0.03, 0.05, 0.0625, 0.1, 0.125, 0.2, 0.25, 0.4]
TY = [0.005, 0.01, 0.05, 0.1, 0.125, 0.25, 0.5]


def main():
    rng = np.random.RandomState(1404)
    case = 0
    while case < 450:
        points = make_curve(rng, case)
        case += 1
        if points is None:
            continue
        n = len(points)
        reduced, removed = make_reduction(rng, points)
        nk = int(rng.randint(0, len(reduced)+1))
        knees = np.sort(rng.choice(np.arange(len(reduced)), size=nk, replace=False)).astype(int)
        tx = float(rng.choice(TX)) if rng.rand() < 0.7 else float(rng.uniform(0.005, 0.45))
        ty = float(rng.choice(TY)) if rng.rand() < 0.7 else float(rng.uniform(0.005, 0.6))
        for extremes in (False, True):
            info = dict(size=n, dtype=points.dtype, tx=tx, ty=ty, extremes=extremes)
            want = expected_even(points, reduced, knees, tx, ty, extremes)
            verify(f'add_points_even #{case}',
                   lambda: pp.add_points_even(points, reduced, knees, removed, tx=tx, ty=ty, extremes=extremes),
                   want, n, reduced=reduced.tolist(), knees=knees.tolist(), **info)

            # knees as markers: a non-empty, sorted set of indexes of the complete curve
            nm = int(rng.randint(1, min(n, 10)+1))
            markers = np.sort(rng.choice(np.arange(n), size=nm, replace=False)).astype(int)
            want = expected_even_knees(points, markers, tx, ty, extremes)
            verify(f'add_points_even_knees #{case}',
                   lambda: pp.add_points_even_knees(points, markers, tx=tx, ty=ty, extremes=extremes),
                   want, n, knees=markers.tolist(), **info)

    # a few hand-made boundary cases: widths that are exact multiples of 2*tx,
    # heights exactly equal to ty, plateaus, more points requested than available
    xs = np.arange(17, dtype=float)
    ys = np.array([16, 14, 12, 10, 8, 8, 8, 8, 8, 6, 4, 4, 4, 3, 2, 1, 0], dtype=float)
    points = np.column_stack((xs, ys))
    reduced = np.array([0, 4, 8, 10, 12, 16])
    removed = rdp.compute_removed_points(points, reduced)
    for tx in (0.0625, 0.125, 0.03125, 0.01):
        for ty in (0.125, 0.25, 0.0625, 0.01):
            for extremes in (False, True):
                for knees in ([], [1], [2, 3], [0, 1, 2, 3, 4, 5]):
                    k = np.array(knees, dtype=int)
                    want = expected_even(points, reduced, k, tx, ty, extremes)
                    verify('boundary add_points_even',
                           lambda: pp.add_points_even(points, reduced, k, removed, tx=tx, ty=ty, extremes=extremes),
                           want, len(points), knees=knees, tx=tx, ty=ty, extremes=extremes)
                for knees in ([4], [0], [16], [4, 8, 12], [0, 8, 16]):
                    k = np.array(knees, dtype=int)
                    want = expected_even_knees(points, k, tx, ty, extremes)
                    verify('boundary add_points_even_knees',
                           lambda: pp.add_points_even_knees(points, k, tx=tx, ty=ty, extremes=extremes),
                           want, len(points), knees=knees, tx=tx, ty=ty, extremes=extremes)

    if failures:
        print(f'{failures} violation(s) of C14 in {checked} checks')
        return 1
    print(f'OK: C14 holds in all {checked} checks')
    return 0


if __name__ == '__main__':
    rc = main()
    sys.stdout.flush()
    sys.exit(rc)
