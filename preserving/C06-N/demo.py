#!/usr/bin/env python
"""
Property test for C06 (global RDP stops at the first refinement whose global
cost meets the threshold).

  grdp(points, t, distance, cost, order) must return the SHORTEST member S_k of
  the fixed-size refinement sequence S_2, S_3, ... (S_k = rdp_fixed(points, k,
  distance, order)) whose global reconstruction cost
  (evaluation.compute_global_cost(points, S_k, cost)) lies on the accepting
  side of t (r2: cost >= t, the other metrics: cost < t), and all points when
  no member does.
  mp_grdp(..., min_points=m) must return S_max(k, min(m, n)).
  min_point_rdp(points, ts, m) must return the grdp result of the largest
  threshold of ts that yields at least m points, otherwise rdp_fixed(points, m).

No arguments.  Exit status 0: property holds on all generated inputs,
exit status 1: a violation was found.
"""
import signal
import sys
import time
import warnings

import numpy as np


def _alarm(signum, frame):
    # backstop only: the main loop observes its own time budget
    print('alarm: time budget exhausted, no violation found so far')
    sys.stdout.flush()
    sys.exit(0)


signal.signal(signal.SIGALRM, _alarm)
signal.alarm(57)

warnings.simplefilter('ignore')
np.seterr(all='ignore')

import kneeliverse.rdp as rdp                      # noqa: E402
import kneeliverse.metrics as metrics              # noqa: E402
import kneeliverse.evaluation as evaluation        # noqa: E402

START = time.time()
BUDGET = 30.0   # seconds used for generating cases
MULTI_TRIALS = 40      # threshold lists per curve for the multi-threshold variant
COMBOS_PER_CURVE = 1   # (distance, order) combinations per curve for grdp / mp_grdp

METRICS = [metrics.Metrics.r2, metrics.Metrics.rmspe, metrics.Metrics.rmsle,
           metrics.Metrics.smape, metrics.Metrics.rpd]
DISTANCES = [rdp.Distance.shortest, rdp.Distance.perpendicular]
ORDERS = [rdp.Order.triangle, rdp.Order.area, rdp.Order.segment]
COMBOS = [(d, o) for d in DISTANCES for o in ORDERS]

failures = []
stats = {'curves': 0, 'grdp': 0, 'mp_grdp': 0, 'min_point_rdp': 0,
         'non_monotone': 0, 'boundary_t': 0, 'all_points': 0, 'nan_skipped': 0}


# --------------------------------------------------------------------------
# generators
# --------------------------------------------------------------------------
def gen_x(rng, n):
    kind = rng.integers(0, 4)
    if kind == 0:
        return np.arange(n, dtype=float)
    if kind == 1:
        return np.cumsum(rng.uniform(0.05, 2.0, n))
    if kind == 2:
        return np.cumsum(rng.integers(1, 4, n)).astype(float)
    return np.sort(rng.choice(np.arange(1, 4 * n), size=n, replace=False)).astype(float)


def gen_y(rng, n, x):
    kind = rng.integers(0, 11)
    if kind == 0:     # typical convex decreasing performance curve
        y = 8.0 / (0.3 * (x - x[0]) + 1.0) + rng.uniform(0, 2)
        return y + rng.uniform(0, 0.05, n) * (rng.integers(0, 2))
    if kind == 1:     # exponential decay + noise
        return 9.0 * np.exp(-(x - x[0]) / rng.uniform(1, 10)) + 0.5 + rng.uniform(0, 0.3, n)
    if kind == 2:     # piecewise linear with exact collinear runs (integers)
        y = np.empty(n)
        y[0] = rng.integers(0, 10)
        slope = rng.integers(-2, 3)
        for i in range(1, n):
            if rng.random() < 0.25:
                slope = rng.integers(-2, 3)
            y[i] = y[i - 1] + slope
        return y - y.min()
    if kind == 3:     # staircase / plateaus
        return np.repeat(rng.integers(0, 6, n), rng.integers(1, 5))[:n].astype(float)
    if kind == 4:     # symmetric V / W (many exact ordering ties)
        period = rng.integers(2, 6)
        return np.abs((np.arange(n) % (2 * period)) - period).astype(float)
    if kind == 5:     # constant
        return np.full(n, float(rng.integers(0, 4)))
    if kind == 6:     # mostly zeros with a few bumps
        y = np.zeros(n)
        y[rng.integers(0, n, size=max(1, n // 5))] = rng.integers(1, 5)
        return y
    if kind == 7:     # positive random walk
        y = np.cumsum(rng.normal(0, 1, n))
        return y - y.min() + rng.uniform(0, 1)
    if kind == 8:     # small integers, lots of ties
        return rng.integers(0, 4, n).astype(float)
    if kind == 9:     # concave increasing
        return np.sqrt(x - x[0] + 1.0) + rng.uniform(0, 0.1, n)
    return rng.uniform(0, 10, n)   # rough


def gen_curve(rng):
    n = int(rng.choice([3, 4, 5, 6, 8, 10, 12, 14, 17, 20, 24]))
    x = gen_x(rng, n)
    y = gen_y(rng, n, x)
    as_int = False
    r = rng.random()
    if r < 0.18 and np.all(x == np.round(x)):
        # integer dtype
        y = np.round(y)
        as_int = True
    elif r < 0.55:
        sy = float(rng.choice([1e-150, 1e-100, 1e-8, 1e-3, 1e3, 1e8, 1e100, 1e150]))
        sx = float(rng.choice([1.0, 1.0, 1e-150, 1e-6, 1e6, 1e150]))
        y = y * sy
        x = x * sx
    pts = np.column_stack((x, y))
    if as_int:
        pts = pts.astype(np.int64)
    return pts


# --------------------------------------------------------------------------
# reference (the statement, spelled out with the public functions)
# --------------------------------------------------------------------------
def refinement_sequence(points, distance, order):
    n = len(points)
    seq = []
    for k in range(2, n + 1):
        r, _ = rdp.rdp_fixed(points, k, distance, order)
        seq.append(np.asarray(r))
    return seq


def accepting(c, t, metric):
    if metric is metrics.Metrics.r2:
        return c >= t
    return c < t


def expected_grdp(points, seq, costs, t, metric):
    """index into seq of the first accepted member, None -> all points"""
    for i, c in enumerate(costs):
        if accepting(c, t, metric):
            return i
    return None


def same(a, b):
    a = np.asarray(a)
    b = np.asarray(b)
    return a.shape == b.shape and bool(np.all(a == b))


def check_removed(points, reduced, removed):
    reduced = np.asarray(reduced)
    removed = np.asarray(removed)
    if len(removed) != len(reduced) - 1:
        return False
    exp = np.column_stack((reduced[:-1], np.diff(reduced) - 1))
    return same(removed, exp)


def thresholds_for(rng, costs, metric):
    fin = np.array([c for c in costs if np.isfinite(c)], dtype=float)
    ts = []
    # always-accepted and never-accepted thresholds
    if metric is metrics.Metrics.r2:
        ts += [(-1.0, 'plain'), (1.5, 'plain'), (0.9, 'plain')]
    else:
        ts += [(0.0, 'plain'), (1e300, 'plain'), (0.01, 'plain')]
    if len(fin):
        u = np.unique(fin)
        # midpoints between neighbouring distinct costs
        if len(u) > 1:
            mids = (u[:-1] + u[1:]) / 2.0
            for m in rng.choice(mids, size=min(3, len(mids)), replace=False):
                ts.append((float(m), 'plain'))
        # exactly on a cost value and one ulp to either side
        for c in rng.choice(u, size=min(2, len(u)), replace=False):
            c = float(c)
            ts.append((c, 'boundary'))
            ts.append((float(np.nextafter(c, np.inf)), 'boundary'))
            ts.append((float(np.nextafter(c, -np.inf)), 'boundary'))
    return ts


def fail(msg, **ctx):
    failures.append(msg)
    print('VIOLATION:', msg)
    for k, v in ctx.items():
        print('   ', k, '=', repr(v))
    sys.stdout.flush()


def run_curve(rng, points, combos):
    n = len(points)
    allpts = np.arange(n)
    for distance, order in combos:
        seq = refinement_sequence(points, distance, order)
        # what "refinement sequence" means: k points, nested, ends included
        for k, s in zip(range(2, n + 1), seq):
            if len(s) != k or s[0] != 0 or s[-1] != n - 1:
                fail('rdp_fixed does not return k points', points=points.tolist(), k=k, s=s.tolist())
                return
        for a, b in zip(seq[:-1], seq[1:]):
            if not set(a.tolist()) <= set(b.tolist()):
                fail('refinement sequence is not nested', points=points.tolist())
                return

        for metric in METRICS:
            costs = [evaluation.compute_global_cost(points, s, metric) for s in seq]
            if any(np.isnan(c) for c in costs):
                stats['nan_skipped'] += 1
                continue
            for t, kind in thresholds_for(rng, costs, metric):
                i = expected_grdp(points, seq, costs, t, metric)
                exp = allpts if i is None else seq[i]
                if i is None:
                    stats['all_points'] += 1
                elif any(not accepting(c, t, metric) for c in costs[i + 1:]):
                    stats['non_monotone'] += 1
                if kind == 'boundary':
                    stats['boundary_t'] += 1

                got, removed = rdp.grdp(points, t=t, distance=distance, cost=metric, order=order)
                stats['grdp'] += 1
                if not same(got, exp) or not check_removed(points, got, removed):
                    fail('grdp is not the first accepted member of the refinement sequence',
                         points=points.tolist(), dtype=str(points.dtype), t=t, metric=str(metric),
                         distance=str(distance), order=str(order),
                         got=np.asarray(got).tolist(), expected=exp.tolist(),
                         costs=[float(c) for c in costs])
                    continue

                # min-points variant
                k = len(exp)
                for m in {2, 3, k - 1, k, k + 1, k + 3, n, n + 4, int(rng.integers(1, n + 3))}:
                    if m < 1:
                        continue
                    kk = max(k, min(m, n))
                    exp_mp = seq[kk - 2]
                    got_mp, removed_mp = rdp.mp_grdp(points, t=t, min_points=m, distance=distance,
                                                     cost=metric, order=order)
                    stats['mp_grdp'] += 1
                    if not same(got_mp, exp_mp) or not check_removed(points, got_mp, removed_mp):
                        fail('mp_grdp is not S_max(k, min(m, n))',
                             points=points.tolist(), t=t, m=m, metric=str(metric),
                             distance=str(distance), order=str(order),
                             got=np.asarray(got_mp).tolist(), expected=exp_mp.tolist())

    # multi-threshold variant (defaults: shortest, smape, segment)
    distance, order, metric = rdp.Distance.shortest, rdp.Order.segment, metrics.Metrics.smape
    seq = refinement_sequence(points, distance, order)
    costs = [evaluation.compute_global_cost(points, s, metric) for s in seq]
    if any(np.isnan(c) for c in costs):
        stats['nan_skipped'] += 1
        return
    cand = [t for _ in range(4) for t, _ in thresholds_for(rng, costs, metric)]
    for trial in range(MULTI_TRIALS):
        # unsorted, possibly with duplicates
        ts = [float(v) for v in rng.choice(cand, size=int(rng.integers(1, 7)), replace=True)]
        if trial == 0:
            ts = [0.01, 0.001, 0.0001]
        elif trial == 1:
            ts = []
        for m in {2, 3, int(rng.integers(2, n + 1)), n, n + 3}:
            exp = None
            for t in sorted(ts, reverse=True):
                i = expected_grdp(points, seq, costs, t, metric)
                e = allpts if i is None else seq[i]
                if len(e) >= m:
                    exp = e
                    break
            if exp is None:
                exp = np.asarray(rdp.rdp_fixed(points, m)[0])
                if not same(exp, seq[min(m, n) - 2]):
                    fail('rdp_fixed(points, m) is not S_min(m, n)', points=points.tolist(), m=m)
            got, removed = rdp.min_point_rdp(points, t=list(ts), min_points=m)
            stats['min_point_rdp'] += 1
            if not same(got, exp) or not check_removed(points, got, removed):
                fail('min_point_rdp: wrong member returned',
                     points=points.tolist(), ts=ts, m=m,
                     got=np.asarray(got).tolist(), expected=exp.tolist())


def fixed_curves():
    """hand-made awkward curves"""
    out = []
    out.append(np.array([[0, 5], [1, 3], [2, 2], [3, 1.5], [4, 1.2], [5, 1.1], [6, 1.05], [7, 1.0]]))
    out.append(np.array([[0, 0], [1, 1], [2, 2], [3, 3], [4, 4], [5, 5]]))                 # one straight line (int)
    out.append(np.array([[0, 3], [1, 3], [2, 3], [3, 3]], dtype=float))                     # constant
    out.append(np.array([[0, 0], [1, 0], [2, 0], [3, 0], [4, 0]], dtype=float))             # all zeros
    out.append(np.array([[0, 4], [1, 2], [2, 0], [3, 2], [4, 4], [5, 2], [6, 0], [7, 2], [8, 4]]))  # W (int)
    out.append(np.array([[0, 0], [1, 0], [2, 0], [3, 5], [4, 5], [5, 5], [6, 1], [7, 1], [8, 1]], dtype=float))
    out.append(np.array([[0, 1], [1, 2], [2, 1]], dtype=float))                              # 3 points
    x = np.arange(20.0)
    out.append(np.column_stack((x, 1e150 / (x + 1))))
    out.append(np.column_stack((x * 1e150, 1e150 / (x + 1))))
    out.append(np.column_stack((x, 1e-150 / (x + 1))))
    out.append(np.column_stack((x * 1e-150, 7e-150 * np.exp(-x / 4))))
    out.append(np.column_stack((x, np.where(x < 10, 10 - x, 0.0))))                          # knee into zeros
    return out


def two_point_curves():
    """2-point curves: S_2 is the only member, it is accepted by every positive threshold"""
    for p in (np.array([[0, 1], [1, 0]]), np.array([[0.0, 3e150], [2.0, 1e150]]),
              np.array([[1e-150, 2e-150], [3e-150, 1e-150]]), np.array([[0.0, 0.0], [1.0, 0.0]])):
        for ts in ([0.01, 0.001, 0.0001], [0.5], [1e-300, 1e300]):
            for m in (1, 2, 3, 5, 10):
                got, removed = rdp.min_point_rdp(p, t=list(ts), min_points=m)
                stats['min_point_rdp'] += 1
                if not same(got, [0, 1]) or not same(removed, [[0, 0]]):
                    fail('min_point_rdp on a 2-point curve', points=p.tolist(), ts=ts, m=m,
                         got=np.asarray(got).tolist(), removed=np.asarray(removed).tolist())
                got, removed = rdp.mp_grdp(p, t=ts[0], min_points=m)
                stats['mp_grdp'] += 1
                if not same(got, [0, 1]) or not same(removed, [[0, 0]]):
                    fail('mp_grdp on a 2-point curve', points=p.tolist(), t=ts[0], m=m,
                         got=np.asarray(got).tolist(), removed=np.asarray(removed).tolist())


def main():
    rng = np.random.default_rng(20260607)
    two_point_curves()
    curves = fixed_curves()
    ci = 0
    while time.time() - START < BUDGET and stats['curves'] < 150:
        if ci < len(curves):
            pts = curves[ci]
        else:
            pts = gen_curve(rng)
        # two of the six (distance, order) combinations per curve, cycling
        combos = [COMBOS[(2 * ci) % 6], COMBOS[(2 * ci + 1 + (ci // 3) % 5) % 6]][:COMBOS_PER_CURVE]
        if COMBOS_PER_CURVE == 1:
            combos = [COMBOS[ci % 6]]
        ci += 1
        try:
            run_curve(rng, pts, combos)
        except SystemExit:
            raise
        except Exception as e:   # an exception for a valid input is a failure too
            fail('exception %s: %s' % (type(e).__name__, e), points=pts.tolist(), dtype=str(pts.dtype))
        stats['curves'] += 1
        if len(failures) > 5:
            break

    print('C06 demo:', ', '.join('%s=%d' % kv for kv in stats.items()),
          'elapsed=%.1fs' % (time.time() - START))
    if failures:
        print('%d violation(s)' % len(failures))
        sys.exit(1)
    print('property holds on all generated inputs')
    sys.exit(0)


if __name__ == '__main__':
    main()
