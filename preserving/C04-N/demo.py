#!/usr/bin/env python
"""
C04 property test: threshold RDP keeps a segment only if it fits and splits
only where it must.

For rdp.rdp(points, t, distance, cost) with any cost metric, distance and
threshold t:

 (1) every retained segment that has interior points has an endpoint-line cost
     on the accepting side of t (cost < t, or R2 >= t);
 (2) every retained interior index is explained by a recursive split: it lies
     strictly inside an index range whose cost is on the rejecting side of t
     and no interior point of that range is farther from its chord, beyond
     rounding noise.  The output therefore is SOME recursive Ramer-Douglas-
     Peucker partition under the library's own cost and distance primitives.

Costs are evaluated with the library's own primitives (lf.linear_fit_points +
lf.<metric>_points) on the very slices rdp.rdp sees and are compared with t
exactly (no tolerance band), so thresholds that coincide with the cost of a
visited range are checked too.  Distances are evaluated with the library's
lf.shortest_distance_points / lf.perpendicular_distance_points.  "Rounding
noise" of a distance is measured against the size of the operands it is
computed from: NOISE_ULPS ulps of the extent of the range (the larger of the
chord length and the largest distance of a point to the first point).  Which
one of several (numerically) equally distant points is used as split point is
not constrained by the statement, so the check searches over all the kept
indexes that are farthest within that noise.

Inputs: a few hundred generated performance curves (strictly increasing x,
y >= 0, float64 or int64, 2 .. 1500 points): knees, exponential decays,
concave curves, point-symmetric S-curves, noisy curves, integer staircases,
plateaus, symmetric tents, few-level data, exactly collinear runs that end at
zero, curves with zeros, curves scaled to 1e-150 .. 1e150; 5 metrics x 2
distances x several thresholds.

Exit status: 0 = the property holds on every case, 1 = violation found.
"""
import signal
import sys
import time

signal.alarm(58)          # hard guard against hangs
T0 = time.time()
BUDGET = 36.0             # seconds spent on generated cases

import warnings
import numpy as np
import kneeliverse.rdp as rdp
import kneeliverse.linear_fit as lf
import kneeliverse.metrics as metrics

M = metrics.Metrics
D = rdp.Distance
EPS = float(np.finfo(float).eps)
NOISE_ULPS = 32.0

COST = {M.r2: lf.linear_r2_points, M.rmspe: lf.rmspe_points, M.rmsle: lf.rmsle_points,
        M.smape: lf.smape_points, M.rpd: lf.rpd_points}
DIST = {D.shortest: lf.shortest_distance_points, D.perpendicular: lf.perpendicular_distance_points}

WORK_LIMIT = 60000
INCONCLUSIVE = 'inconclusive'


class Inconclusive(Exception):
    pass


def cost_of(points, lo, hi, cost):
    pt = points[lo:hi + 1]
    return COST[cost](pt, lf.linear_fit_points(pt))


def accepting(c, t, cost):
    return c >= t if cost is M.r2 else c < t


def check(points, reduced, removed, t, cost, distance):
    n = len(points)
    red = [int(i) for i in reduced]
    if red[0] != 0 or red[-1] != n - 1 or any(b <= a for a, b in zip(red, red[1:])):
        return 'reduced is not a strictly increasing index list from 0 to n-1: %r' % (red[:20],)
    # bookkeeping of the second output (used by rdp.mapping)
    rem = np.asarray(removed)
    if rem.shape != (len(red) - 1, 2) or any(int(r[0]) != a or int(r[1]) != b - a - 1
                                              for r, a, b in zip(rem, red, red[1:])):
        return 'removed does not list (left index, number of interior points) of the retained segments'

    # (1) retained segments fit
    for a, b in zip(red, red[1:]):
        if b - a >= 2:
            c = cost_of(points, a, b, cost)
            if not accepting(c, t, cost):
                return ('retained segment [%d..%d] has endpoint-line %s = %r, not on the accepting side of t = %r'
                        % (a, b, cost, float(c), float(t)))

    # (2) kept interior indexes are explained by recursive splits
    kept = np.zeros(n, dtype=bool)
    kept[red] = True
    memo = {}
    work = [0]
    fx = points[:, 0].astype(float)
    fy = points[:, 1].astype(float)

    def explain(lo, hi):
        key = (lo, hi)
        if key in memo:
            return memo[key]
        inner = lo + 1 + np.flatnonzero(kept[lo + 1:hi])
        if len(inner) == 0:
            memo[key] = None
            return None
        c = cost_of(points, lo, hi, cost)
        if accepting(c, t, cost):
            memo[key] = ('index(es) %r kept inside range [%d..%d] although its endpoint-line %s = %r is on the '
                         'ACCEPTING side of t = %r' % (inner[:6].tolist(), lo, hi, cost, float(c), float(t)))
            return memo[key]
        pt = points[lo:hi + 1]
        d = DIST[distance](pt, pt[0], pt[-1])
        dmax = float(d[1:-1].max())
        extent = float(np.hypot(fx[lo:hi + 1] - fx[lo], fy[lo:hi + 1] - fy[lo]).max())
        noise = NOISE_ULPS * EPS * extent
        cands = [int(k) for k in inner if d[k - lo] >= dmax - noise]
        msg = ('range [%d..%d] was rejected (%s = %r, t = %r) but none of the kept indexes %r is a farthest point '
               'under %s distance (max %r, kept at %r, noise allowance %r)'
               % (lo, hi, cost, float(c), float(t), inner[:6].tolist(), distance, dmax,
                  [float(d[k - lo]) for k in inner[:6]], noise))
        # any of the (numerically) farthest kept indexes may have been the split
        # point; try the largest distances first, then the usual tie rules
        cands.sort(key=lambda k: -d[k - lo])
        if len(cands) > 3:
            by_pos = sorted(cands)
            first = [cands[0], by_pos[0], by_pos[-1], by_pos[len(by_pos) // 2], by_pos[(len(by_pos) - 1) // 2]]
            cands = list(dict.fromkeys(first + cands))
        for k in cands:
            work[0] += 1
            if work[0] > WORK_LIMIT:
                raise Inconclusive()
            msg = explain(lo, k) or explain(k, hi)
            if msg is None:
                break
        memo[key] = msg
        return msg

    try:
        return explain(0, n - 1)
    except Inconclusive:
        return INCONCLUSIVE


def gen_curve(rng, i):
    kind = i % 12
    if i % 41 == 40:
        n = int(rng.integers(800, 1500)) if kind not in (5, 6, 8) else int(rng.integers(200, 400))
    elif i % 5 == 4:
        n = int(rng.integers(2, 8))
    else:
        n = int(rng.integers(8, 160))
    if rng.random() < 0.5:
        x = np.arange(1, n + 1, dtype=float)
    else:
        x = np.cumsum(rng.integers(1, 6, size=n)).astype(float)
        if rng.random() < 0.3:
            x = x * rng.uniform(0.1, 10.0)
    as_int = False
    if kind == 0:      # miss-ratio like knee
        y = rng.uniform(10, 100) / x ** rng.uniform(0.4, 1.6) + rng.uniform(0.0, 3.0)
    elif kind == 1:    # exponential decay to a floor
        y = rng.uniform(5, 50) * np.exp(-x / (x[-1] * rng.uniform(0.05, 0.5))) + rng.uniform(0.0, 2.0)
    elif kind == 2:    # concave increasing
        y = rng.uniform(0, 5) + rng.uniform(1, 10) * np.sqrt(x)
    elif kind == 3:    # point-symmetric s-curve (mathematically tied distances, noisy in floating point)
        y = 1.0 + 100.0 / (1.0 + np.exp(-(x - x.mean()) / (0.1 * (x[-1] - x[0]) + 1e-9)))
    elif kind == 4:    # noisy, non monotone
        y = np.abs(rng.normal(20.0, 8.0, size=n))
    elif kind == 5:    # integer staircase, decreasing (plateaus, many ties)
        y = np.sort(rng.integers(0, max(2, n // 4) + 1, size=n))[::-1].astype(float)
        as_int = rng.random() < 0.5
    elif kind == 6:    # symmetric integer tent (exact ties of distances)
        h = n // 2
        y = np.concatenate((np.arange(h), np.arange(n - h)[::-1])).astype(float) + float(rng.integers(0, 3))
        x = np.arange(1, n + 1, dtype=float)
        as_int = rng.random() < 0.5
    elif kind == 7:    # plateau - ramp - plateau with zeros
        a = n // 3
        y = np.concatenate((np.full(a, float(rng.integers(3, 30))),
                            np.linspace(float(rng.integers(3, 30)), 0.0, n - 2 * a),
                            np.zeros(a)))
    elif kind == 8:    # few distinct levels, random order
        y = rng.integers(0, 4, size=n).astype(float)
        as_int = rng.random() < 0.5
    elif kind == 9:    # noisy decreasing, rounded (low resolution measurements)
        y = np.round(np.sort(rng.uniform(0.0, 50.0, size=n))[::-1], 1)
    elif kind == 10:   # exactly collinear run that ends at zero (+ sometimes a plateau of zeros)
        y = float(rng.integers(1, 7)) * (x[-1] - x)
        if rng.random() < 0.5:
            z = int(rng.integers(1, 6))
            x = np.concatenate((x, x[-1] + np.arange(1, z + 1)))
            y = np.concatenate((y, np.zeros(z)))
        as_int = rng.random() < 0.5
    else:              # knee at a very small / very large magnitude
        n = min(n, 60)
        x = x[:n]
        y = rng.uniform(10, 100) / x ** rng.uniform(0.4, 1.6) + rng.uniform(0.0, 3.0)
        x = x * 10.0 ** int(rng.integers(-150, 148))
        y = y * 10.0 ** int(rng.integers(-150, 148))
    pts = np.column_stack((x, y))
    if as_int and np.all(pts == np.round(pts)):
        pts = pts.astype(np.int64)
    return pts


def thresholds(rng, pts, cost, distance):
    n = len(pts)
    if cost is M.r2:
        ts = [0.99, 0.9, float(rng.uniform(0.3, 0.999)), 0.0]
    else:
        ts = [0.01, 0.1, float(10 ** rng.uniform(-4, 0.2))]
    # thresholds that coincide with the cost of visited ranges
    ts.append(float(cost_of(pts, 0, n - 1, cost)))
    if n >= 5:
        d = DIST[distance](pts, pts[0], pts[-1])
        k = 1 + int(np.argmax(d[1:-1]))
        lo, hi = (0, k) if k >= n - 1 - k else (k, n - 1)
        if hi - lo >= 2:
            ts.append(float(cost_of(pts, lo, hi, cost)))
    out = []
    for t in ts:
        if not np.isfinite(t):
            continue
        if cost is not M.r2 and t <= 0.0:
            continue        # t <= 0 is outside the domain of the error metrics
        if cost is M.r2 and t > 1.0:
            continue
        out.append(t)
    return out


def main():
    rng = np.random.default_rng(714)
    failures = 0
    inconclusive = 0
    ncases = 0
    ncurves = 0
    for i in range(420):
        if time.time() - T0 > BUDGET:
            break
        pts = gen_curve(rng, i)
        ncurves += 1
        for cost in M:
            for distance in D:
                for t in thresholds(rng, pts, cost, distance):
                    ncases += 1
                    try:
                        with warnings.catch_warnings():
                            warnings.simplefilter('error')      # no overflow / invalid value warnings
                            reduced, removed = rdp.rdp(pts, t=t, distance=distance, cost=cost)
                    except Exception as e:       # valid input must not raise
                        msg = 'rdp raised %s: %s' % (type(e).__name__, e)
                    else:
                        msg = check(pts, reduced, removed, t, cost, distance)
                    if msg is INCONCLUSIVE:
                        # heavily tied input: the search for an explanation was cut short
                        # (clause 1 was fully checked); not counted as a violation
                        inconclusive += 1
                    elif msg:
                        failures += 1
                        if failures <= 8:
                            print('VIOLATION curve#%d (n=%d, %s) cost=%s distance=%s t=%r:\n    %s'
                                  % (i, len(pts), pts.dtype, cost, distance, t, msg))
    print('%d curves, %d cases, %d violations of C04, %d inconclusive (%.1f s)'
          % (ncurves, ncases, failures, inconclusive, time.time() - T0))
    return 1 if failures else 0


if __name__ == '__main__':
    sys.exit(main())
