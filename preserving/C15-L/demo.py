#!/usr/bin/env python
"""C15 property test (L).

For generated performance curves (strictly increasing finite x, y >= 0, float
and integer data, with plateaus / collinear runs / zeros / noise), generated
breakpoint sets (ascending, containing both ends) and all five metrics checks

  * compute_global_cost == metric accumulated over the piecewise-linear
    interpolation through the breakpoints (segments of <= 2 points contribute
    0, every interior breakpoint counted once per adjoining segment, R2
    clipped at 0), computed by an independent oracle,
  * cost >= 0, and == 0 (1 for R2) when every point is a breakpoint,
  * a sequence of breakpoint sets evaluated against one shared cache returns
    bit-identical values to fresh-cache / no-cache evaluations (also for
    python lists and other integer dtypes of the breakpoint set),
  * compute_global_rmse == RMSE against np.interp through the breakpoints
    (shared cache bit-identical to fresh cache),
  * mip == median over the interior breakpoints of the RMSE increase caused
    by deleting that breakpoint.

Exit status 0: property holds on all generated inputs, 1: violated.
"""
import math
import signal
import sys
import warnings

signal.alarm(55)

import numpy as np
from kneeliverse import evaluation
from kneeliverse.metrics import Metrics

EPS = 1e-16
N_CURVES = 320


# --------------------------------------------------------------------------- #
# independent oracles
# --------------------------------------------------------------------------- #
def oracle_cost(points, reduced, metric):
    x = points[:, 0].astype(float)
    y = points[:, 1].astype(float)
    acc = 0.0            # accumulated per-point metric terms
    count = 0            # number of terms (interior breakpoints twice)
    for left, right in zip(reduced[:-1], reduced[1:]):
        left, right = int(left), int(right)
        xs, ys = x[left:right + 1], y[left:right + 1]
        count += len(ys)
        if len(ys) <= 2:
            continue     # contributes 0
        # two-point form of the chord through the two breakpoints
        t = (xs - xs[0]) / (xs[-1] - xs[0])
        hat = ys[0] * (1.0 - t) + ys[-1] * t
        if metric is Metrics.r2:
            acc += math.fsum((ys - hat) ** 2)
        elif metric is Metrics.rmsle:
            acc += math.fsum((np.log(ys + 1) - np.log(hat + 1)) ** 2)
        elif metric is Metrics.rmspe:
            acc += math.fsum(((ys - hat) / (ys + EPS)) ** 2)
        elif metric is Metrics.rpd:
            acc += math.fsum(np.abs((ys - hat) / (np.maximum(ys, hat) + EPS)))
        else:
            acc += math.fsum(2.0 * np.abs(hat - ys) / (np.abs(ys) + np.abs(hat) + EPS))
    assert count == len(points) + len(reduced) - 2
    if metric is Metrics.r2:
        tss = math.fsum((y - math.fsum(y) / len(y)) ** 2)
        v = 1.0 - acc if tss == 0 else 1.0 - acc / tss
        return max(v, 0.0)
    if metric in (Metrics.rmsle, Metrics.rmspe):
        return math.sqrt(acc / count)
    return acc / count


def oracle_rmse(points, reduced):
    x = points[:, 0].astype(float)
    y = points[:, 1].astype(float)
    r = np.asarray(reduced, dtype=int)
    hat = np.interp(x, x[r], y[r])
    return math.sqrt(math.fsum((y - hat) ** 2) / len(y))


def oracle_mip(points, reduced):
    r = [int(v) for v in reduced]
    fin = oracle_rmse(points, r)
    inc = [oracle_rmse(points, r[:i] + r[i + 1:]) - fin for i in range(1, len(r) - 1)]
    return float(np.median(inc))


# --------------------------------------------------------------------------- #
# generators
# --------------------------------------------------------------------------- #
def gen_x(rng, n, integer):
    kind = rng.integers(0, 4)
    if integer or kind == 0:
        x = np.cumsum(rng.integers(1, 5, size=n)) + rng.integers(0, 50)
        return x if integer else x.astype(float)
    if kind == 1:
        return np.arange(n, dtype=float)
    if kind == 2:
        return np.cumsum(rng.uniform(0.05, 3.0, size=n)) + rng.uniform(0, 100)
    return np.sort(rng.choice(np.arange(1, 20 * n), size=n, replace=False)).astype(float) / 8.0


def gen_y(rng, x, integer, positive):
    n = len(x)
    t = (x - x[0]) / max(float(x[-1] - x[0]), 1.0)
    scale = float(rng.choice([1.0, 10.0, 1000.0, 1e5]))
    kind = rng.integers(0, 8)
    if kind == 0:
        y = 1.0 / (0.02 + t)
    elif kind == 1:
        y = np.exp(-6.0 * t)
    elif kind == 2:                              # piecewise linear, kinks
        k = np.sort(rng.uniform(0, 1, size=3))
        y = np.interp(t, [0, k[0], k[1], k[2], 1], np.sort(rng.uniform(0, 1, size=5))[::-1])
    elif kind == 3:                              # staircase with plateaus
        y = np.floor(8 * (1 - t)) / 8.0
    elif kind == 4:                              # noise
        y = rng.uniform(0, 1, size=n)
    elif kind == 5:                              # constant
        y = np.full(n, 0.5)
    elif kind == 6:                              # straight line
        y = 1.0 - 0.75 * t
    else:                                        # decreasing, zero tail, spikes
        y = np.maximum(0.0, 1.0 - 2.0 * t)
        y[rng.integers(0, n, size=max(1, n // 10))] += 0.3
    y = y / max(float(np.max(y)), 1e-300) * scale
    if rng.integers(0, 3) == 0:
        y = y + rng.uniform(0, 0.01 * scale, size=n)
    if positive:
        y = y + 0.05 * scale                     # keep ratio metrics well conditioned
    if integer:
        y = np.round(y * (100.0 if scale < 100 else 1.0)).astype(np.int64)
    assert np.all(y >= 0)
    return y


def gen_reduced(rng, n):
    kind = rng.integers(0, 6)
    if kind == 0 or n <= 2:
        inner = np.array([], dtype=int)
    elif kind == 1:
        inner = np.arange(1, n - 1)              # every point is a breakpoint
    elif kind == 2:                              # runs of adjacent breakpoints
        s = int(rng.integers(1, n - 1))
        inner = np.arange(s, min(n - 1, s + int(rng.integers(1, 6))))
    else:
        k = int(rng.integers(1, max(2, min(n - 2, 12) + 1)))
        k = min(k, n - 2)
        inner = np.sort(rng.choice(np.arange(1, n - 1), size=k, replace=False))
    return np.concatenate(([0], inner, [n - 1])).astype(int)


def close(a, b, scale=1.0):
    return abs(a - b) <= 1e-9 * max(1.0, abs(a), abs(b), scale)


# --------------------------------------------------------------------------- #
def main():
    warnings.simplefilter('ignore')
    rng = np.random.default_rng(20261003)
    failures = []
    checks = 0

    def fail(msg):
        if len(failures) < 30:
            failures.append(msg)
        else:
            failures.append(None)

    for c in range(N_CURVES):
        if c % 40 == 39:
            n = int(rng.integers(500, 2500))
        elif c % 5 == 0:
            n = int(rng.integers(2, 9))
        else:
            n = int(rng.integers(9, 160))
        integer = bool(rng.integers(0, 4) == 0)
        positive = bool(rng.integers(0, 2) == 0)
        x = gen_x(rng, n, integer)
        y = gen_y(rng, x, integer, positive)
        assert np.all(np.diff(x) > 0)
        points = np.column_stack((x, y))
        yscale = float(np.max(y))

        seq = [gen_reduced(rng, n) for _ in range(5)]
        seq.append(np.arange(n))
        seq.append(seq[0].copy())                # a repeated query
        order = rng.permutation(len(seq))
        seq = [seq[i] for i in order]

        # ---- compute_global_cost: 5 metrics, shared cache sequence ---------- #
        for metric in Metrics:
            shared = {}
            for q, red in enumerate(seq):
                form = q % 3                     # vary the container type
                arg = red if form == 0 else (red.tolist() if form == 1 else red.astype(np.int32))
                got_shared = evaluation.compute_global_cost(points, arg, metric, shared)
                got_fresh = evaluation.compute_global_cost(points, red, metric, {})
                got_none = evaluation.compute_global_cost(points, red, metric)
                checks += 1
                tag = f'curve {c} n={n} int={integer} {metric} reduced={red.tolist() if len(red) < 20 else len(red)}'
                if not (got_shared == got_fresh == got_none):
                    fail(f'{tag}: shared {got_shared!r}, fresh {got_fresh!r}, no cache {got_none!r} are not identical')
                if not got_fresh >= 0:
                    fail(f'{tag}: cost {got_fresh!r} is not >= 0')
                if len(red) == n:
                    want_full = 1.0 if metric is Metrics.r2 else 0.0
                    if got_fresh != want_full:
                        fail(f'{tag}: all points are breakpoints, expected {want_full}, got {got_fresh!r}')
                # ratio metrics are ill conditioned when y touches 0 (division by eps)
                if metric in (Metrics.r2, Metrics.rmsle) or positive:
                    want = oracle_cost(points, red, metric)
                    if not close(got_fresh, want):
                        fail(f'{tag}: cost {got_fresh!r} != definition {want!r}')

        # ---- compute_global_rmse: definition and cache transparency --------- #
        shared = {}
        for red in seq:
            got_shared = evaluation.compute_global_rmse(points, red, shared)
            got_fresh = evaluation.compute_global_rmse(points, red, {})
            got_none = evaluation.compute_global_rmse(points, red)
            want = oracle_rmse(points, red)
            checks += 1
            tag = f'curve {c} n={n} int={integer} rmse reduced={red.tolist() if len(red) < 20 else len(red)}'
            if not (got_shared == got_fresh == got_none):
                fail(f'{tag}: shared {got_shared!r}, fresh {got_fresh!r}, no cache {got_none!r} are not identical')
            if not close(got_fresh, want, yscale):
                fail(f'{tag}: global rmse {got_fresh!r} != rmse against interpolation {want!r}')
            if len(red) == n and not close(got_fresh, 0.0, yscale):
                fail(f'{tag}: all points are breakpoints, rmse {got_fresh!r}')

        # ---- mip ------------------------------------------------------------ #
        for red in seq[:4]:
            if len(red) < 3:
                continue
            got, _ = evaluation.mip(points, red)
            got_list, _ = evaluation.mip(points, red.tolist()) if len(red) < 30 else (got, None)
            want = oracle_mip(points, red)
            checks += 1
            tag = f'curve {c} n={n} int={integer} mip reduced={red.tolist() if len(red) < 20 else len(red)}'
            if got != got_list:
                fail(f'{tag}: mip(list) {got_list!r} != mip(array) {got!r}')
            if not close(got, want, yscale):
                fail(f'{tag}: mip {got!r} != median rmse increase {want!r}')

    if failures:
        print(f'C15 VIOLATED: {len(failures)} findings in {checks} checks on {N_CURVES} curves')
        for f in failures:
            if f is not None:
                print('  ' + f)
        return 1
    print(f'C15 holds: {checks} checks on {N_CURVES} generated curves')
    return 0


if __name__ == '__main__':
    sys.exit(main())
