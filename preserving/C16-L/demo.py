#!/usr/bin/env python
"""C16 property test: regression metrics and linear-fit helpers equal their
mathematical definitions (to within floating-point rounding).
Exits 0 when the property holds on all generated inputs, 1 otherwise."""
import math
import signal
import sys

signal.alarm(55)

import numpy as np
import kneeliverse.metrics as metrics
import kneeliverse.linear_fit as lf

R2 = metrics.R2
FAIL = []


def f(v):
    return np.asarray(v, dtype=float)


def close(a, b, rtol=1e-9, atol=1e-12, scale=1.0):
    a = float(a)
    b = float(b)
    if math.isnan(a) or math.isnan(b):
        return False
    return abs(a - b) <= atol + rtol * max(abs(a), abs(b), scale)


def check(ok, what, **ctx):
    if not ok:
        FAIL.append((what, ctx))


# ---- textbook references (plain NumPy, float64) -------------------------
def ref_r2(y, yh, variant=R2.classic):
    y, yh = f(y), f(yh)
    rss = np.sum((y - yh) ** 2)
    tss = np.sum((y - np.mean(y)) ** 2)
    rv = 1.0 - rss if tss == 0 else 1.0 - rss / tss
    scale = 1.0 + (rss if tss == 0 else rss / tss)
    if variant is R2.adjusted:
        k = (len(y) - 1) / (len(y) - 2)
        rv = 1.0 - (1.0 - rv) * k
        scale *= k
    return rv, scale


def ref_rmse(y, yh):
    return np.sqrt(np.mean((f(y) - f(yh)) ** 2))


def ref_rmsle(y, yh):
    return np.sqrt(np.mean((np.log(f(y) + 1) - np.log(f(yh) + 1)) ** 2))


def ref_rmspe(y, yh, eps=1e-16):
    return np.sqrt(np.mean(((f(y) - f(yh)) / (f(y) + eps)) ** 2))


def ref_rpd(y, yh, eps=1e-16):
    return np.mean(np.abs((f(y) - f(yh)) / (np.maximum(f(y), f(yh)) + eps)))


def ref_res(y, yh):
    return np.sum((f(y) - f(yh)) ** 2)


def ref_smape(y, yh, eps=1e-16):
    return np.mean(2.0 * np.abs(f(yh) - f(y)) / (np.abs(f(y)) + np.abs(f(yh)) + eps))


# ---- generators ---------------------------------------------------------
def gen_pair(rng, t):
    kind = t % 8
    n = int(rng.integers(1, 80)) if t % 17 else int(rng.integers(1000, 5000))
    if kind == 0:
        y = rng.uniform(0, 100, n); yh = rng.uniform(0, 100, n)
    elif kind == 1:                      # integer counts with zeros / ties
        y = rng.integers(0, 6, n); yh = rng.integers(0, 6, n)
    elif kind == 2:                      # mixed dtypes
        y = rng.integers(0, 1000, n); yh = y + rng.normal(0, 3, n); yh = np.abs(yh)
    elif kind == 3:                      # plateau in y (tss == 0)
        y = np.full(n, float(rng.integers(0, 9))); yh = y + rng.uniform(0, 1, n)
    elif kind == 4:                      # both zero at some indices
        y = rng.uniform(0, 5, n); yh = rng.uniform(0, 5, n)
        z = rng.random(n) < 0.3
        y[z] = 0.0; yh[z & (rng.random(n) < 0.5)] = 0.0
    elif kind == 5:                      # small scale
        s = 2.0 ** int(rng.integers(-30, -5))
        y = rng.uniform(0, 1, n) * s; yh = rng.uniform(0, 1, n) * s
    elif kind == 6:                      # large offset, small spread
        off = float(rng.integers(10**3, 10**7))
        y = off + rng.uniform(0, 1, n); yh = off + rng.uniform(0, 1, n)
    else:                                # nearly identical
        y = rng.uniform(0, 50, n); yh = y.copy()
        k = int(rng.integers(0, n)); yh[k] += rng.uniform(0, 2)
    if n > 4096:                         # make sure tails count
        yh = np.asarray(yh, dtype=float).copy(); yh[-1] += 7.0
    return y, yh


def gen_curve(rng, t):
    n = int(rng.integers(2, 60)) if t % 13 else int(rng.integers(500, 3000))
    if t % 3 == 0:
        x = np.cumsum(rng.integers(1, 5, n))           # integer, strictly increasing
    else:
        x = np.cumsum(rng.uniform(0.01, 3.0, n)) + rng.uniform(-50, 1e4)
    shape = t % 5
    if shape == 0:
        y = rng.uniform(0, 100, n)
    elif shape == 1:
        y = np.sort(rng.uniform(0, 100, n))[::-1].copy()
    elif shape == 2:
        y = rng.integers(0, 20, n)
    elif shape == 3:
        y = np.maximum(0.0, 50 - np.arange(n, dtype=float))  # runs of zeros at the end
    else:
        y = 3.0 + 0.5 * f(x - x[0]) + rng.normal(0, 0.01, n) + 1.0
        y = np.abs(y)
    return x, y


# ---- the checks ---------------------------------------------------------
def check_metrics(rng):
    for t in range(400):
        y, yh = gen_pair(rng, t)
        n = len(y)
        ctx = dict(t=t, n=n)

        for variant in (R2.classic, R2.adjusted):
            if variant is R2.adjusted and n < 3:
                continue
            want, scale = ref_r2(y, yh, variant)
            got = metrics.r2(y, yh, variant)
            # tss of near-constant data is itself ill-conditioned: widen by conditioning
            yy = f(y)
            cond = 1.0
            tss = np.sum((yy - yy.mean()) ** 2)
            if tss > 0:
                cond = max(1.0, np.sum(yy ** 2) / tss)
            check(close(got, want, rtol=1e-12 * cond + 1e-9, scale=scale), 'r2 %s formula' % variant, got=got, want=want, **ctx)
            if variant is R2.classic:
                check(got <= 1.0, 'r2 <= 1', got=got, **ctx)
            same = metrics.r2(y, np.array(y, copy=True), variant)
            check(same == 1.0, 'r2(y,y) == 1 (%s)' % variant, got=same, **ctx)

        got = metrics.rmse(y, yh)
        check(close(got, ref_rmse(y, yh)), 'rmse formula', got=got, want=ref_rmse(y, yh), **ctx)
        check(close(got, metrics.rmse(yh, y), rtol=1e-13), 'rmse symmetric', **ctx)
        check(got >= 0 and metrics.rmse(y, np.array(y, copy=True)) == 0, 'rmse >=0 / vanishes', **ctx)

        got = metrics.residuals(y, yh)
        check(close(got, ref_res(y, yh)), 'residuals formula', got=got, want=ref_res(y, yh), **ctx)
        check(close(got, metrics.residuals(yh, y), rtol=1e-13), 'residuals symmetric', **ctx)
        check(got >= 0 and metrics.residuals(y, np.array(y, copy=True)) == 0, 'residuals >=0 / vanishes', **ctx)

        got = metrics.rmsle(y, yh)
        # difference of logs: absolute rounding error ~ ulp(log(y+1))
        la = 1e-14 * (1.0 + float(np.max(np.log(f(y) + 1))))
        check(close(got, ref_rmsle(y, yh), atol=la), 'rmsle formula', got=got, want=ref_rmsle(y, yh), **ctx)
        check(got >= 0 and metrics.rmsle(y, np.array(y, copy=True)) == 0, 'rmsle >=0 / vanishes', **ctx)

        for eps in (None, 1e-16, 1e-6, 0.01, 1.0):
            kw = () if eps is None else (eps,)
            e = 1e-16 if eps is None else eps
            got = metrics.rmspe(y, yh, *kw)
            check(close(got, ref_rmspe(y, yh, e)), 'rmspe formula eps=%r' % eps, got=got, want=ref_rmspe(y, yh, e), **ctx)
            check(got >= 0 and metrics.rmspe(y, np.array(y, copy=True), *kw) == 0, 'rmspe >=0 / vanishes', **ctx)

            got = metrics.rpd(y, yh, *kw)
            check(close(got, ref_rpd(y, yh, e)), 'rpd formula eps=%r' % eps, got=got, want=ref_rpd(y, yh, e), **ctx)
            check(got >= 0 and metrics.rpd(y, np.array(y, copy=True), *kw) == 0, 'rpd >=0 / vanishes', **ctx)

            got = metrics.smape(y, yh, *kw)
            check(close(got, ref_smape(y, yh, e)), 'smape formula eps=%r' % eps, got=got, want=ref_smape(y, yh, e), **ctx)
            check(close(got, metrics.smape(yh, y, *kw), rtol=1e-13), 'smape symmetric', **ctx)
            check(0 <= got <= 2.0, 'smape in [0,2]', got=got, **ctx)
            check(metrics.smape(y, np.array(y, copy=True), *kw) == 0, 'smape vanishes', **ctx)


def check_linear(rng):
    for t in range(300):
        x, y = gen_curve(rng, t)
        n = len(x)
        pts = np.column_stack((f(x), f(y)))
        ctx = dict(t=t, n=n)
        x0, y0 = x.copy(), y.copy()

        # endpoint fit passes through first and last point
        b, m = lf.linear_fit(x, y)
        span = float(np.max(np.abs(f(y)))) + abs(m) * float(np.max(np.abs(f(x)))) + 1.0
        for i in (0, -1):
            check(abs(m * float(x[i]) + b - float(y[i])) <= 1e-12 * span, 'endpoint fit through point %d' % i,
                  got=m * float(x[i]) + b, want=float(y[i]), **ctx)
        bp, mp = lf.linear_fit_points(pts)
        check(close(bp, b, scale=span) and close(mp, m), 'linear_fit_points == linear_fit', **ctx)

        # wrappers with an arbitrary line and with the endpoint line
        lines = [(b, m), (float(rng.uniform(0, 50)), float(rng.uniform(0, 2)))]
        for coef in lines:
            bb, mm = coef
            yh = mm * f(x) + bb
            check(np.allclose(lf.linear_transform(x, coef), yh, rtol=1e-13, atol=1e-13 * span), 'linear_transform', **ctx)
            pairs = [
                ('rmse', lf.rmse(x, y, coef), lf.rmse_points(pts, coef), metrics.rmse(f(y), yh)),
                ('residuals', lf.linear_residuals(x, y, coef), lf.linear_residuals_points(pts, coef), metrics.residuals(f(y), yh)),
                ('rmspe', lf.rmspe(x, y, coef), lf.rmspe_points(pts, coef), metrics.rmspe(f(y), yh)),
            ]
            if np.all(yh >= 0):
                pairs.append(('rmsle', lf.rmsle(x, y, coef), lf.rmsle_points(pts, coef), metrics.rmsle(f(y), yh)))
                for eps in (1e-16, 1e-3):
                    pairs.append(('rpd eps=%g' % eps, lf.rpd(x, y, coef, eps), lf.rpd_points(pts, coef, eps), metrics.rpd(f(y), yh, eps)))
                    pairs.append(('smape eps=%g' % eps, lf.smape(x, y, coef, eps), lf.smape_points(pts, coef, eps), metrics.smape(f(y), yh, eps)))
            for name, w1, w2, want in pairs:
                check(close(w1, want, rtol=1e-8, atol=1e-10) and close(w2, want, rtol=1e-8, atol=1e-10),
                      'wrapper lf.%s == metric(m*x+b)' % name, got=(w1, w2), want=want, **ctx)
            for variant in (R2.classic, R2.adjusted):
                if variant is R2.adjusted and n < 3:
                    continue
                want, scale = ref_r2(y, yh, variant)
                viam = metrics.r2(f(y), yh, variant)
                w1 = lf.linear_r2(x, y, coef, variant)
                w2 = lf.linear_r2_points(pts, coef, variant)
                yy = f(y); tss = np.sum((yy - yy.mean()) ** 2)
                cond = max(1.0, np.sum(yy ** 2) / tss) if tss > 0 else 1.0
                rt = 1e-12 * cond + 1e-9
                check(close(w1, want, rtol=rt, scale=scale) and close(w2, want, rtol=rt, scale=scale)
                      and close(w1, viam, rtol=rt, scale=scale),
                      'wrapper lf.linear_r2 %s' % variant, got=(w1, w2), want=want, **ctx)

        yh = m * f(x) + b
        want = ref_res(y, yh)
        check(close(lf.linear_fit_residuals(x, y), want, rtol=1e-8, atol=1e-18 * span * span * n + 1e-20),
              'linear_fit_residuals', got=lf.linear_fit_residuals(x, y), want=want, **ctx)
        check(close(lf.linear_fit_residuals_points(pts), want, rtol=1e-8, atol=1e-18 * span * span * n + 1e-20),
              'linear_fit_residuals_points', **ctx)

        # best fit R2 == squared Pearson correlation
        if n >= 3 and np.ptp(f(y)) > 0:
            r = np.corrcoef(f(x), f(y))[0, 1]
            for variant in (R2.classic, R2.adjusted):
                want = r * r
                if variant is R2.adjusted:
                    want = 1.0 - (1.0 - want) * ((n - 1) / (n - 2))
                got = lf.r2(x, y, variant)
                got2 = lf.r2_points(pts, variant)
                check(close(got, want, rtol=1e-9, atol=1e-9) and close(got2, want, rtol=1e-9, atol=1e-9),
                      'best-fit r2 == pearson^2 (%s)' % variant, got=(got, got2), want=want, **ctx)

        check(np.array_equal(x, x0) and np.array_equal(y, y0), 'inputs left untouched', **ctx)


def main():
    rng = np.random.default_rng(160016)
    check_metrics(rng)
    check_linear(rng)
    if FAIL:
        print('C16 violated: %d failing checks; first few:' % len(FAIL))
        seen = set()
        for what, ctx in FAIL:
            if what in seen:
                continue
            seen.add(what)
            print('  -', what, ctx)
            if len(seen) >= 12:
                break
        return 1
    print('ok: C16 holds on all generated inputs')
    return 0


if __name__ == '__main__':
    sys.exit(main())
