#!/usr/bin/env python
# Property test for C15 (global reconstruction cost matches its definition and
# is cache-transparent).  Takes no arguments, exits 0 when the property holds
# on all generated inputs, 1 when a violation was found.
#
# Checked, as stated:
#  (a) compute_global_cost == metric accumulated over the piecewise-linear
#      interpolation through the breakpoints (segments of <= 2 points
#      contribute 0, divisor = n + number of interior breakpoints, R2 clipped
#      at 0), is >= 0, and is exactly 0 (1 for R2) when every point is a
#      breakpoint;
#  (b) a sequence of breakpoint sets evaluated against ONE shared cache gives
#      bit-identical values to fresh-cache evaluations (global cost and
#      global RMSE);
#  (c) compute_global_rmse == RMSE against the linear interpolation;
#  (d) mip == median over the interior breakpoints of the RMSE increase caused
#      by deleting that breakpoint.
# Values are compared with tolerances of a few thousand ulps of the quantities
# involved (the statement constrains values, not the last bits); only (b) and
# the "all points are breakpoints" clause are exact.

import math
import signal
import struct
import sys
import warnings

import numpy as np

signal.alarm(58)
warnings.simplefilter('ignore')

import kneeliverse.evaluation as evaluation
import kneeliverse.metrics as metrics

METRICS = [metrics.Metrics.r2, metrics.Metrics.rmspe, metrics.Metrics.rmsle,
           metrics.Metrics.rpd, metrics.Metrics.smape]
EPS = 1e-16
rng = np.random.default_rng(20261003)
failures = []
counts = {'cost': 0, 'cost_interp': 0, 'cache': 0, 'rmse': 0, 'mip': 0, 'full': 0, 'skipped': 0}


def fail(msg):
    failures.append(msg)
    if len(failures) <= 10:
        print('VIOLATION:', msg)


# --------------------------------------------------------------------------
# generators
# --------------------------------------------------------------------------
def make_curve(kind, n):
    """returns (points, tame): x strictly increasing; tame -> safe for np.interp oracle"""
    x = np.cumsum(rng.uniform(0.2, 2.0, n))
    tame = False
    if kind == 'convex':            # classic performance curve
        y = 5.0 / (0.3 + x) + 0.5 + 0.02 * rng.standard_normal(n)
        y = np.maximum(y, 0.3)
        tame = True
    elif kind == 'noisy':
        y = rng.uniform(1.0, 10.0, n)
        tame = True
    elif kind == 'plateau':          # steps / plateaus / ties
        y = np.repeat(rng.integers(0, 6, n), rng.integers(1, 6, n))[:n].astype(float)
    elif kind == 'collinear':        # exactly collinear runs on an integer grid
        x = np.arange(n, dtype=float)
        knots = np.sort(rng.choice(np.arange(n), size=min(n, rng.integers(1, 5)), replace=False))
        slope = np.zeros(n)
        for kpos in knots:
            slope[kpos:] = rng.integers(-3, 4)
        y = 50.0 + np.cumsum(slope)
    elif kind == 'zeros':            # zeros inside the curve
        y = rng.uniform(0.0, 4.0, n)
        y[rng.random(n) < 0.3] = 0.0
    elif kind == 'offset':           # large mean, small spread
        y = 1e7 + rng.uniform(0.0, 1.0, n)
    elif kind == 'allzero':
        y = np.zeros(n)
    elif kind == 'constant':
        y = np.full(n, float(rng.integers(1, 9)))
    elif kind == 'int':              # integer dtype
        x = np.cumsum(rng.integers(1, 5, n))
        y = rng.integers(0, 50, n)
        return np.column_stack((x, y)).astype(np.int64), False
    elif kind == 'intdec':           # integer dtype, decreasing with ties
        x = np.arange(n) * 3 + 1
        y = np.sort(rng.integers(0, 30, n))[::-1]
        return np.column_stack((x, y)).astype(np.int64), False
    elif kind in ('tiny', 'huge', 'tinyx', 'hugex', 'small', 'large'):
        y = 5.0 / (0.3 + x) + rng.uniform(0.5, 1.0, n)
        sy = {'tiny': 1e-150, 'huge': 1e150, 'small': 1e-9, 'large': 1e9}.get(kind, 1.0)
        sx = {'tinyx': 1e-150, 'hugex': 1e150}.get(kind, 1.0)
        y = y * sy
        x = x * sx
        tame = kind in ('small', 'large', 'tinyx', 'hugex')
    else:
        raise ValueError(kind)
    return np.column_stack((x, y)), tame


KINDS = ['convex', 'noisy', 'plateau', 'collinear', 'zeros', 'allzero', 'constant', 'int',
         'intdec', 'tiny', 'huge', 'tinyx', 'hugex', 'small', 'large', 'offset']


def random_subset(n, mode=None):
    if mode is None:
        mode = rng.choice(['ends', 'few', 'half', 'dense', 'runs'])
    if n <= 2 or mode == 'ends':
        inner = np.array([], dtype=int)
    elif mode == 'few':
        inner = rng.choice(np.arange(1, n - 1), size=min(n - 2, rng.integers(1, 4)), replace=False)
    elif mode == 'half':
        inner = np.flatnonzero(rng.random(n - 2) < 0.5) + 1
    elif mode == 'dense':
        inner = np.flatnonzero(rng.random(n - 2) < 0.9) + 1
    else:                            # runs of adjacent breakpoints
        start = rng.integers(1, n - 1)
        inner = np.arange(start, min(n - 1, start + rng.integers(1, 6)))
    return np.unique(np.concatenate(([0], inner, [n - 1]))).astype(int)


# --------------------------------------------------------------------------
# oracles (straight from the statement)
# --------------------------------------------------------------------------
def chord(xs, ys):
    """straight line through the first and the last point, evaluated at xs"""
    xs = xs.astype(float)
    ys = ys.astype(float)
    dx = xs[0] - xs[-1]
    m = (ys[0] - ys[-1]) / dx
    b = ys[0] - m * xs[0]
    return xs * m + b


def terms(y, y_hat, metric):
    if metric is metrics.Metrics.r2:
        return (y - y_hat) ** 2
    if metric is metrics.Metrics.rmsle:
        return (np.log(y + 1) - np.log(y_hat + 1)) ** 2
    if metric is metrics.Metrics.rmspe:
        return ((y - y_hat) / (y + EPS)) ** 2
    if metric is metrics.Metrics.rpd:
        return np.abs((y - y_hat) / (np.maximum(y, y_hat) + EPS))
    return 2.0 * np.abs(y_hat - y) / (np.abs(y) + np.abs(y_hat) + EPS)


def finish(total_error, points, k, metric):
    n = len(points)
    divisor = n + (k - 2)            # every interior breakpoint once per adjoining segment
    if metric is metrics.Metrics.r2:
        y = points[:, 1].astype(float)
        tss = math.fsum((y - math.fsum(y) / n) ** 2)
        v = 1.0 - total_error if tss == 0 else 1.0 - total_error / tss
        return max(v, 0.0)
    if metric in (metrics.Metrics.rmsle, metrics.Metrics.rmspe):
        return math.sqrt(total_error / divisor)
    return total_error / divisor


def oracle_cost(points, reduced, metric, use_interp=False):
    x = points[:, 0].astype(float)
    y = points[:, 1].astype(float)
    acc = []
    if use_interp:
        y_hat_all = np.interp(x, x[reduced], y[reduced])
    for l, r in zip(reduced[:-1], reduced[1:]):
        if r - l + 1 <= 2:
            continue
        y_hat = y_hat_all[l:r + 1] if use_interp else chord(x[l:r + 1], y[l:r + 1])
        acc.extend(terms(y[l:r + 1], y_hat, metric).tolist())
    return finish(math.fsum(acc) if acc else 0.0, points, len(reduced), metric)


def oracle_rmse(points, reduced, use_interp=False):
    x = points[:, 0].astype(float)
    y = points[:, 1].astype(float)
    if use_interp:
        y_hat = np.interp(x, x[reduced], y[reduced])
    else:
        y_hat = y.copy()             # residual is 0 at the breakpoints
        for l, r in zip(reduced[:-1], reduced[1:]):
            if r - l >= 2:
                y_hat[l + 1:r] = chord(x[l:r + 1], y[l:r + 1])[1:-1]
    return math.sqrt(math.fsum((y - y_hat) ** 2) / len(points))


def bits(v):
    return struct.pack('<d', float(v))


def close(a, b, rtol, atol):
    if not (math.isfinite(a) and math.isfinite(b)):
        return None
    return abs(a - b) <= atol + rtol * max(abs(a), abs(b))


# --------------------------------------------------------------------------
# checks
# --------------------------------------------------------------------------
def check_cost(points, reduced, tame, tag):
    for metric in METRICS:
        got = evaluation.compute_global_cost(points, reduced, metric)
        want = oracle_cost(points, reduced, metric)
        ok = close(float(got), want, 1e-11, 1e-13)
        if ok is None:
            counts['skipped'] += 1
            continue
        counts['cost'] += 1
        if not ok:
            fail(f'{tag} {metric}: global cost {got!r} != definition {want!r} (reduced={reduced.tolist()})')
        if not got >= 0:
            fail(f'{tag} {metric}: global cost {got!r} is negative')
        if tame:
            want2 = oracle_cost(points, reduced, metric, use_interp=True)
            ok2 = close(float(got), want2, 1e-7, 1e-9)
            if ok2 is not None:
                counts['cost_interp'] += 1
                if not ok2:
                    fail(f'{tag} {metric}: global cost {got!r} != np.interp based definition {want2!r}')


def check_full(points, tag):
    full = np.arange(len(points))
    for metric in METRICS:
        got = evaluation.compute_global_cost(points, full, metric)
        want = 1.0 if metric is metrics.Metrics.r2 else 0.0
        counts['full'] += 1
        if not (got == want):
            fail(f'{tag} {metric}: every point a breakpoint gives {got!r}, expected {want}')


def check_cache(points, tag):
    n = len(points)
    # a sequence that grows one breakpoint at a time (as rdp does), random sets, repeats and shrinking sets
    seq = []
    cur = [0, n - 1]
    pool = list(rng.permutation(np.arange(1, n - 1))) if n > 2 else []
    seq.append(np.array(cur))
    for p in pool[:5]:
        cur = sorted(cur + [int(p)])
        seq.append(np.array(cur))
    seq += [random_subset(n) for _ in range(4)]
    seq.append(seq[0])
    seq.append(np.arange(n))
    seq.append(seq[2 % len(seq)])
    if n > 140:
        seq += [np.array([0, 1, 112, n - 1]), np.array([0, 11, 12, n - 1]),
                np.array([0, 2, 134, n - 1]), np.array([0, 21, 34, n - 1])]
    as_list = rng.random() < 0.3
    for metric in METRICS:
        cache = {}
        # the caller may reuse (overwrite in place) its own index array between two queries
        buf = seq[1].copy()
        first = evaluation.compute_global_cost(points, buf, metric, cache)
        if len(seq[1]) == 3 and n > 3:
            buf[1] = 1 + (buf[1] % (n - 2))
            second = evaluation.compute_global_cost(points, buf, metric, cache)
            counts['cache'] += 1
            if bits(second) != bits(evaluation.compute_global_cost(points, buf.copy(), metric, {})):
                fail(f'{tag} {metric}: stale value after the index array was modified in place')
        for j, red in enumerate(seq):
            arg = red.tolist() if as_list else red
            shared = evaluation.compute_global_cost(points, arg, metric, cache)
            fresh = evaluation.compute_global_cost(points, arg, metric, {})
            fresh2 = evaluation.compute_global_cost(points, arg, metric)
            counts['cache'] += 1
            if not (bits(shared) == bits(fresh) == bits(fresh2)):
                fail(f'{tag} {metric}: query {j} shared cache {shared!r} != fresh {fresh!r} / {fresh2!r}')
    cache = {}
    for j, red in enumerate(seq):
        shared = evaluation.compute_global_rmse(points, red, cache)
        fresh = evaluation.compute_global_rmse(points, red, {})
        fresh2 = evaluation.compute_global_rmse(points, red)
        counts['cache'] += 1
        if not (bits(shared) == bits(fresh) == bits(fresh2)):
            fail(f'{tag} rmse: query {j} shared cache {shared!r} != fresh {fresh!r} / {fresh2!r}')


def check_rmse_mip(points, reduced, tame, tag):
    scale = float(np.max(np.abs(points[:, 1].astype(float))))
    atol = 1e-12 * scale
    got = evaluation.compute_global_rmse(points, reduced)
    want = oracle_rmse(points, reduced)
    ok = close(float(got), want, 1e-11, atol)
    if ok is None:
        counts['skipped'] += 1
        return
    counts['rmse'] += 1
    if not ok:
        fail(f'{tag}: global rmse {got!r} != rmse against interpolation {want!r}')
    if tame:
        want2 = oracle_rmse(points, reduced, use_interp=True)
        if not close(float(got), want2, 1e-7, atol):
            fail(f'{tag}: global rmse {got!r} != rmse against np.interp {want2!r}')
    if len(reduced) >= 3:
        base = oracle_rmse(points, reduced)
        inc = [oracle_rmse(points, np.delete(reduced, i)) - base for i in range(1, len(reduced) - 1)]
        want_mip = float(np.median(inc))
        want_mad = float(np.median(np.abs(np.array(inc) - want_mip)))
        level = max([base] + [abs(v) + base for v in inc])
        got_mip, got_mad = evaluation.mip(points, reduced)
        tol = 1e-11 * level + atol
        counts['mip'] += 1
        if not (abs(float(got_mip) - want_mip) <= tol):
            fail(f'{tag}: mip {got_mip!r} != median rmse increase {want_mip!r} (tol {tol:g})')
        if not (abs(float(got_mad) - want_mad) <= 2 * tol):
            fail(f'{tag}: mip MAD {got_mad!r} != {want_mad!r} (tol {tol:g})')


def main():
    # the 5-point curve of the unit tests and the smallest curves
    fixed = [np.array([[0, 2], [1, 1], [2, 0], [3, 1], [4, 2]]),
             np.array([[0.0, 1.0], [1.0, 0.5]]),
             np.array([[0.0, 3.0], [1.0, 1.0], [2.5, 0.5]]),
             np.array([[0, 0], [1, 1], [2, 2], [3, 2], [4, 3], [5, 4]])]
    curves = [(p, False, f'fixed{i}') for i, p in enumerate(fixed)]
    for i in range(330):
        kind = KINDS[i % len(KINDS)]
        n = int(rng.choice([2, 3, 4, 5, 8, 12, 20, 35, 60, 110, 200]))
        if i % 47 == 0:
            n = 400
        pts, tame = make_curve(kind, n)
        curves.append((pts, tame, f'{kind}#{i}(n={n})'))

    for idx, (pts, tame, tag) in enumerate(curves):
        n = len(pts)
        subsets = [random_subset(n, 'ends'), random_subset(n, 'few'), random_subset(n, 'half'),
                   random_subset(n, 'dense'), random_subset(n, 'runs')]
        for red in subsets:
            check_cost(pts, red, tame, tag)
            check_rmse_mip(pts, red, tame, tag)
        check_full(pts, tag)
        if idx % 2 == 0:
            check_cache(pts, tag)

    print('checks:', counts)
    if failures:
        print(f'{len(failures)} violation(s) of C15')
        return 1
    print('C15 holds on all generated inputs')
    return 0


if __name__ == '__main__':
    sys.exit(main())
