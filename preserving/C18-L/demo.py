#!/usr/bin/env python
"""C18 property test (exact reference, a few hundred generated inputs).

Lower / upper hull routines, for x-sorted curves with n >= 2 points:
  * strictly increasing index chain from 0 to n-1,
  * every point on or above (below) the chain,
  * consecutive edges turn strictly counter-clockwise (clockwise),
  * the chain equals the brute-force chain.
graham_scan, for >= 3 distinct planar points (general position and degenerate):
  * completes, result holds valid indices, contains every extreme vertex and
    only boundary points; with no three collinear points it is exactly the
    vertex list in clockwise order from the left-most (lowest on ties) point.
All reference computations use exact rational arithmetic.
Exit status 0 = property holds everywhere, 1 = violation found.
"""
import signal
import sys
import itertools
import random
from fractions import Fraction

signal.alarm(55)  # hard guard against hangs

import numpy as np
import kneeliverse.convex_hull as ch


def F(v):
    return Fraction(float(v)) if isinstance(v, (float, np.floating)) else Fraction(int(v))


def orient(a, b, c):
    return (b[0] - a[0]) * (c[1] - a[1]) - (c[0] - a[0]) * (b[1] - a[1])


# ---------------------------------------------------------------- curves

def brute_chain(pts, sign):
    """vertex k is on the lower (sign=+1) / upper (sign=-1) chain iff it is an end point
    or lies strictly below / above every chord (i, j) with i < k < j"""
    n = len(pts)
    chain = [0]
    for k in range(1, n - 1):
        if all(sign * orient(pts[i], pts[k], pts[j]) > 0
               for i in range(k) for j in range(k + 1, n)):
            chain.append(k)
    chain.append(n - 1)
    return chain


def exact_chain(pts, sign):
    st = [0, 1]
    for i in range(2, len(pts)):
        while len(st) > 1 and sign * orient(pts[st[-2]], pts[st[-1]], pts[i]) <= 0:
            st.pop()
        st.append(i)
    return st


def check_curve(points, label, dtype=None):
    pts = [(F(x), F(y)) for x, y in points]
    n = len(pts)
    arr = np.array(points) if dtype is None else np.array(points, dtype=dtype)
    for name, fn, sign in (('lower', ch.graham_scan_lower, 1), ('upper', ch.graham_scan_upper, -1)):
        try:
            res = fn(arr)
        except Exception as e:  # noqa
            return '%s/%s raised %r for %s' % (label, name, e, points)
        res = [int(i) for i in np.asarray(res).ravel().tolist()]
        where = '%s/%s: %s -> %s' % (label, name, points if n <= 12 else '<%d points>' % n, res)
        if len(res) < 2 or res[0] != 0 or res[-1] != n - 1:
            return 'chain does not run from 0 to n-1: ' + where
        if any(b <= a for a, b in zip(res, res[1:])):
            return 'chain not strictly increasing: ' + where
        for a, b in zip(res, res[1:]):
            for k in range(a + 1, b):
                if sign * orient(pts[a], pts[b], pts[k]) < 0:
                    return 'point %d on the wrong side of the chain: %s' % (k, where)
        for a, b, c in zip(res, res[1:], res[2:]):
            if sign * orient(pts[a], pts[b], pts[c]) <= 0:
                return 'edges at %d do not turn strictly: %s' % (b, where)
        ref = brute_chain(pts, sign) if n <= 40 else exact_chain(pts, sign)
        if res != ref:
            return 'differs from brute-force chain %s: %s' % (ref, where)
    return None


def curve_cases(rnd):
    yield 'two', [(0, 3), (1, 1)], None
    yield 'two-float', [(0.5, 3.25), (1.75, 1.0)], None
    for trip in ([(0, 0), (1, 1), (2, 2)], [(0, 0), (1, 5), (2, 2)], [(0, 0), (1, -5), (2, 2)],
                 [(0, 4), (1, 4), (3, 4)]):
        yield 'three', trip, None
    yield 'line', [(i, 2 * i + 1) for i in range(9)], None
    yield 'plateaus', [(0, 9), (1, 5), (2, 5), (3, 5), (4, 2), (5, 2), (6, 2), (7, 2), (9, 0), (10, 0)], None
    yield 'zigzag', [(i, (i % 2) * 3) for i in range(11)], None
    yield 'knee', [(i, 100.0 / (i + 1)) for i in range(30)], None
    yield 'big-int', [(1700000000000 + i, 125000 * i + (i * i) // 7) for i in range(25)], None
    for k in range(120):
        n = rnd.randint(2, 14)
        xs = sorted(rnd.sample(range(0, 30), n))
        yield 'int-%d' % k, [(x, rnd.randint(0, 6)) for x in xs], None
    for k in range(40):
        n = rnd.randint(2, 30)
        xs = sorted(set(rnd.uniform(0, 100) for _ in range(n)))
        if len(xs) < 2:
            continue
        yield 'float-%d' % k, [(x, rnd.uniform(0, 10)) for x in xs], None
    for k in range(15):  # dyadic grid, many exact collinear runs
        n = rnd.randint(5, 40)
        x, pts = 0.0, []
        for _ in range(n):
            x += rnd.choice((0.25, 0.5, 1.0, 2.0))
            pts.append((x, rnd.choice((0.0, 0.5, 1.0, 1.5, 2.0))))
        yield 'dyadic-%d' % k, pts, None
    for k in range(8):
        xs = sorted(rnd.sample(range(0, 40), 12))
        yield 'int32-%d' % k, [(x, rnd.randint(0, 9)) for x in xs], np.int32
    for k in range(3):  # larger curves
        n = 1500
        y, pts = 500.0, []
        for i in range(n):
            y = max(0.0, y + rnd.choice((-2.0, -1.0, -1.0, 0.0, 0.0, 1.0)))
            pts.append((float(i), y))
        yield 'walk-%d' % k, pts, None


# ---------------------------------------------------------------- point sets

def reference_hull(pts):
    n = len(pts)
    idx = sorted(range(n), key=lambda i: pts[i])
    lower, upper = [], []
    for i in idx:
        while len(lower) > 1 and orient(pts[lower[-2]], pts[lower[-1]], pts[i]) <= 0:
            lower.pop()
        lower.append(i)
        while len(upper) > 1 and orient(pts[upper[-2]], pts[upper[-1]], pts[i]) >= 0:
            upper.pop()
        upper.append(i)
    vertices = upper + lower[-2:0:-1]  # clockwise from the lexicographic minimum
    boundary = set()
    m = len(vertices)
    for k in range(m):
        a, b = pts[vertices[k]], pts[vertices[(k + 1) % m]]
        for i in range(n):
            p = pts[i]
            if orient(a, b, p) == 0 and min(a[0], b[0]) <= p[0] <= max(a[0], b[0]) \
               and min(a[1], b[1]) <= p[1] <= max(a[1], b[1]):
                boundary.add(i)
    return vertices, boundary


def brute_vertices(pts):
    """p is an extreme vertex iff it is on no segment between two other points and
    strictly inside / on the border of no triangle of three other points"""
    n = len(pts)
    out = set()
    for k in range(n):
        p = pts[k]
        others = [pts[i] for i in range(n) if i != k]
        inside = False
        for a, b in itertools.combinations(others, 2):
            if orient(a, b, p) == 0 and min(a[0], b[0]) <= p[0] <= max(a[0], b[0]) \
               and min(a[1], b[1]) <= p[1] <= max(a[1], b[1]):
                inside = True
                break
        if not inside:
            for a, b, c in itertools.combinations(others, 3):
                d1, d2, d3 = orient(a, b, p), orient(b, c, p), orient(c, a, p)
                if orient(a, b, c) != 0 and ((d1 >= 0 and d2 >= 0 and d3 >= 0) or (d1 <= 0 and d2 <= 0 and d3 <= 0)):
                    inside = True
                    break
        if not inside:
            out.add(k)
    return out


def check_set(points, label):
    pts = [(F(x), F(y)) for x, y in points]
    try:
        res = ch.graham_scan(np.array(points))
    except Exception as e:  # noqa
        return '%s: graham_scan raised %r for %s' % (label, e, points)
    res = [int(i) for i in np.asarray(res).ravel().tolist()]
    if any(i < 0 or i >= len(pts) for i in res):
        return '%s: indices out of range %s' % (label, res)
    vertices, boundary = reference_hull(pts)
    if len(pts) <= 9 and set(vertices) != brute_vertices(pts):
        return '%s: internal error, references disagree for %s' % (label, points)
    missing = [i for i in vertices if i not in res]
    if missing:
        return '%s: extreme vertices %s missing from %s for %s' % (label, missing, res, points)
    extra = [i for i in res if i not in boundary]
    if extra:
        return '%s: non-boundary points %s in %s for %s' % (label, extra, res, points)
    general = not any(orient(a, b, c) == 0 for a, b, c in itertools.combinations(pts, 3)) \
        if len(pts) <= 40 else False
    if general and res != vertices:
        return '%s: expected clockwise vertex list %s, got %s for %s' % (label, vertices, res, points)
    return None


def set_cases(rnd):
    for n in (3, 4, 5, 8):
        for dx, dy in ((1, 0), (0, 1), (1, 1), (2, -1), (3, 5)):
            ts = rnd.sample(range(-6, 12), n)
            yield 'collinear n=%d dir=(%d,%d)' % (n, dx, dy), [(2 + t * dx, 1 + t * dy) for t in ts]
    yield 'collinear float', [(0.0, 0.0), (0.5, 0.25), (2.0, 1.0), (1.0, 0.5)]
    yield 'runs', [(0, 0), (0, 1), (0, 2), (0, 3), (1, 0), (2, 0), (3, 0), (1, 1), (2, 2), (3, 3), (2, 1)]
    yield 'first-ray pair', [(0, 0), (0, 1), (0, 2), (3, 1), (2, -4)]
    yield 'last-ray run', [(0, 0), (1, -1), (2, -2), (3, -3), (3, 4), (1, 1)]
    yield 'left wall', [(0, 2), (0, 0), (0, 3), (0, 1), (2, 1), (1, 1)]
    yield 'unit test', [(1, 5), (1, 4), (2, 3), (2, 2), (2, 4), (3, 4), (4, 3), (3, 3), (5, 1)]
    g = [(x, y) for x in range(4) for y in range(4)]
    for k in range(4):
        rnd.shuffle(g)
        yield 'grid-%d' % k, list(g)
    for k in range(200):
        n = rnd.randint(3, 9)
        s = set()
        while len(s) < n:
            s.add((rnd.randint(0, 5), rnd.randint(0, 5)))
        s = list(s)
        rnd.shuffle(s)
        yield 'int-%d' % k, s
    for k in range(60):
        n = rnd.randint(3, 30)
        yield 'float-%d' % k, [(rnd.uniform(-10, 10), rnd.uniform(-10, 10)) for _ in range(n)]
    for k in range(20):  # dyadic lattice with an offset, many collinear triples
        n = rnd.randint(3, 14)
        s = set()
        while len(s) < n:
            s.add((1000.0 + rnd.randint(0, 8) * 0.25, -3.0 + rnd.randint(0, 8) * 0.5))
        s = list(s)
        rnd.shuffle(s)
        yield 'dyadic-%d' % k, s
    for k in range(10):  # points on a circle-ish convex curve: every point is a vertex
        n = rnd.randint(5, 30)
        s = [(i, i * i) for i in rnd.sample(range(-40, 40), n)]
        yield 'parabola-%d' % k, s


def main():
    rnd = random.Random(180612)
    failures, count = [], 0
    for label, points, dtype in curve_cases(rnd):
        count += 1
        msg = check_curve(points, label, dtype)
        if msg:
            failures.append(msg)
    for label, points in set_cases(rnd):
        count += 1
        msg = check_set(points, label)
        if msg:
            failures.append(msg)
    if failures:
        print('C18 VIOLATED in %d of %d inputs; first cases:' % (len(failures), count))
        for m in failures[:5]:
            print('  ' + m)
        return 1
    print('C18 holds on %d generated inputs (curves and point sets)' % count)
    return 0


if __name__ == '__main__':
    sys.exit(main())
