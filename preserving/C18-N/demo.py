#!/usr/bin/env python
# coding: utf-8
"""
Property test for C18: the convex-hull routines return the true hull.

  * graham_scan_lower / graham_scan_upper on x-sorted curves (n >= 2):
    strictly increasing index chain 0 .. n-1, every point on or above (below)
    the chain, consecutive edges turn strictly counter-clockwise (clockwise),
    and the chain equals the brute-force hull chain.
  * graham_scan on >= 3 distinct planar points: completes, returns valid
    indices that contain every extreme vertex and only boundary points of the
    hull; when no three points are collinear the result is exactly the vertex
    set in clockwise order starting at the leftmost (lowest on a tie) point.

All the judgements are made in exact integer arithmetic on the very float /
integer values that were handed to the library (every finite float is a dyadic
rational, so a common power of two turns a whole input into Python ints).

No arguments.  Exit code 0: property holds on all generated inputs, 1: violated.
"""
import random
import signal
import sys
import time
from fractions import Fraction

import numpy as np

import kneeliverse.convex_hull as ch


def _alarm(signum, frame):
    print('FAIL: time limit reached (a hull routine did not complete in time)')
    sys.stdout.flush()
    sys.exit(1)


signal.signal(signal.SIGALRM, _alarm)
signal.alarm(55)
T0 = time.time()
BUDGET = 35.0

rng = random.Random(180718)
failures = []


# ----------------------------------------------------------------------------
# exact helpers
# ----------------------------------------------------------------------------
def exact_points(arr):
    """list of (X, Y) Python ints, a common positive multiple of the input values"""
    fr = [(Fraction(arr[i, 0].item()), Fraction(arr[i, 1].item())) for i in range(len(arr))]
    den = 1
    for a, b in fr:
        for v in (a, b):
            d = v.denominator
            if den % d:
                # all denominators are powers of two: the lcm is the larger one
                den = max(den, d)
    return [(int(a * den), int(b * den)) for a, b in fr]


def orient(a, b, c):
    """> 0 counter-clockwise, < 0 clockwise, 0 collinear (exact)"""
    return (b[0] - a[0]) * (c[1] - a[1]) - (c[0] - a[0]) * (b[1] - a[1])


def sign(v):
    return (v > 0) - (v < 0)


# ----------------------------------------------------------------------------
# lower / upper chains
# ----------------------------------------------------------------------------
def brute_chain(P, upper):
    """indices i that are 0, n-1, or strictly below (above) every chord a-b with a < i < b"""
    n = len(P)
    s = -1 if upper else 1
    out = [0]
    for i in range(1, n - 1):
        ok = True
        for a in range(0, i):
            for b in range(i + 1, n):
                # i must be strictly on the right (lower) / left (upper) of a->b
                if s * orient(P[a], P[b], P[i]) >= 0:
                    ok = False
                    break
            if not ok:
                break
        if ok:
            out.append(i)
    out.append(n - 1)
    return out


def check_chain(arr, upper, label):
    fn = ch.graham_scan_upper if upper else ch.graham_scan_lower
    name = 'upper' if upper else 'lower'
    try:
        res = fn(arr.copy())
    except Exception as e:  # noqa
        failures.append((label, name, 'exception %r' % (e,)))
        return
    n = len(arr)
    try:
        chain = [int(v) for v in res]
    except Exception as e:  # noqa
        failures.append((label, name, 'result is not a sequence of integers: %r' % (res,)))
        return
    P = exact_points(arr)
    s = -1 if upper else 1
    if len(chain) < 2 or chain[0] != 0 or chain[-1] != n - 1:
        failures.append((label, name, 'chain does not run from 0 to n-1: %r' % (chain,)))
        return
    if any(chain[k] >= chain[k + 1] for k in range(len(chain) - 1)):
        failures.append((label, name, 'chain not strictly increasing: %r' % (chain,)))
        return
    # every point on or above (below) the chain
    for k in range(len(chain) - 1):
        a, b = P[chain[k]], P[chain[k + 1]]
        for r in range(n):
            if s * orient(a, b, P[r]) < 0:
                failures.append((label, name, 'point %d on the wrong side of edge %d-%d' % (r, chain[k], chain[k + 1])))
                return
    # strict turns
    for k in range(len(chain) - 2):
        if s * orient(P[chain[k]], P[chain[k + 1]], P[chain[k + 2]]) <= 0:
            failures.append((label, name, 'turn at %d is not strict: %r' % (chain[k + 1], chain)))
            return
    want = brute_chain(P, upper)
    if chain != want:
        failures.append((label, name, 'chain %r differs from brute force %r' % (chain, want)))


# ----------------------------------------------------------------------------
# full hull
# ----------------------------------------------------------------------------
def hull_facts(P):
    """(boundary set, extreme vertex set, general position flag) by brute force"""
    n = len(P)
    collinear_triple = False
    boundary = set()
    for p in range(n):
        for q in range(n):
            if q == p:
                continue
            if all(orient(P[p], P[q], P[r]) >= 0 for r in range(n)):
                boundary.add(p)
                break
    between = set()
    for p in range(n):
        for a in range(n):
            if a == p:
                continue
            for b in range(a + 1, n):
                if b == p:
                    continue
                if orient(P[a], P[p], P[b]) == 0:
                    collinear_triple = True
                    dot = (P[a][0] - P[p][0]) * (P[b][0] - P[p][0]) + (P[a][1] - P[p][1]) * (P[b][1] - P[p][1])
                    if dot < 0:
                        between.add(p)
    extreme = boundary - between
    return boundary, extreme, not collinear_triple


def check_hull(arr, label):
    try:
        res = ch.graham_scan(arr.copy())
    except Exception as e:  # noqa
        failures.append((label, 'graham_scan', 'exception %r' % (e,)))
        return
    n = len(arr)
    try:
        hull = [int(v) for v in res]
        if any(float(v) != int(v) for v in res):
            raise ValueError
    except Exception:  # noqa
        failures.append((label, 'graham_scan', 'result is not a sequence of integers: %r' % (res,)))
        return
    if any(h < 0 or h >= n for h in hull):
        failures.append((label, 'graham_scan', 'index out of range: %r' % (hull,)))
        return
    P = exact_points(arr)
    boundary, extreme, general = hull_facts(P)
    missing = extreme - set(hull)
    if missing:
        failures.append((label, 'graham_scan', 'extreme vertices %r missing from %r' % (sorted(missing), hull)))
        return
    inner = set(hull) - boundary
    if inner:
        failures.append((label, 'graham_scan', 'interior points %r reported in %r' % (sorted(inner), hull)))
        return
    if general:
        # exactly the vertex set, clockwise, from the leftmost (lowest) point
        if len(hull) != len(set(hull)) or set(hull) != extreme:
            failures.append((label, 'graham_scan', 'general position: %r is not the vertex set %r' % (hull, sorted(extreme))))
            return
        start = min(range(n), key=lambda i: P[i])
        if hull[0] != start:
            failures.append((label, 'graham_scan', 'general position: starts at %d, not at %d' % (hull[0], start)))
            return
        m = len(hull)
        for k in range(m):
            a, b, c = P[hull[k]], P[hull[(k + 1) % m]], P[hull[(k + 2) % m]]
            if orient(a, b, c) >= 0:
                failures.append((label, 'graham_scan', 'general position: not clockwise at %d: %r' % (hull[(k + 1) % m], hull)))
                return
            if any(orient(a, b, P[r]) > 0 for r in range(n)):
                failures.append((label, 'graham_scan', 'general position: edge %d-%d is not a hull edge' % (hull[k], hull[(k + 1) % m])))
                return


# ----------------------------------------------------------------------------
# generators
# ----------------------------------------------------------------------------
POW2 = [0, 0, 0, 1, -1, 10, -10, 52, -52, 300, -300, 490, -490]


def scaled(base, dtype_choice):
    """base: list of (int, int).  returns an ndarray holding exactly base * 2**k (or the ints)"""
    if dtype_choice == 'int':
        return np.array(base, dtype=np.int64)
    k = rng.choice(POW2)
    a = np.array(base, dtype=np.float64)
    return np.ldexp(a, k)


def distinct(pts):
    seen = set()
    out = []
    for p in pts:
        if p not in seen:
            seen.add(p)
            out.append(p)
    return out


def gen_point_set():
    kind = rng.choice(['grid', 'grid', 'line', 'vline', 'hline', 'square', 'wall', 'fan',
                       'float', 'float', 'floatbig', 'floatsmall', 'circle', 'offset', 'two_lines'])
    n = rng.randint(3, 14)
    if kind == 'grid':
        w = rng.choice([2, 3, 4, 6, 10])
        pts = [(rng.randint(-w, w), rng.randint(-w, w)) for _ in range(n)]
    elif kind == 'line':
        dx, dy = rng.choice([(1, 1), (2, -1), (1, 3), (3, 2), (-1, 2)])
        ox, oy = rng.randint(-5, 5), rng.randint(-5, 5)
        pts = [(ox + t * dx, oy + t * dy) for t in rng.sample(range(-10, 11), n)]
    elif kind == 'vline':
        ox = rng.randint(-3, 3)
        pts = [(ox, t) for t in rng.sample(range(-10, 11), n)]
    elif kind == 'hline':
        oy = rng.randint(-3, 3)
        pts = [(t, oy) for t in rng.sample(range(-10, 11), n)]
    elif kind == 'square':
        s = rng.randint(2, 5)
        border = [(i, 0) for i in range(s + 1)] + [(i, s) for i in range(s + 1)] + \
                 [(0, j) for j in range(s + 1)] + [(s, j) for j in range(s + 1)]
        inner = [(rng.randint(1, s - 1), rng.randint(1, s - 1)) for _ in range(3)]
        pts = rng.sample(border, min(len(border), n)) + inner
    elif kind == 'wall':
        # several points on the vertical through the start point + a few others
        h = rng.randint(2, 5)
        pts = [(0, j) for j in range(h + 1)] + [(rng.randint(1, 6), rng.randint(-3, 8)) for _ in range(rng.randint(1, 5))]
    elif kind == 'fan':
        # several points on rays through the lowest-leftmost point
        pts = [(0, 0)]
        for _ in range(rng.randint(1, 4)):
            dx, dy = rng.randint(0, 4), rng.randint(-4, 4)
            if dx == 0 and dy <= 0:
                dy = 1
            for t in rng.sample(range(1, 6), rng.randint(1, 3)):
                pts.append((t * dx, t * dy))
    elif kind == 'circle':
        # integer points on x^2 + y^2 = 25 / 65 / 325 (all extreme) + interior points
        r2 = rng.choice([25, 65, 325])
        m = int(r2 ** 0.5) + 1
        ring = [(i, j) for i in range(-m, m + 1) for j in range(-m, m + 1) if i * i + j * j == r2]
        pts = rng.sample(ring, min(len(ring), n)) + [(rng.randint(-2, 2), rng.randint(-2, 2)) for _ in range(2)]
    elif kind == 'offset':
        big = rng.choice([10 ** 6, 2 ** 30, 2 ** 40])
        ox, oy = rng.choice([-1, 1]) * big, rng.choice([-1, 0, 1]) * big
        pts = [(ox + rng.randint(-4, 4), oy + rng.randint(-4, 4)) for _ in range(n)]
    elif kind == 'two_lines':
        pts = [(t, 0) for t in rng.sample(range(0, 8), rng.randint(2, 5))] + \
              [(t, t) for t in rng.sample(range(1, 8), rng.randint(1, 4))]
    else:
        mag = {'float': 1.0, 'floatbig': 1e150, 'floatsmall': 1e-150}[kind]
        arr = np.array([[rng.uniform(-1, 1) * mag, rng.uniform(-1, 1) * mag] for _ in range(n)])
        return arr, kind
    pts = distinct(pts)
    rng.shuffle(pts)
    if len(pts) < 3:
        return gen_point_set()
    return scaled(pts, rng.choice(['int', 'float', 'float'])), kind


def gen_curve():
    kind = rng.choice(['ints', 'ints', 'plateau', 'linear', 'runs', 'convex', 'concave', 'zigzag',
                       'zeros', 'float', 'floatbig', 'floatsmall', 'two', 'three', 'offset'])
    n = rng.randint(2, 13)
    if kind == 'two':
        n = 2
    if kind == 'three':
        n = 3
    if kind in ('float', 'floatbig', 'floatsmall'):
        mag = {'float': 1.0, 'floatbig': 1e150, 'floatsmall': 1e-150}[kind]
        xs = sorted(set(rng.uniform(0, 1) * mag for _ in range(n + 1)))
        if len(xs) < 2:
            return gen_curve()
        arr = np.array([[x, rng.uniform(-1, 1) * mag] for x in xs])
        return arr, kind
    xs = []
    x = rng.randint(-5, 5)
    for _ in range(n):
        xs.append(x)
        x += rng.choice([1, 1, 1, 2, 3, 7])
    if kind == 'ints':
        ys = [rng.randint(-4, 4) for _ in range(n)]
    elif kind == 'plateau':
        ys = []
        v = rng.randint(-2, 2)
        for _ in range(n):
            if rng.random() < 0.3:
                v = rng.randint(-2, 2)
            ys.append(v)
    elif kind == 'linear':
        a, b = rng.randint(-3, 3), rng.randint(-3, 3)
        ys = [a * xx + b for xx in xs]
    elif kind == 'runs':
        # piecewise linear with few breakpoints: long collinear runs
        ys = []
        slope = rng.randint(-3, 3)
        v = rng.randint(-3, 3)
        last = xs[0]
        for xx in xs:
            v += slope * (xx - last)
            last = xx
            ys.append(v)
            if rng.random() < 0.25:
                slope = rng.randint(-3, 3)
    elif kind == 'convex':
        ys = [xx * xx for xx in xs]
    elif kind == 'concave':
        ys = [-xx * xx for xx in xs]
    elif kind == 'zigzag':
        ys = [(i % 2) * rng.choice([1, 1, 2]) for i in range(n)]
    elif kind == 'zeros':
        ys = [0 if rng.random() < 0.7 else rng.choice([-1, 1]) for _ in range(n)]
        xs = [xx - xs[0] for xx in xs]
    elif kind == 'offset':
        big = rng.choice([10 ** 6, 2 ** 30, 2 ** 40])
        xs = [big + xx for xx in xs]
        ys = [-big + rng.randint(-3, 3) for _ in range(n)]
    else:
        ys = [rng.randint(-4, 4) for _ in range(n)]
    return scaled(list(zip(xs, ys)), rng.choice(['int', 'float', 'float'])), kind


# ----------------------------------------------------------------------------
# fixed awkward cases
# ----------------------------------------------------------------------------
FIXED_SETS = [
    [(0, 0), (1, 1), (2, 2)],
    [(0, 0), (1, 1), (2, 2), (3, 3)],
    [(0, 0), (0, 1), (0, 2), (0, 3)],
    [(3, 0), (1, 0), (0, 0), (2, 0)],
    [(0, 0), (0, 1), (0, 2), (1, 0)],
    [(0, 0), (0, 1), (0, 2), (1, 1)],
    [(0, 0), (1, 0), (2, 0), (1, 1)],
    [(0, 0), (2, 0), (2, 2), (0, 2), (1, 1), (1, 0), (2, 1), (1, 2), (0, 1)],
    [(1, 5), (1, 4), (2, 3), (2, 2), (2, 4), (3, 4), (4, 3), (3, 3), (5, 1)],
    [(0, 0), (1, 2), (2, 4), (3, 1)],
    [(0, 0), (1, -2), (2, -4), (3, 1)],
    [(0, 1), (0, 0), (1, 0)],
    [(0, 0), (4, 0), (2, 1), (2, -1), (1, 0), (3, 0)],
]

FIXED_CURVES = [
    [(0, 0), (1, 0)],
    [(0, 5), (1, -5)],
    [(0, 0), (1, 0), (2, 0)],
    [(0, 0), (1, 1), (2, 2), (3, 3)],
    [(0, 0), (1, 1), (2, 0)],
    [(0, 0), (1, -1), (2, 0)],
    [(0, 0), (1, 0), (2, 0), (3, 1), (4, 2), (5, 3)],
    [(0, 3), (1, 2), (2, 1), (3, 1), (4, 1), (5, 2)],
    [(0, 0), (1, 5), (2, 0), (3, 5), (4, 0), (5, 5), (6, 0)],
    [(0, 9), (1, 4), (2, 1), (3, 0), (4, 0), (5, 0)],
]


def main():
    n_sets = n_curves = 0
    for base in FIXED_SETS:
        for dt in ('int', 'float'):
            check_hull(scaled(base, dt), 'fixed set %r' % (base,))
            n_sets += 1
    for base in FIXED_CURVES:
        for dt in ('int', 'float'):
            arr = scaled(base, dt)
            check_chain(arr, False, 'fixed curve %r' % (base,))
            check_chain(arr, True, 'fixed curve %r' % (base,))
            n_curves += 1
    for it in range(400):
        if time.time() - T0 > BUDGET:
            break
        arr, kind = gen_point_set()
        check_hull(arr, 'set #%d (%s) %r' % (it, kind, arr.tolist()))
        n_sets += 1
        arr, kind = gen_curve()
        check_chain(arr, False, 'curve #%d (%s) %r' % (it, kind, arr.tolist()))
        check_chain(arr, True, 'curve #%d (%s) %r' % (it, kind, arr.tolist()))
        n_curves += 1
        if len(failures) > 20:
            break

    print('checked %d point sets and %d curves in %.1f s' % (n_sets, n_curves, time.time() - T0))
    if failures:
        print('C18 VIOLATED: %d failures' % len(failures))
        for label, fn, msg in failures[:10]:
            print(' -', fn, ':', msg)
            print('    input:', label)
        return 1
    print('C18 holds on all generated inputs')
    return 0


if __name__ == '__main__':
    code = main()
    signal.alarm(0)
    sys.exit(code)
