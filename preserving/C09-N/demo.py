#!/usr/bin/env python
"""
C09 property test: every single-knee detector terminates and returns an
interior index that is an optimum of its stated criterion.

  curvature : maximises |f''| / (1 + f'^2)^(3/2) over the interior points
  DFDT      : interior point whose gradient is closest to the ISODATA
              threshold, refined on the tail that starts at half of the
              previous knee while the knee moves to the right
  Menger    : maximises the Menger curvature of consecutive triples
  L-method  : minimises the length weighted two-line fitting error over the
              split points 2..n-3 (Fit x Cost), refinement terminates for
              every Refinement option and every limit

The oracles below are written independently of the library code.  Wherever the
statement leaves a choice open (several optimal indices, last bits of a
floating-point value) every admissible answer is accepted:
  * optimality is checked on the VALUE of the criterion at the returned index,
    never on the index itself;
  * for the DFDT refinement the set of all answers that can be reached with
    some admissible choice among tied points is computed (breadth first
    search), and the returned knee has to be a member of it.

No arguments.  Exit 0: property holds on all generated inputs.  Exit 1: violated.
"""
import math
import signal
import sys
import time
import warnings

import numpy as np

warnings.simplefilter('ignore')


def _alarm(signum, frame):
    print('VIOLATION: no termination within the time limit')
    sys.stdout.flush()
    sys.exit(1)


signal.signal(signal.SIGALRM, _alarm)
signal.alarm(58)
T0 = time.time()

import uts.gradient as ugrad            # noqa: E402
import uts.thresholding as uthresh      # noqa: E402
import kneeliverse.curvature as curvature   # noqa: E402
import kneeliverse.dfdt as dfdt             # noqa: E402
import kneeliverse.menger as menger         # noqa: E402
import kneeliverse.lmethod as lmethod       # noqa: E402
from kneeliverse.lmethod import Fit, Cost, Refinement   # noqa: E402

U = 2.0 ** -52
violations = []
counts = {}


def bad(msg):
    violations.append(msg)
    if len(violations) <= 12:
        print('VIOLATION:', msg)


def count(key):
    counts[key] = counts.get(key, 0) + 1


def is_index(v):
    return isinstance(v, (int, np.integer)) and not isinstance(v, bool)


# ---------------------------------------------------------------------------
# input generators: strictly increasing finite x
# ---------------------------------------------------------------------------
def make_curves(rng):
    curves = []

    def add(tag, x, y, scale_ok=True):
        curves.append((tag, np.asarray(x), np.asarray(y), scale_ok))

    for rep in range(14):
        n = int(rng.integers(5, 60))
        xe = np.arange(n, dtype=float)
        xu = np.cumsum(rng.uniform(0.2, 3.0, n))
        xi = np.cumsum(rng.integers(1, 4, n)).astype(float)
        # smooth knees / elbows
        add('hyperbola', xe, 1.0 / (xe + 1.0))
        add('expdecay', xu, 50.0 * np.exp(-xu / rng.uniform(1, 10)) + 1.0)
        add('log', xu, np.log1p(xu) * rng.uniform(0.5, 4))
        add('noisy', xu, 10.0 / (xu + 0.5) + rng.normal(0, 0.05, n))
        add('random', xu, rng.normal(0, 1, n))
        # exact two-line curves with integer slopes (collinear runs, ties)
        k = int(rng.integers(0, n))
        s1, s2 = (int(v) for v in rng.integers(-6, 7, 2))
        add('twolines', xi, np.where(np.arange(n) <= k, s1 * (xi - xi[k]), s2 * (xi - xi[k])))
        # plateaus and steps with few distinct integer values
        add('steps', xe, np.sort(rng.integers(0, 5, n))[::-1].astype(float))
        add('steps-up', xe, np.sort(rng.integers(0, 4, n)).astype(float))
        add('plateaus', xe, np.repeat(rng.integers(0, 6, n // 3 + 1), 3)[:n].astype(float))
        add('smallint', xi, rng.integers(0, 3, n).astype(float))
        # integer dtype
        add('int-dtype', np.arange(n), np.sort(rng.integers(0, 40, n))[::-1].copy())
        add('int-walk', np.cumsum(rng.integers(1, 3, n)), np.cumsum(rng.integers(-3, 4, n)))
        # zeros, straight lines, symmetric curves
        z = np.zeros(n)
        z[: int(rng.integers(1, n))] = rng.integers(1, 4)
        add('zero-tail', xe, z)
        add('vshape', xe, np.abs(xe - n // 2))
        add('parabola', xe, (xe - (n - 1) / 2.0) ** 2)
        # straight line whose points are not exactly representable, large offset
        add('line-inexact', xe * 0.1, 0.3 * (xe * 0.1) + 0.7)
        add('offset', xe + 1e6, 3.0 * (xe + 1e6) + 1.0 + rng.normal(0, 1e-3, n))
    for n in (3, 4, 5, 6, 7, 8, 11, 33):
        xe = np.arange(n, dtype=float)
        add('line', xe, 3.0 * xe + 1.0)
        add('line-down', xe, 100.0 - 2.0 * xe)
        add('all-zero', xe, np.zeros(n))
        add('constant', xe, np.full(n, 7.0))
        add('tiny-n', xe, rng.integers(0, 5, n).astype(float))
        add('tiny-n-smooth', xe, 1.0 / (xe + 1.0))
    return curves


def scaled_variants(x, y, rng):
    """the curve itself plus versions of very small / very large magnitude"""
    out = [(x, y, 1.0, 1.0)]
    if x.dtype.kind == 'f':
        sx, sy = rng.choice([(1e-150, 1e-150), (1e150, 1e150), (1e-100, 1e-100), (1e100, 1e100),
                             (2.0 ** -300, 2.0 ** -300), (2.0 ** 300, 2.0 ** 300),
                             (1e-30, 1e40), (1e40, 1e-30), (1.0, 1e-150), (1.0, 1e150)])
        out.append((x * sx, y * sy, sx, sy))
    return out


# ---------------------------------------------------------------------------
# curvature
# ---------------------------------------------------------------------------
def check_curvature(tag, x, y):
    n = len(x)
    pts = np.column_stack([x, y])
    r = curvature.knee(pts)
    count('curvature')
    if not is_index(r) or not (1 <= r <= n - 2):
        return bad('curvature %s n=%d: %r is not an interior index' % (tag, n, r))
    xf = x.astype(float)
    yf = y.astype(float)
    h1 = xf[1:-1] - xf[:-2]
    h2 = xf[2:] - xf[1:-1]
    s1 = (yf[1:-1] - yf[:-2]) / h1
    s2 = (yf[2:] - yf[1:-1]) / h2
    d1 = (s1 * h2 + s2 * h1) / (h1 + h2)
    d2 = 2.0 * (s2 - s1) / (h1 + h2)
    den = np.hypot(1.0, d1) ** 3
    if not np.all(np.isfinite(den)) or not np.all(np.isfinite(d2)):
        return
    k = np.abs(d2) / den
    # rounding noise of a three term second difference
    mag = (np.abs(yf[:-2]) / (h1 * (h1 + h2)) + np.abs(yf[1:-1]) / (h1 * h2) + np.abs(yf[2:]) / (h2 * (h1 + h2)))
    tol = 1e-9 * k + 1e3 * U * 2.0 * mag / den
    i = r - 1
    if k[i] + tol[i] < np.max(k - tol):
        bad('curvature %s n=%d: index %d has curvature %g, the maximum is %g' % (tag, n, r, k[i], k.max()))


# ---------------------------------------------------------------------------
# Menger
# ---------------------------------------------------------------------------
def check_menger(tag, x, y):
    n = len(x)
    xf = x.astype(float)
    yf = y.astype(float)
    ax, ay = xf[1:-1] - xf[:-2], yf[1:-1] - yf[:-2]
    bx, by = xf[2:] - xf[1:-1], yf[2:] - yf[1:-1]
    cx, cy = xf[2:] - xf[:-2], yf[2:] - yf[:-2]
    cross = np.abs(ax * by - ay * bx)
    if not np.any(cross > 0):
        return          # no bend at all: every triple is collinear, nothing to maximise
    la, lb, lc = np.hypot(ax, ay), np.hypot(bx, by), np.hypot(cx, cy)
    big = max(la.max(), lb.max(), lc.max())
    small = min(la.min(), lb.min(), lc.min())
    if big > 1e45 or small < 1e-45:
        return          # squared side lengths multiply to values outside the float range
    k = 2.0 * cross / (la * lb * lc)
    r = menger.knee(np.column_stack([x, y]))
    count('menger')
    if not is_index(r) or not (1 <= r <= n - 2):
        return bad('menger %s n=%d: %r is not an interior index' % (tag, n, r))
    tol = 1e-9 * k + 1e3 * U * 2.0 * (np.abs(ax * by) + np.abs(ay * bx)) / (la * lb * lc)
    i = r - 1
    if k[i] + tol[i] < np.max(k - tol):
        bad('menger %s n=%d: index %d has curvature %g, the maximum is %g' % (tag, n, r, k[i], k.max()))


# ---------------------------------------------------------------------------
# DFDT
# ---------------------------------------------------------------------------
def closest_interior(g):
    """all interior positions of g whose distance to the ISODATA threshold is minimal"""
    t = uthresh.isodata(g)
    d = np.abs(g[1:-1] - t)
    slack = 4.0 * U * max(abs(t), float(np.max(np.abs(g))))
    return np.flatnonzero(d <= d.min() + slack) + 1


def dfdt_reachable(g):
    """
    All knees the stated procedure can return: start on the whole gradient,
    repeat on the tail that starts at ceil(knee/2) while the knee moved to
    the right (and the tail still has an interior point).
    """
    n = len(g)
    cache = {}

    def cand(cutoff):
        if cutoff not in cache:
            cache[cutoff] = [int(c) + cutoff for c in closest_interior(g[cutoff:])]
        return cache[cutoff]

    final = set()
    seen = set()
    todo = [(-1, 0, 0)]       # (last knee, knee, cutoff)
    while todo:
        state = todo.pop()
        if state in seen:
            continue
        seen.add(state)
        last, knee, cutoff = state
        if last < knee and n - cutoff > 2:
            for c in cand(cutoff):
                todo.append((knee, c, (c + 1) // 2))
        else:
            final.add(knee)
    return final


def check_dfdt(tag, x, y):
    n = len(x)
    pts = np.column_stack([x, y])
    g = ugrad.cfd(pts[:, 0], pts[:, 1])
    if not np.all(np.isfinite(g)):
        return
    # independent look at the gradient (interior: slope of the parabola through three points)
    xf, yf = pts[:, 0].astype(float), pts[:, 1].astype(float)
    h1, h2 = xf[1:-1] - xf[:-2], xf[2:] - xf[1:-1]
    s1, s2 = (yf[1:-1] - yf[:-2]) / h1, (yf[2:] - yf[1:-1]) / h2
    ref = (s1 * h2 + s2 * h1) / (h1 + h2)
    mag = (np.abs(yf[:-2]) + np.abs(yf[1:-1]) + np.abs(yf[2:])) / np.minimum(h1, h2)
    if np.all(np.isfinite(ref)) and np.any(np.abs(g[1:-1] - ref) > 1e-9 * mag):
        return bad('dfdt %s: gradient is not the central difference' % tag)

    # single pass, on the gradient and on (x, y)
    for name, r in (('get_knee_gradient', dfdt.get_knee_gradient(g)), ('get_knee', dfdt.get_knee(pts[:, 0], pts[:, 1]))):
        count('dfdt-single')
        if not is_index(r) or not (1 <= r <= n - 2):
            bad('dfdt.%s %s n=%d: %r is not an interior index' % (name, tag, n, r))
        elif r not in closest_interior(g):
            bad('dfdt.%s %s n=%d: gradient of index %d is not the closest to the threshold' % (name, tag, n, r))

    # with refinement
    r = dfdt.knee(pts)
    count('dfdt-knee')
    if not is_index(r) or not (1 <= r <= n - 2):
        return bad('dfdt.knee %s n=%d: %r is not an interior index' % (tag, n, r))
    ok = dfdt_reachable(g)
    if r not in ok:
        bad('dfdt.knee %s n=%d: returned %d, the refinement procedure can only end in %s' % (tag, n, r, sorted(ok)))


# ---------------------------------------------------------------------------
# L-method
# ---------------------------------------------------------------------------
def line_rss(xs, ys, fit):
    if fit is Fit.point_fit:
        m = (ys[-1] - ys[0]) / (xs[-1] - xs[0])
        res = ys - (ys[0] + m * (xs - xs[0]))
    else:
        xm, ym = xs.mean(), ys.mean()
        dx, dy = xs - xm, ys - ym
        scale = np.abs(dx).max()
        dxs = dx / scale
        m = np.dot(dxs, dy) / np.dot(dxs, dxs)
        res = dy - m * dxs
    return float(np.dot(res, res))


def split_errors(xs, ys, fit, cost):
    """error of every split point 2..n-3 and the rounding floor of these values"""
    n = len(xs)
    length = xs[-1] - xs[0]
    errs = []
    for i in range(2, n - 2):
        lr = (xs[i] - xs[0]) / length
        rr = (xs[-1] - xs[i]) / length
        rl = line_rss(xs[:i + 1], ys[:i + 1], fit)
        rg = line_rss(xs[i:], ys[i:], fit)
        if cost is Cost.rmse:
            errs.append(lr * math.sqrt(rl * lr) + rr * math.sqrt(rg * rr))
        else:
            errs.append(rl * lr + rg * rr)
    slope = np.abs(np.diff(ys) / np.diff(xs)).max()
    size = np.abs(ys).max() + slope * np.abs(xs).max()
    noise = 1e4 * U * size
    floor = math.sqrt(n) * noise if cost is Cost.rmse else n * noise * noise
    return np.array(errs), floor


def near_minimal(errs, floor, r):
    return errs[r - 2] <= errs.min() * (1.0 + 1e-7) + floor


def check_lmethod(tag, x, y, sy, rng):
    n = len(x)
    if n < 5:
        return
    xf, yf = x.astype(float), y.astype(float)
    pts = np.column_stack([x, y])
    tables = {}

    def table(w, fit, cost):
        key = (w, fit, cost)
        if key not in tables:
            tables[key] = split_errors(xf[:w], yf[:w], fit, cost)
        return tables[key]

    # one pass: Fit x Cost
    for fit in Fit:
        for cost in Cost:
            if cost is Cost.rss and not (1e-120 < sy < 1e120):
                continue        # squared residuals leave the float range
            out = lmethod.get_knee(pts[:, 0], pts[:, 1], fit, cost)
            r = out[0]
            count('lmethod-get_knee')
            if not is_index(r) or not (2 <= r <= n - 3):
                bad('lmethod.get_knee %s n=%d %s %s: %r is not a split point of 2..n-3' % (tag, n, fit, cost, r))
                continue
            errs, floor = table(n, fit, cost)
            if not near_minimal(errs, floor, r):
                bad('lmethod.get_knee %s n=%d %s %s: split %d has error %g, the minimum is %g (split %d)'
                    % (tag, n, fit, cost, r, errs[r - 2], errs.min(), errs.argmin() + 2))
            # the returned lines are the fitted lines of the two segments
            for coef, (xs, ys) in ((out[1], (xf[:r + 1], yf[:r + 1])), (out[2], (xf[r:], yf[r:]))):
                # (b, m) for the end point lines, [m, b] for the least squares lines
                b, m = (coef[0], coef[1]) if fit is Fit.point_fit else (coef[1], coef[0])
                mx, my = (0.5 * (xs[0] + xs[-1]), 0.5 * (ys[0] + ys[-1])) if fit is Fit.point_fit else (xs.mean(), ys.mean())
                span = np.abs(ys).max() + abs(m) * np.abs(xs).max()
                if not abs(m * mx + b - my) <= 1e-9 * span:
                    bad('lmethod.get_knee %s n=%d %s %s: a returned line misses the centre of its segment' % (tag, n, fit, cost))

    # refinement: terminates, and returns the optimal split of the part of the curve it stopped on
    calls = []
    original = lmethod.get_knee

    def recorder(xs, ys, *a, **kw):
        res = original(xs, ys, *a, **kw)
        calls.append((len(xs), res[0]))
        return res

    for fit in Fit:
        for it in Refinement:
            limits = [10] + [int(v) for v in rng.choice([4, 5, 6, 8, 15, 25, 1000], 2, replace=False)]
            for limit in limits:
                del calls[:]
                lmethod.get_knee = recorder
                try:
                    r = lmethod.knee(pts, fit, it, limit)
                finally:
                    lmethod.get_knee = original
                count('lmethod-knee')
                if not is_index(r) or not (2 <= r <= n - 3):
                    bad('lmethod.knee %s n=%d %s %s limit=%d: %r is not in 2..n-3' % (tag, n, fit, it, limit, r))
                    continue
                if it is Refinement.none or limit >= n:
                    windows = [n]
                elif calls and calls[-1][1] == r:
                    windows = [calls[-1][0]]
                else:
                    windows = list(range(n, max(5, min(limit + 1, n)) - 1, -1))
                good = False
                for w in windows:
                    if r <= w - 3:
                        errs, floor = table(w, fit, Cost.rmse)
                        if near_minimal(errs, floor, r):
                            good = True
                            break
                if not good:
                    bad('lmethod.knee %s n=%d %s %s limit=%d: %d is not the optimal split of any prefix of the curve'
                        % (tag, n, fit, it, limit, r))


# ---------------------------------------------------------------------------
def main():
    rng = np.random.default_rng(20240909)
    curves = make_curves(rng)
    done = 0
    for tag, x, y, _ in curves:
        if time.time() - T0 > 40:
            break
        for xs, ys, sx, sy in scaled_variants(x, y, rng):
            n = len(xs)
            ratio = sy / sx
            if 1e-100 < ratio < 1e100:
                check_curvature(tag, xs, ys)
                check_dfdt(tag, xs, ys)
            check_menger(tag, xs, ys)
            if n <= 40 or sx == 1.0:
                check_lmethod(tag, xs, ys, sy, rng)
        done += 1
    print('curves: %d of %d (each also at an extreme magnitude), checks: %s, %.1f s'
          % (done, len(curves), counts, time.time() - T0))
    if done < 250:
        print('VIOLATION: too slow, only %d curves were checked' % done)
        return 1
    if violations:
        print('%d violations' % len(violations))
        return 1
    print('C09 holds on all generated inputs')
    return 0


if __name__ == '__main__':
    code = main()
    signal.alarm(0)
    sys.exit(code)
