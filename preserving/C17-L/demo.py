#!/usr/bin/env python
"""C17 property test: geometric and ranking primitives equal their geometric
definitions.  Exits 0 when the property holds on all generated inputs, 1 otherwise.

References are computed in exact rational arithmetic (every float is an exact
rational) and only the final square root is rounded, so the test does not
depend on the particular floating point formula used by the library.
"""
import signal
import sys

signal.alarm(55)

import itertools
import math
import random
import warnings
from fractions import Fraction as F

import numpy as np
import kneeliverse.linear_fit as lf
import kneeliverse.knee_ranking as kr
import kneeliverse.menger as menger

warnings.simplefilter('ignore')
rnd = random.Random(6017)
failures = []


def fail(msg):
    failures.append(msg)


def fsqrt(q):
    """float(sqrt(q)) for a non-negative Fraction, accurate to ~1 ulp."""
    if q == 0:
        return 0.0
    shift = 240
    r = math.isqrt((q.numerator << shift) // q.denominator)
    return float(F(r, 1 << (shift // 2)))


def fr(pt):
    return F(float(pt[0])), F(float(pt[1]))


def ref_segment(p, a, b):
    (px, py), (ax, ay), (bx, by) = fr(p), fr(a), fr(b)
    dx, dy = bx - ax, by - ay
    l2 = dx * dx + dy * dy
    if l2 == 0:
        t = F(0)
    else:
        t = ((px - ax) * dx + (py - ay) * dy) / l2
        t = min(max(t, F(0)), F(1))
    qx, qy = ax + t * dx, ay + t * dy
    return fsqrt((px - qx) ** 2 + (py - qy) ** 2)


def ref_line(p, a, b):
    (px, py), (ax, ay), (bx, by) = fr(p), fr(a), fr(b)
    dx, dy = bx - ax, by - ay
    cross = dx * (py - ay) - dy * (px - ax)
    return fsqrt(cross * cross / (dx * dx + dy * dy))


def spread(pts, a, b):
    allp = np.vstack([np.asarray(pts, dtype=float), np.asarray([a, b], dtype=float)])
    return float(np.max(np.ptp(allp, axis=0))) or 1.0


def close(v, e, scale):
    return math.isfinite(v) and abs(v - e) <= 1e-11 * scale + 1e-9 * e


def coord(kind):
    if kind == 'int':
        return float(rnd.randint(-20, 20))
    if kind == 'grid':
        return rnd.randint(-40, 40) / 4.0
    if kind == 'offset':
        return 1000.0 + rnd.uniform(-3, 3)
    return rnd.uniform(-50, 50)


# ---------------------------------------------------------------- shortest distance
def segments():
    for _ in range(220):
        kind = rnd.choice(['int', 'grid', 'float', 'offset'])
        a = np.array([coord(kind), coord(kind)])
        shape = rnd.choice(['any', 'any', 'any', 'vertical', 'horizontal', 'point', 'short'])
        if shape == 'vertical':
            b = np.array([a[0], coord(kind)])
        elif shape == 'horizontal':
            b = np.array([coord(kind), a[1]])
        elif shape == 'point':
            b = a.copy()
        elif shape == 'short':
            b = a + np.array([rnd.uniform(-1, 1), rnd.uniform(-1, 1)]) * 1e-6
        else:
            b = np.array([coord(kind), coord(kind)])
        n = rnd.randint(1, 12)
        pts = [[coord(kind), coord(kind)] for _ in range(n)]
        # points on the carrier line, at and beyond the end points
        for t in (-0.5, 0.0, 0.25, 1.0, 1.5):
            pts.append(list(a + t * (b - a)))
        # points straight above the end points
        nrm = np.array([-(b - a)[1], (b - a)[0]])
        pts.append(list(a + nrm))
        pts.append(list(b - 0.5 * nrm))
        rnd.shuffle(pts)
        yield np.array(pts), a, b


for pts, a, b in segments():
    sc = spread(pts, a, b)
    for A, B in ((a, b), (b, a)):
        try:
            got = np.asarray(lf.shortest_distance_points(pts, A, B), dtype=float)
        except Exception as e:  # noqa
            fail('shortest_distance_points raised %r for a=%s b=%s' % (e, A, B))
            continue
        if got.shape != (len(pts),):
            fail('shortest_distance_points: shape %s for %d points' % (got.shape, len(pts)))
            continue
        for p, v in zip(pts, got):
            e = ref_segment(p, A, B)
            if not close(float(v), e, sc):
                fail('shortest_distance_points p=%s a=%s b=%s -> %.17g, expected %.17g'
                     % (p.tolist(), A.tolist(), B.tolist(), v, e))
                break

# integer dtype curve, as the RDP code uses it (end points are rows of the array)
for _ in range(60):
    n = rnd.randint(2, 30)
    x = np.cumsum([rnd.randint(1, 5) for _ in range(n)])
    y = np.array([rnd.randint(0, 40) for _ in range(n)])
    pts = np.column_stack([x, y]).astype(rnd.choice([np.int64, np.float64]))
    got = np.asarray(lf.shortest_distance_points(pts, pts[0], pts[-1]), dtype=float)
    sc = spread(pts, pts[0], pts[-1])
    for p, v in zip(pts, got):
        e = ref_segment(p, pts[0], pts[-1])
        if got.shape != (n,) or not close(float(v), e, sc):
            fail('shortest_distance_points (curve, %s) p=%s -> %.17g expected %.17g' % (pts.dtype, p, v, e))
            break

# ---------------------------------------------------------------- perpendicular distance
for pts, a, b in segments():
    if np.all(a == b):
        continue
    sc = spread(pts, a, b)
    for A, B in ((a, b), (b, a)):
        try:
            got = np.asarray(lf.perpendicular_distance_points(pts, A, B), dtype=float)
        except Exception as e:  # noqa
            fail('perpendicular_distance_points raised %r for start=%s end=%s' % (e, A, B))
            continue
        if got.shape != (len(pts),):
            fail('perpendicular_distance_points: shape %s for %d points' % (got.shape, len(pts)))
            continue
        for p, v in zip(pts, got):
            e = ref_line(p, A, B)
            if not close(float(v), e, sc):
                fail('perpendicular_distance_points p=%s start=%s end=%s -> %.17g, expected %.17g'
                     % (p.tolist(), A.tolist(), B.tolist(), v, e))
                break

for _ in range(150):
    n = rnd.randint(2, 40)
    if rnd.random() < 0.7:
        x = np.cumsum([rnd.uniform(0.1, 3) for _ in range(n)])
    else:
        x = np.array([rnd.uniform(-20, 20) for _ in range(n)])   # general point sequence
    y = np.array([rnd.uniform(0, 30) for _ in range(n)])
    pts = np.column_stack([x, y])
    if rnd.random() < 0.3:
        pts = np.round(pts).astype(np.int64)
    left = rnd.randint(0, n - 2)
    right = rnd.randint(left + 1, n - 1)
    for name, l, r, call in (('perpendicular_distance_index', left, right,
                              lambda: lf.perpendicular_distance_index(pts, left, right)),
                             ('perpendicular_distance', 0, n - 1,
                              lambda: lf.perpendicular_distance(pts))):
        if np.all(pts[l] == pts[r]):
            continue
        try:
            got = np.asarray(call(), dtype=float)
        except Exception as e:  # noqa
            fail('%s raised %r' % (name, e))
            continue
        if got.shape != (r - l + 1,):
            fail('%s: %d values for sub-range %d..%d' % (name, len(got), l, r))
            continue
        sc = spread(pts[l:r + 1], pts[l], pts[r])
        for i, v in zip(range(l, r + 1), got):
            e = ref_line(pts[i], pts[l], pts[r])
            if not close(float(v), e, sc):
                fail('%s(points, %d, %d)[%d] -> %.17g, expected %.17g' % (name, l, r, i - l, v, e))
                break

# ---------------------------------------------------------------- rectangle overlap
def ref_iou(amin, amax, bmin, bmax):
    amin, amax, bmin, bmax = [fr(v) for v in (amin, amax, bmin, bmax)]
    dx = min(amax[0], bmax[0]) - max(amin[0], bmin[0])
    dy = min(amax[1], bmax[1]) - max(amin[1], bmin[1])
    if dx <= 0 or dy <= 0:
        return 0.0
    inter = dx * dy
    union = (amax[0] - amin[0]) * (amax[1] - amin[1]) + (bmax[0] - bmin[0]) * (bmax[1] - bmin[1]) - inter
    return float(inter / union)


def interval(kind):
    lo = coord(kind)
    hi = lo + abs(coord(kind)) * rnd.choice([0.1, 1, 1]) + (0.25 if rnd.random() < 0.9 else 0.0)
    return lo, hi


for _ in range(400):
    kind = rnd.choice(['int', 'grid', 'float'])
    ax, ay, bx, by = interval(kind), interval(kind), interval(kind), interval(kind)
    mode = rnd.random()
    if mode < 0.15:
        bx = ax                       # shared x range (the way postprocessing builds them)
    elif mode < 0.25:
        bx, by = ax, ay               # identical
    elif mode < 0.35:
        bx = (ax[1], ax[1] + 1.5)     # touching along an edge
    elif mode < 0.45:
        bx = (ax[0] + (ax[1] - ax[0]) / 4, ax[1] - (ax[1] - ax[0]) / 4)   # nested on x
    dtype = np.int64 if kind == 'int' and rnd.random() < 0.5 else np.float64
    amin, amax = np.array([ax[0], ay[0]]).astype(dtype), np.array([ax[1], ay[1]]).astype(dtype)
    bmin, bmax = np.array([bx[0], by[0]]).astype(dtype), np.array([bx[1], by[1]]).astype(dtype)
    e = ref_iou(amin, amax, bmin, bmax)
    try:
        v1 = float(kr.rect_overlap(amin, amax, bmin, bmax))
        v2 = float(kr.rect_overlap(bmin, bmax, amin, amax))
    except Exception as ex:  # noqa
        fail('rect_overlap raised %r' % ex)
        continue
    desc = 'rect_overlap(%s,%s,%s,%s)' % (amin.tolist(), amax.tolist(), bmin.tolist(), bmax.tolist())
    if not (abs(v1 - e) <= 1e-12 and abs(v2 - e) <= 1e-12):
        fail('%s -> %.17g / swapped %.17g, IoU is %.17g' % (desc, v1, v2, e))
    elif not (0.0 <= v1 <= 1.0 + 1e-15):
        fail('%s -> %.17g outside [0,1]' % (desc, v1))
    nondeg = amax[0] > amin[0] and amax[1] > amin[1]
    if nondeg and abs(float(kr.rect_overlap(amin, amax, amin.copy(), amax.copy())) - 1.0) > 1e-12:
        fail('%s: identical rectangles do not give 1' % desc)

# ---------------------------------------------------------------- Menger curvature
def ref_menger(f, g, h):
    (x1, y1), (x2, y2), (x3, y3) = fr(f), fr(g), fr(h)
    cross = (x2 - x1) * (y3 - y2) - (y2 - y1) * (x3 - x2)
    d = ((x2 - x1) ** 2 + (y2 - y1) ** 2) * ((x3 - x2) ** 2 + (y3 - y2) ** 2) * ((x1 - x3) ** 2 + (y1 - y3) ** 2)
    return fsqrt(4 * cross * cross / d)


for k in range(300):
    mode = k % 3
    if mode == 0:
        tri = [np.array([rnd.uniform(-100, 100), rnd.uniform(-100, 100)]) for _ in range(3)]
    elif mode == 1:   # exactly collinear (integer / dyadic coordinates)
        x0, y0, dx, dy = rnd.randint(-50, 50), rnd.randint(0, 50), rnd.randint(1, 9), rnd.randint(-9, 9)
        i, j = sorted(rnd.sample(range(1, 40), 2))
        q = rnd.choice([1, 2, 4])
        tri = [np.array([x0, y0]) / q, np.array([x0 + i * dx, y0 + i * dy]) / q, np.array([x0 + j * dx, y0 + j * dy]) / q]
        if rnd.random() < 0.3 and q == 1:
            tri = [t.astype(np.int64) for t in tri]
    else:             # nearly straight piece of a curve
        xs = sorted(rnd.sample(range(0, 2000), 3))
        y0, m = rnd.uniform(0, 10), rnd.uniform(-2, 0)
        off = rnd.choice([1e-3, 1e-6, 1e-9]) * rnd.uniform(0.5, 2)
        tri = [np.array([xs[0], y0 + m * xs[0]]), np.array([xs[1], y0 + m * xs[1] + off]), np.array([xs[2], y0 + m * xs[2]])]
    e = ref_menger(*tri)
    longest = max(math.dist(tri[i], tri[j]) for i, j in ((0, 1), (1, 2), (2, 0)))
    for f, g, h in itertools.permutations(tri):
        try:
            v = float(menger.menger_curvature(f, g, h))
        except Exception as ex:  # noqa
            fail('menger_curvature raised %r for %s %s %s' % (ex, f, g, h))
            break
        if not (math.isfinite(v) and abs(v - e) * longest <= 1e-12 + 1e-9 * e * longest):
            fail('menger_curvature(%s,%s,%s) -> %.17g, reciprocal circumradius is %.17g'
                 % (f.tolist(), g.tolist(), h.tolist(), v, e))
            break

# ---------------------------------------------------------------- rank
for _ in range(300):
    n = rnd.randint(1, 60)
    mode = rnd.random()
    if mode < 0.4:
        vals = np.array([rnd.uniform(-5, 5) for _ in range(n)])
    elif mode < 0.7:
        vals = np.array([float(rnd.randint(0, 4)) for _ in range(n)])       # many ties
    elif mode < 0.85:
        vals = np.array([rnd.randint(-3, 3) for _ in range(n)], dtype=np.int64)
    else:
        vals = np.full(n, 0.5)
    try:
        r = np.asarray(kr.rank(vals))
    except Exception as ex:  # noqa
        fail('rank raised %r for %s' % (ex, vals))
        continue
    if r.shape != (n,) or sorted(r.tolist()) != list(range(n)):
        fail('rank(%s) -> %s is not a permutation of 0..n-1' % (vals.tolist(), r.tolist()))
        continue
    placed = np.empty(n, dtype=vals.dtype)
    placed[r] = vals
    if np.any(placed[1:] < placed[:-1]):
        fail('rank(%s) -> %s does not order the values' % (vals.tolist(), r.tolist()))

if failures:
    print('C17 violated (%d failing cases):' % len(failures))
    for line in failures[:15]:
        print('  ' + line)
    sys.exit(1)
print('ok')
sys.exit(0)
