#!/usr/bin/env python
"""
Property test for C13 (worst-knee filter, corner filter, corner selector).

  * filter_worst_knees(points, knees) is exactly the greedy running-minimum
    subsequence: the first knee, then every knee whose height is <= the lowest
    height kept so far; applying it twice changes nothing.
  * For the knees that have both neighbours, filter_corner_knees keeps those
    whose corner-rectangle / neighbour-rectangle intersection-over-union is < t
    and select_corner_knees keeps those where it is >= t; the filter
    additionally keeps knees at either end of the curve.  The two results
    partition the knee list, both are order preserving and idempotent.

The IoU is evaluated in exact rational arithmetic; a knee whose exact IoU lies
within a few ulps of t may land on either side (the library works in floating
point), but it must still land on exactly one side.

Takes no arguments.  Exit status 0: property holds on every generated input,
1: a violation was found.
"""
import signal
import sys

signal.alarm(55)

from fractions import Fraction

import numpy as np
import kneeliverse.postprocessing as pp

BAND = Fraction(1, 10 ** 12)     # |IoU - t| below this: rounding decides


def exact_iou(points, k):
    (x0, y0), (x1, y1), (x2, y2) = [(Fraction(p[0]), Fraction(p[1])) for p in points[k - 1:k + 2].tolist()]
    # corner rectangle: (x0, y2) - (x1, y1); neighbour rectangle: (x0, y0) - (x2, y2)
    a = (min(x0, x1), min(y2, y1), max(x0, x1), max(y2, y1))
    b = (min(x0, x2), min(y0, y2), max(x0, x2), max(y0, y2))
    dx = min(a[2], b[2]) - max(a[0], b[0])
    dy = min(a[3], b[3]) - max(a[1], b[1])
    if dx <= 0 or dy <= 0:
        return Fraction(0)
    inter = dx * dy
    union = (a[2] - a[0]) * (a[3] - a[1]) + (b[2] - b[0]) * (b[3] - b[1]) - inter
    return inter / union


def running_minimum(points, knees):
    heights = points[:, 1].tolist()
    kept, lowest = [], None
    for k in knees:
        if lowest is None or heights[k] <= lowest:
            kept.append(k)
            lowest = heights[k]
    return kept


def is_subsequence(sub, full):
    it = iter(full)
    return all(any(s == f for f in it) for s in sub)


def ints(a):
    return [int(v) for v in a]


FAILURES = []


def check(label, points, knees, t):
    before = points.copy()
    n = len(points)
    kl = ints(knees)
    errs = []

    # ---- worst knees --------------------------------------------------------
    expect = running_minimum(before, kl)
    got = ints(pp.filter_worst_knees(points, knees))
    if got != expect:
        errs.append('filter_worst_knees -> %s, running minimum is %s' % (got, expect))
    else:
        twice = ints(pp.filter_worst_knees(points, np.array(got, dtype=int)))
        if twice != got:
            errs.append('filter_worst_knees is not idempotent: %s -> %s' % (got, twice))

    # ---- corners -------------------------------------------------------------
    kept = ints(pp.filter_corner_knees(points, knees, t))
    sel = ints(pp.select_corner_knees(points, knees, t))
    tt = Fraction(t)
    for k in kl:
        f, s = k in kept, k in sel
        if not (0 < k < n - 1):
            if not f or s:
                errs.append('knee %d at the end of the curve: filter keeps=%s, selector keeps=%s' % (k, f, s))
            continue
        q = exact_iou(before, k)
        if abs(q - tt) <= BAND:
            if f == s:
                errs.append('knee %d (IoU ~ t) is in %s' % (k, 'both results' if f else 'neither result'))
        elif q < tt:
            if not f or s:
                errs.append('knee %d: IoU %.17g < t, filter keeps=%s, selector keeps=%s' % (k, float(q), f, s))
        else:
            if f or not s:
                errs.append('knee %d: IoU %.17g >= t, filter keeps=%s, selector keeps=%s' % (k, float(q), f, s))
    if sorted(kept + sel) != sorted(kl):
        errs.append('no partition: filter %s + selector %s versus knees %s' % (kept, sel, kl))
    if not is_subsequence(kept, kl):
        errs.append('filter_corner_knees does not preserve the order: %s' % kept)
    if not is_subsequence(sel, kl):
        errs.append('select_corner_knees does not preserve the order: %s' % sel)
    if kept:
        twice = ints(pp.filter_corner_knees(points, np.array(kept, dtype=int), t))
        if twice != kept:
            errs.append('filter_corner_knees is not idempotent: %s -> %s' % (kept, twice))
    if sel:
        twice = ints(pp.select_corner_knees(points, np.array(sel, dtype=int), t))
        if twice != sel:
            errs.append('select_corner_knees is not idempotent: %s -> %s' % (sel, twice))
    if not np.array_equal(points, before):
        errs.append('the curve was modified')

    if errs:
        FAILURES.append(label)
        print('C13 violated [%s] t=%r' % (label, t))
        print('   points = %s' % before.tolist())
        print('   knees  = %s' % kl)
        for e in errs:
            print('   * ' + e)


# --------------------------------------------------------------------------
# generators
# --------------------------------------------------------------------------

def curve(rng, n):
    kind = rng.integers(8)
    if kind == 0:       # integer dtype staircase with plateaus and vertical-ish drops
        x = np.cumsum(rng.integers(1, 5, n))
        y = np.cumsum(rng.choice([0, 0, 1, 2, 7], n))[::-1].copy()
        return np.column_stack((x, y)), 'int staircase'
    if kind == 1:       # float staircase: flat runs alternate with drops
        x = np.cumsum(rng.integers(1, 4, n)).astype(float)
        y = np.cumsum(rng.choice([0., 0., 0., 1., 3.], n))[::-1].copy()
        return np.column_stack((x, y)), 'float staircase'
    if kind == 2:       # convex decreasing, generic floats
        x = np.cumsum(rng.random(n) + 0.01)
        y = np.sort(rng.random(n) ** 3)[::-1].copy()
        return np.column_stack((x, y)), 'smooth'
    if kind == 3:       # few levels in arbitrary order: many ties, bumps, increasing parts
        x = np.arange(n, dtype=float)
        y = rng.integers(0, 4, n).astype(float)
        return np.column_stack((x, y)), 'levels'
    if kind == 4:       # collinear runs
        x = np.arange(n, dtype=float)
        slopes = np.repeat(rng.choice([-3., -1., -.5, 0.], n // 3 + 1), 3)[:n]
        y = np.cumsum(slopes)
        y -= y.min()
        return np.column_stack((x, y)), 'collinear runs'
    if kind == 5:       # very small magnitudes
        sx, sy = 10.0 ** rng.integers(-140, -100), 10.0 ** rng.integers(-140, -100)
        x = np.cumsum(rng.random(n) + 0.01) * sx
        y = np.sort(rng.random(n))[::-1] * sy
        return np.column_stack((x, y)), 'tiny'
    if kind == 6:       # very large magnitudes
        sx, sy = 10.0 ** rng.integers(100, 140), 10.0 ** rng.integers(100, 140)
        x = np.cumsum(rng.random(n) + 0.01) * sx
        y = np.sort(rng.random(n))[::-1] * sy
        return np.column_stack((x, y)), 'huge'
    # ends on a zero plateau, mixed axis scales, unit steps at 1e-150 / 1e150
    sx, sy = rng.choice([1e-150, 1.0, 1e150]), rng.choice([1e-150, 1.0, 1e150])
    x = np.cumsum(rng.integers(1, 4, n)).astype(float) * sx
    y = np.cumsum(rng.integers(0, 3, n))[::-1].astype(float)
    y[n - rng.integers(1, n):] = 0.0
    return np.column_stack((x, y * sy)), 'zero tail, extreme scale'


def knee_list(rng, n):
    mode = rng.integers(5)
    if mode == 0:
        return np.arange(n)                               # every point, both ends included
    if mode == 1:
        return np.arange(1, n - 1)                        # every interior point
    if mode == 2:
        return np.array([rng.integers(n)])                # a single knee
    size = rng.integers(1, n + 1)
    return np.sort(rng.choice(n, size=size, replace=False))


def main():
    rng = np.random.default_rng(20261003)

    # hand written cases ------------------------------------------------------
    stairs = np.array([[0, 4], [1, 4], [2, 2], [3, 2], [4, 2], [5, 1], [6, 1], [7, 0], [8, 0]], dtype=float)
    for t in (0.0, 0.2, 1 / 3, 0.5, 0.75, 1.0):
        check('stairs', stairs, np.arange(9), t)
        check('stairs int', stairs.astype(int), np.array([1, 2, 4, 5, 7]), t)
    # IoU exactly 1: the knee sits on the corner of its neighbours' rectangle
    corner = np.array([[0., 3.], [2., 3.], [2., 1.], [4., 1.], [4., 0.]])
    for t in (0.0, 0.5, 1.0):
        check('vertical drop', corner, np.array([1, 2, 3]), t)
    # equal heights everywhere
    flat = np.column_stack((np.arange(6.), np.full(6, 2.5)))
    check('flat', flat, np.arange(6), 0.33)
    # ties with the running minimum, then a bump, then a tie again
    bumpy = np.array([[0, 5], [1, 3], [2, 3], [3, 4], [4, 3], [5, 0], [6, 2], [7, 0], [8, -0.0], [9, 1]], dtype=float)
    check('ties', bumpy, np.arange(10), 0.33)
    check('ties', bumpy, np.array([3, 4, 6, 8]), 0.9)
    # empty and singleton knee lists, smallest curves
    check('empty', stairs, np.array([], dtype=int), 0.5)
    check('three points', stairs[:3], np.array([1]), 0.5)
    check('two points', stairs[:2], np.array([0, 1]), 0.5)

    # generated cases ----------------------------------------------------------
    for i in range(400):
        n = int(rng.integers(3, 28))
        pts, what = curve(rng, n)
        knees = knee_list(rng, n)
        t = float(rng.choice([0.0, 0.1, 0.25, 0.3, 0.33, 0.5, 2 / 3, 0.9, 1.0, rng.random()]))
        check('%s #%d' % (what, i), pts, knees, t)

    if FAILURES:
        print('%d failing inputs' % len(FAILURES))
        return 1
    print('C13 holds on all generated inputs')
    return 0


if __name__ == '__main__':
    sys.exit(main())
