#!/usr/bin/env python
# Property test for C07: reduced-space indices map back to exactly the
# original indices.
#
#   For every reduction (reduced, removed) produced by any simplifier, or
#   derived by compute_removed_points from any strictly increasing index set
#   containing both endpoints, and for every ascending list I of positions in
#   the reduced curve, mapping(I, reduced, removed) equals reduced[I]; with
#   sorted=False the same holds for any row order of removed.
#   compute_removed_points reproduces the removed table returned by each
#   simplifier.
#
# Takes no arguments, exit code 0 = property holds on all generated inputs,
# exit code 1 = property violated.

import sys
import signal
import random
import itertools
import warnings

import numpy as np

signal.alarm(55)
warnings.filterwarnings('ignore')
np.seterr(all='ignore')

import kneeliverse.rdp as rdp
import kneeliverse.metrics as metrics

rng = random.Random(20260307)
nrng = np.random.default_rng(20260307)

failures = []
checked = {'subsets': 0, 'mappings': 0, 'simplifier_runs': 0, 'skipped': 0}


def fail(msg):
    failures.append(msg)
    if len(failures) <= 10:
        print('VIOLATION:', msg)


def same_ints(result, expected):
    """exact equality of two integer sequences (values, length, order)"""
    result = np.asarray(result)
    expected = np.asarray(expected)
    if result.shape != expected.shape:
        return False
    if result.size == 0:
        return True
    # integral values only
    if not np.all(result == np.floor(result)):
        return False
    return bool(np.array_equal(result, expected))


def selections(k, exhaustive):
    """ascending position lists of a reduced curve with k points"""
    if exhaustive:
        for mask in range(1 << k):
            yield [p for p in range(k) if (mask >> p) & 1]
    else:
        yield list(range(k))
        yield []
        yield [0]
        yield [k - 1]
        yield [0, k - 1]
        for _ in range(4):
            m = rng.randint(1, k)
            yield sorted(rng.sample(range(k), m))


def check_mapping(tag, reduced, removed, exhaustive=False, containers=True):
    reduced = np.asarray(reduced)
    k = len(reduced)
    m = len(removed)
    perms = []
    if m > 0:
        perms.append(np.arange(m)[::-1])
        for _ in range(2):
            perms.append(nrng.permutation(m))
        if exhaustive and m <= 4:
            perms = [np.array(p) for p in itertools.permutations(range(m))]
    for I in selections(k, exhaustive):
        expected = reduced[np.asarray(I, dtype=int)]
        variants = [np.array(I, dtype=int)]
        if containers and len(I) > 0:
            variants.append(list(I))
        for idx in variants:
            checked['mappings'] += 1
            try:
                got = rdp.mapping(idx, reduced, removed)
            except Exception as e:  # noqa
                fail(f'{tag}: mapping raised {e!r} I={I} reduced={reduced.tolist()}')
                continue
            if not same_ints(got, expected):
                fail(f'{tag}: mapping(I)={np.asarray(got).tolist()} expected {expected.tolist()} '
                     f'I={I} reduced={reduced.tolist()} removed={np.asarray(removed).tolist()}')
        idx = np.array(I, dtype=int)
        # sorted=False: the same for any row order
        for p in perms:
            shuffled = np.asarray(removed)[p]
            keep = shuffled.copy()
            checked['mappings'] += 1
            try:
                got = rdp.mapping(idx, reduced, shuffled, sorted=False)
            except Exception as e:  # noqa
                fail(f'{tag}: mapping(sorted=False) raised {e!r} I={I} reduced={reduced.tolist()}')
                continue
            if not same_ints(got, expected):
                fail(f'{tag}: mapping(sorted=False)={np.asarray(got).tolist()} expected {expected.tolist()} '
                     f'I={I} reduced={reduced.tolist()} removed={shuffled.tolist()}')
            if not np.array_equal(keep, shuffled):
                fail(f'{tag}: mapping(sorted=False) modified the removed table')
        # sorted=False on the already sorted table
        if m > 0:
            got = rdp.mapping(idx, reduced, np.asarray(removed), sorted=False)
            if not same_ints(got, expected):
                fail(f'{tag}: mapping(sorted=False, sorted table) wrong I={I}')


def expected_table(reduced):
    reduced = [int(v) for v in reduced]
    return np.array([[reduced[i], reduced[i + 1] - reduced[i] - 1] for i in range(len(reduced) - 1)])


def check_subset(tag, n, reduced, exhaustive=False, points=None):
    if points is None:
        points = np.column_stack((np.arange(n, dtype=float), nrng.random(n)))
    reduced = np.array(reduced)
    checked['subsets'] += 1
    try:
        removed = rdp.compute_removed_points(points, reduced)
    except Exception as e:  # noqa
        fail(f'{tag}: compute_removed_points raised {e!r} reduced={reduced.tolist()}')
        return
    exp = expected_table(reduced)
    if np.asarray(removed).shape != exp.shape or not np.array_equal(removed, exp):
        fail(f'{tag}: compute_removed_points={np.asarray(removed).tolist()} expected {exp.tolist()}')
        return
    check_mapping(tag, reduced, removed, exhaustive)
    # the same table in floating point (the layout rdp() returns)
    check_mapping(tag + '/float', reduced, np.asarray(removed, dtype=float), False, containers=False)


# ---------------------------------------------------------------------------
# 1. every index subset with both endpoints, every selection (small n)
# ---------------------------------------------------------------------------
for n in range(2, 8):
    inner = list(range(1, n - 1))
    for r in range(len(inner) + 1):
        for comb in itertools.combinations(inner, r):
            reduced = [0] + list(comb) + [n - 1]
            check_subset(f'exhaustive n={n}', n, reduced, exhaustive=(len(reduced) <= 6))

# ---------------------------------------------------------------------------
# 2. random subsets of larger curves (dense, sparse, runs of neighbours,
#    long gaps, int32/int64/uint index dtypes, python lists)
# ---------------------------------------------------------------------------
for trial in range(150):
    n = rng.choice([2, 3, 8, 9, 16, 33, 64, 100, 257, 1000, 5000])
    style = trial % 5
    inner = list(range(1, n - 1))
    if style == 0:
        chosen = [v for v in inner if rng.random() < 0.5]
    elif style == 1:
        chosen = [v for v in inner if rng.random() < 0.05]
    elif style == 2:
        chosen = [v for v in inner if rng.random() < 0.95]
    elif style == 3:
        # runs of neighbouring indices separated by long gaps
        chosen = []
        v = 1
        while v < n - 1:
            run = rng.randint(1, 5)
            chosen.extend(range(v, min(v + run, n - 1)))
            v += run + rng.randint(1, max(1, n // 4))
    else:
        chosen = []
    reduced = [0] + chosen + [n - 1]
    dtype = rng.choice([np.int64, np.int32, np.intp])
    pts = None
    if trial % 3 == 0:
        pts = np.column_stack((np.arange(n), nrng.integers(0, 5, n)))  # integer curve
    check_subset(f'random n={n} style={style}', n, np.array(reduced, dtype=dtype), points=pts)


# ---------------------------------------------------------------------------
# 3. the simplifiers
# ---------------------------------------------------------------------------
def curves():
    out = []
    for n in (2, 3, 4, 5, 12, 30, 60):
        x = np.arange(n, dtype=float)
        out.append(('line', np.column_stack((x, 2.0 * x + 1.0))))
        out.append(('constant', np.column_stack((x, np.full(n, 3.0)))))
        out.append(('zeros', np.column_stack((x, np.zeros(n)))))
        out.append(('decay', np.column_stack((x + 1.0, 100.0 / (x + 1.0)))))
        out.append(('exp', np.column_stack((x, np.exp(-x / max(1.0, n / 5.0))))))
        out.append(('noise', np.column_stack((x, nrng.random(n)))))
        y = np.repeat(nrng.integers(0, 4, (n + 3) // 4), 4)[:n].astype(float)
        out.append(('plateaus', np.column_stack((x, y))))
        y = np.abs(x - n // 2)
        out.append(('vee-ties', np.column_stack((x, y))))
        y = np.where(x < n / 2, x, n / 2)
        out.append(('collinear-runs', np.column_stack((x, y))))
        out.append(('integer', np.column_stack((np.arange(n), nrng.integers(0, 10, n)))))
        out.append(('tiny', np.column_stack((x * 1e-150, 1e-150 * (1.0 + nrng.random(n))))))
        out.append(('huge', np.column_stack((x * 1e150, 1e150 * (1.0 + nrng.random(n))))))
        out.append(('sawtooth', np.column_stack((x, (x % 2)))))
    return out


def simplifier_calls(points):
    n = len(points)
    yield 'rdp', lambda: rdp.rdp(points)
    yield 'rdp t=1e-12', lambda: rdp.rdp(points, t=1e-12)
    yield 'rdp perp r2', lambda: rdp.rdp(points, t=0.95, distance=rdp.Distance.perpendicular, cost=metrics.Metrics.r2)
    yield 'rdp rpd', lambda: rdp.rdp(points, t=0.001, cost=metrics.Metrics.rpd)
    yield 'rdp rmspe', lambda: rdp.rdp(points, t=0.001, cost=metrics.Metrics.rmspe)
    if n >= 3:
        yield 'rdp_fixed 3', lambda: rdp.rdp_fixed(points, 3)
        yield 'rdp_fixed 6 tri', lambda: rdp.rdp_fixed(points, 6, order=rdp.Order.triangle)
        yield 'rdp_fixed 10 area perp', lambda: rdp.rdp_fixed(points, 10, distance=rdp.Distance.perpendicular, order=rdp.Order.area)
        yield 'grdp', lambda: rdp.grdp(points)
        yield 'grdp tri r2', lambda: rdp.grdp(points, t=0.99, cost=metrics.Metrics.r2, order=rdp.Order.triangle)
        yield 'mp_grdp', lambda: rdp.mp_grdp(points, min_points=5)
        yield 'mp_grdp area', lambda: rdp.mp_grdp(points, t=0.1, min_points=8, order=rdp.Order.area)
        yield 'min_point_rdp', lambda: rdp.min_point_rdp(points, min_points=6)
    else:
        yield 'rdp_fixed 2', lambda: rdp.rdp_fixed(points, 2)


for name, points in curves():
    for label, call in simplifier_calls(points):
        tag = f'{label} on {name}[{len(points)}]'
        try:
            reduced, removed = call()
        except Exception:
            # the simplifier produced no reduction for this curve: nothing to check
            checked['skipped'] += 1
            continue
        checked['simplifier_runs'] += 1
        reduced = np.asarray(reduced)
        removed = np.asarray(removed)
        ok_structure = (len(reduced) >= 2 and reduced[0] == 0 and reduced[-1] == len(points) - 1
                        and np.all(np.diff(reduced) > 0))
        if not ok_structure:
            # not a reduction in the sense of the statement (other properties deal with that)
            checked['skipped'] += 1
            continue
        try:
            again = rdp.compute_removed_points(points, reduced)
        except Exception as e:  # noqa
            fail(f'{tag}: compute_removed_points raised {e!r}')
            continue
        if np.asarray(again).shape != removed.shape or not np.array_equal(again, removed):
            fail(f'{tag}: compute_removed_points={np.asarray(again).tolist()} but simplifier returned {removed.tolist()}')
        check_mapping(tag, reduced, removed, exhaustive=(len(reduced) <= 5), containers=False)

print('checked:', checked)
if failures:
    print(f'{len(failures)} violation(s) of C07')
    sys.exit(1)
print('C07 holds on all generated inputs')
sys.exit(0)
