#!/usr/bin/env python
"""
Property test for C03 (takes no arguments).

C03: on every curve made of exactly two straight arms meeting at an interior
corner (each arm >= 3 segments, integer x spacings in 1..4, distinct slopes
that are multiples of 1/8 in [-8, 8], exactly representable offsets) the
curvature, DFDT, Menger and L-method detectors (every fit, cost and refinement
option) return the corner index, whatever the orientation (convex, concave,
rising, falling, V-shaped); Kneedle without smoothing (t=0) does so on every
monotone elbow.

exit 0: the property held on every generated elbow
exit 1: at least one detector missed the corner (details are printed)
"""
import signal
signal.alarm(57)          # never run longer than a minute

import sys
import itertools
import random

import numpy as np

import kneeliverse.curvature as curvature
import kneeliverse.dfdt as dfdt
import kneeliverse.menger as menger
import kneeliverse.lmethod as lmethod
import kneeliverse.kneedle as kneedle


EIGHTHS = [j / 8.0 for j in range(-64, 65)]
AWKWARD_SLOPES = [0.0, 0.125, -0.125, 8.0, -8.0, 7.875, -7.875, 1.0, -1.0, 0.25, 4.0]
Y_OFFSETS = [0.0, 0.0, 1.0, -1.0, 0.5, 2.0 ** -10, -(2.0 ** -10), 3.0 * 2.0 ** -7,
             4096.0, -4096.0, 4095.875, 1000.0, 17.625]
X_OFFSETS = [0, 0, 1, 7, 100, 4096]


def make_elbow(dxs_left, dxs_right, s1, s2, x0=0, y0=0.0, dtype=float):
    """Two exact straight arms; returns (points, corner_index)."""
    dxs = list(dxs_left) + list(dxs_right)
    x = [x0]
    y = [y0]
    for k, d in enumerate(dxs):
        s = s1 if k < len(dxs_left) else s2
        x.append(x[-1] + d)
        y.append(y[-1] + s * d)       # exact: dyadic numbers of small magnitude
    pts = np.array([x, y], dtype=float).T
    if dtype is not float:
        assert np.all(pts == np.round(pts))
        pts = pts.astype(dtype)
    return np.ascontiguousarray(pts), len(dxs_left)


def detectors(points, monotone, with_refinements=True):
    """Yields (name, thunk) for every detector/option the statement names."""
    x = points[:, 0]
    y = points[:, 1]
    yield 'curvature.knee', lambda: curvature.knee(points)
    yield 'dfdt.knee', lambda: dfdt.knee(points)
    yield 'dfdt.get_knee', lambda: dfdt.get_knee(x, y)
    yield 'menger.knee', lambda: menger.knee(points)
    for fit in lmethod.Fit:
        for cost in lmethod.Cost:
            yield ('lmethod.get_knee(%s,%s)' % (fit, cost),
                   lambda fit=fit, cost=cost: lmethod.get_knee(x, y, fit, cost)[0])
        if with_refinements:
            for it in lmethod.Refinement:
                yield ('lmethod.knee(%s,%s)' % (fit, it),
                       lambda fit=fit, it=it: lmethod.knee(points, fit=fit, it=it))
    if monotone:
        yield 'kneedle.knee(t=0)', lambda: kneedle.knee(points, t=0)
        yield 'kneedle.knee(t=0.0)', lambda: kneedle.knee(points, t=0.0)


FAILURES = []
CHECKED = [0, 0]


def check(points, corner, s1, s2, label, with_refinements=True):
    monotone = (s1 * s2 >= 0)           # a flat arm counts as monotone
    CHECKED[0] += 1
    for name, thunk in detectors(points, monotone, with_refinements):
        CHECKED[1] += 1
        try:
            got = thunk()
            ok = (got is not None) and not isinstance(got, bool) and int(got) == corner
        except Exception as exc:            # an exception is a miss, too
            got = '%s: %s' % (type(exc).__name__, exc)
            ok = False
        if not ok:
            FAILURES.append('%s -> %r, corner is %d  [%s; slopes %s -> %s; n=%d; dtype=%s]'
                            % (name, got, corner, label, s1, s2, len(points), points.dtype))


def pick_slopes(rng, kind):
    while True:
        pool = AWKWARD_SLOPES if rng.random() < 0.35 else EIGHTHS
        s1 = rng.choice(pool)
        s2 = rng.choice(AWKWARD_SLOPES if rng.random() < 0.35 else EIGHTHS)
        if s1 == s2:
            continue
        if kind == 'monotone' and s1 * s2 < 0:
            continue
        if kind == 'v' and s1 * s2 >= 0:
            continue
        if kind == 'weak' and abs(s1 - s2) != 0.125:
            continue
        return s1, s2


def main():
    rng = random.Random(20261003)

    # (a) smallest curves of the domain: 3 + 3 segments, every spacing pattern next
    #     to the corner (this is what decides the weights of the finite differences)
    for d_left, d_right in itertools.product([1, 2, 3, 4], repeat=2):
        for kind in ('monotone', 'v'):
            s1, s2 = pick_slopes(rng, kind)
            pts, c = make_elbow([rng.randint(1, 4), rng.randint(1, 4), d_left],
                                [d_right, rng.randint(1, 4), rng.randint(1, 4)],
                                s1, s2, rng.choice(X_OFFSETS), rng.choice(Y_OFFSETS))
            check(pts, c, s1, s2, 'minimal %d|%d' % (d_left, d_right))

    # (b) random small and medium elbows, all orientations
    for k in range(230):
        kind = ('monotone', 'v', 'any', 'weak')[k % 4]
        s1, s2 = pick_slopes(rng, kind)
        la = rng.choice([3, 3, 4, 6, rng.randint(3, 30)])
        lb = rng.choice([3, 3, 4, 6, rng.randint(3, 30)])
        style = k % 3
        if style == 0:
            dl = [rng.randint(1, 4) for _ in range(la)]
            dr = [rng.randint(1, 4) for _ in range(lb)]
        elif style == 1:                       # evenly spaced (ties in the spacing)
            d = rng.randint(1, 4)
            dl, dr = [d] * la, [d] * lb
        else:                                  # strongest contrast of spacings
            dl = [rng.choice([1, 4]) for _ in range(la)]
            dr = [rng.choice([1, 4]) for _ in range(lb)]
        pts, c = make_elbow(dl, dr, s1, s2, rng.choice(X_OFFSETS), rng.choice(Y_OFFSETS))
        check(pts, c, s1, s2, 'random %s' % kind)

    # (c) plateaus (one flat arm), mirror images, zeros everywhere
    for s in (0.125, -0.125, 1.0, -3.5, 8.0, -8.0):
        for flat_first in (True, False):
            s1, s2 = (0.0, s) if flat_first else (s, 0.0)
            la, lb = rng.randint(3, 12), rng.randint(3, 12)
            pts, c = make_elbow([rng.randint(1, 4) for _ in range(la)],
                                [rng.randint(1, 4) for _ in range(lb)], s1, s2, 0, 0.0)
            check(pts, c, s1, s2, 'plateau')
    for s in (0.125, 1.0, 8.0, 2.625):         # symmetric V and roof through the origin
        for sign in (1, -1):
            la = rng.randint(3, 10)
            pts, c = make_elbow([2] * la, [2] * la, -sign * s, sign * s, 0, 0.0)
            check(pts, c, -sign * s, sign * s, 'symmetric')

    # (d) integer dtype (integer slopes and offsets so the curve is exact in int64)
    for k in range(30):
        while True:
            s1, s2 = float(rng.randint(-8, 8)), float(rng.randint(-8, 8))
            if s1 != s2:
                break
        la, lb = rng.randint(3, 14), rng.randint(3, 14)
        pts, c = make_elbow([rng.randint(1, 4) for _ in range(la)],
                            [rng.randint(1, 4) for _ in range(lb)], s1, s2,
                            rng.choice(X_OFFSETS), float(rng.choice([0, 1, -7, 4096, -4096])),
                            dtype=np.int64)
        check(pts, c, s1, s2, 'int64')

    # (e) very small and very large magnitudes the statement allows
    for k in range(24):
        s1, s2 = pick_slopes(rng, ('weak', 'any')[k % 2])
        la, lb = rng.randint(3, 9), rng.randint(3, 9)
        y0 = rng.choice([2.0 ** -20, -(2.0 ** -30), 4096.0, -4096.0, 4096.0 - 2.0 ** -12])
        pts, c = make_elbow([rng.randint(1, 4) for _ in range(la)],
                            [rng.randint(1, 4) for _ in range(lb)], s1, s2, rng.choice(X_OFFSETS), y0)
        check(pts, c, s1, s2, 'magnitude')

    # (f) long and strongly unbalanced arms (the quadratic L-method options are
    #     exercised without the refinements on the longest ones to stay in time)
    for la, lb in [(3, 300), (300, 3), (150, 150), (3, 1200), (1200, 3), (600, 700)]:
        for kind in ('monotone', 'v', 'weak'):
            s1, s2 = pick_slopes(rng, kind)
            pts, c = make_elbow([rng.randint(1, 4) for _ in range(la)],
                                [rng.randint(1, 4) for _ in range(lb)], s1, s2,
                                rng.choice(X_OFFSETS), rng.choice(Y_OFFSETS))
            if la + lb <= 400:
                check(pts, c, s1, s2, 'long %d+%d' % (la, lb))
            else:
                CHECKED[0] += 1
                x, y = pts[:, 0], pts[:, 1]
                todo = [('curvature.knee', lambda: curvature.knee(pts)),
                        ('dfdt.knee', lambda: dfdt.knee(pts)),
                        ('dfdt.get_knee', lambda: dfdt.get_knee(x, y)),
                        ('menger.knee', lambda: menger.knee(pts)),
                        ('lmethod.get_knee(pointfit,rmse)',
                         lambda: lmethod.get_knee(x, y, lmethod.Fit.point_fit, lmethod.Cost.rmse)[0]),
                        ('lmethod.get_knee(pointfit,rss)',
                         lambda: lmethod.get_knee(x, y, lmethod.Fit.point_fit, lmethod.Cost.rss)[0])]
                if s1 * s2 >= 0:
                    todo.append(('kneedle.knee(t=0)', lambda: kneedle.knee(pts, t=0)))
                for name, thunk in todo:
                    CHECKED[1] += 1
                    got = thunk()
                    if got is None or int(got) != c:
                        FAILURES.append('%s -> %r, corner is %d  [long %d+%d; slopes %s -> %s]'
                                        % (name, got, c, la, lb, s1, s2))

    print('%d elbows, %d detector calls, %d misses' % (CHECKED[0], CHECKED[1], len(FAILURES)))
    for line in FAILURES[:25]:
        print('MISS', line)
    return 1 if FAILURES else 0


if __name__ == '__main__':
    sys.exit(main())
