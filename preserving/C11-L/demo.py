#!/usr/bin/env python
"""C11 property test (L): every linkage must follow its stated threshold rule
on a few hundred generated layouts (integer / offset / decimal / real-valued /
negative x, float64 and int64 arrays, C and Fortran order, arbitrary y), for
round thresholds, random thresholds, exact ties (distance/range == t) and the
closest floats above / below such ties.  Results are also re-checked after
later calls were made (a returned labelling must not change afterwards).

For every returned labelling the program checks
  * one label per point, first label 0, steps of 0 or 1,
  * for every point i >= 1: a new cluster starts at i exactly when the linkage
    distance of point i to the current cluster (the run of points that carry
    the label of point i-1), divided by the x range, is >= t,
  * the number of single / complete clusters does not grow with t.

The split decision is only asserted where it is beyond any doubt:
  - single / complete: the distance is one subtraction and one division; the
    decision is evaluated BOTH in float64 (fabs(x_i - x_ref)/length >= t) and
    in exact rational arithmetic on the very same float64 values.  Only when
    both evaluations agree is the decision asserted.
  - centroid / average: exact rational arithmetic; decisions that are within a
    relative 1e-9 of the threshold are not asserted, except exact average
    linkage ties on integer grids (where float64 evaluation is exact too).
"""
import signal
import sys

signal.alarm(50)

import math
import random
from fractions import Fraction

import numpy as np
import kneeliverse.clustering as clustering

FUNCS = {'single': clustering.single_linkage,
         'complete': clustering.complete_linkage,
         'centroid': clustering.centroid_linkage,
         'average': clustering.average_linkage}


def expected_split(name, xs, start, i, t):
    """True/False when the rule is beyond doubt, None otherwise."""
    length_f = xs[-1] - xs[0]
    X = [Fraction(float(v)) for v in xs[start:i + 1]]
    T = Fraction(float(t))
    length_q = Fraction(float(xs[-1])) - Fraction(float(xs[0]))
    if name in ('single', 'complete'):
        ref = i - 1 if name == 'single' else start
        dec_f = bool(math.fabs(xs[i] - xs[ref]) / length_f >= t)
        dec_q = (Fraction(float(xs[i])) - Fraction(float(xs[ref]))) / length_q >= T
        return dec_f if dec_f == dec_q else None
    members, xi = X[:-1], X[-1]
    if name == 'centroid':
        d = abs(xi - sum(members) / len(members))
    else:
        d = sum(abs(xi - m) for m in members) / len(members)
    d = d / length_q
    if name == 'average' and d == T and all(float(v).is_integer() and abs(v) < 2.0**40
                                             for v in xs):
        # exact tie on an integer grid: the sum of the distances is exact in
        # float64 and the single division yields exactly t
        return True
    if abs(d - T) <= T * Fraction(1, 10**9):
        return None
    return d >= T


HELD = []


def make_points(xs, variant):
    n = len(xs)
    ys = np.array([((7 * k) % 11) * 0.5 for k in range(n)])
    if variant == 'int' and all(float(v).is_integer() for v in xs):
        return np.column_stack([np.asarray(xs).astype(np.int64), np.arange(n)[::-1]])
    pts = np.column_stack([np.asarray(xs, dtype=float), ys])
    if variant == 'fortran':
        pts = np.asfortranarray(pts)
    return pts


def check(name, xs, t, failures, variant='plain'):
    pts = make_points(xs, variant)
    before = pts.copy()
    raw = FUNCS[name](pts, t)
    if not np.array_equal(pts, before):
        failures.append('%s_linkage modified its input' % name)
    HELD.append((name, raw, np.array(raw, copy=True)))
    labels = [int(v) for v in np.asarray(raw).tolist()]
    tag = '%s_linkage x=%s t=%r' % (name, np.asarray(xs).tolist() if len(xs) <= 12
                                    else '[%d pts %r..%r]' % (len(xs), xs[0], xs[-1]), t)
    if len(labels) != len(xs):
        failures.append('%s: %d labels for %d points' % (tag, len(labels), len(xs)))
        return None
    if labels[0] != 0:
        failures.append('%s: first label is %d' % (tag, labels[0]))
        return None
    start = 0
    for i in range(1, len(xs)):
        step = labels[i] - labels[i - 1]
        if step not in (0, 1):
            failures.append('%s: labels step by %d at point %d' % (tag, step, i))
            return None
        want = expected_split(name, xs, start, i, t)
        if want is not None and want != (step == 1):
            ref = xs[i - 1] if name == 'single' else xs[start]
            failures.append(
                '%s: point %d (x=%r) %s although its normalised %s distance to the '
                'current cluster (starts at point %d, x=%r) is %s t; labels=%s'
                % (tag, i, xs[i], 'starts a new cluster' if step == 1 else 'is merged',
                   name, start, xs[start], '>=' if want else '<',
                   labels if len(labels) <= 40 else labels[:40] + ['...']))
            return labels[-1] + 1
        if step == 1:
            start = i
    return labels[-1] + 1


def tie_thresholds(xs, rng, k):
    """Thresholds sitting exactly on / one float above / one float below the
    normalised distance between two of the points."""
    out = []
    length = xs[-1] - xs[0]
    for _ in range(k):
        i = rng.randint(1, len(xs) - 1)
        s = rng.randint(0, i - 1)
        tie = float((xs[i] - xs[s]) / length)
        out += [tie, float(np.nextafter(tie, 2.0)), float(np.nextafter(tie, 0.0))]
        # mean distance of point i to the points s..i-1 (average linkage tie)
        out.append(float(sum(xs[i] - v for v in xs[s:i]) / ((i - s) * length)))
    return out


failures = []
rng = random.Random(611)

# hand-made layouts -----------------------------------------------------------
LAYOUTS = [
    [1.0, 2.0, 3.0, 7.0, 8.0, 9.0],
    [1.0, 2.0, 5.0, 8.0, 9.0],
    [float(v) for v in range(31)],                      # 0..30, ties at k/30
    [100.0 + v for v in range(31)],
    [round(0.1 * v, 1) for v in range(1, 25)],          # decimal grid
    [0.0, 0.5, 1.5, 2.0, 4.0, 4.5, 7.0, 8.0],           # dyadic grid
]
for n in (6, 12, 25, 40):
    for kind in ('int', 'offset', 'decimal', 'real'):
        for _ in range(3):
            if kind == 'int':
                xs = np.cumsum([rng.randint(1, 5) for _ in range(n)]).astype(float)
                xs = xs - xs[0]
            elif kind == 'offset':
                xs = np.cumsum([rng.randint(1, 5) for _ in range(n)]).astype(float) \
                    + rng.randint(1, 1000)
            elif kind == 'decimal':
                xs = np.array([round(v, 1) for v in
                               np.cumsum([rng.randint(1, 9) / 10 for _ in range(n)])])
            else:
                xs = np.cumsum([rng.uniform(0.1, 5.0) for _ in range(n)])
            LAYOUTS.append([float(v) for v in xs])

for n in (2, 3, 60, 120):
    for _ in range(3):
        LAYOUTS.append([float(v) for v in np.cumsum([rng.uniform(0.01, 3.0) for _ in range(n)])
                        - rng.uniform(0, n)])
LAYOUTS.append([float(v) for v in np.cumsum([rng.choice([0.25, 0.5, 1.0, 4.0])
                                             for _ in range(400)])])

checked = 0
for number, xs in enumerate(LAYOUTS):
    variant = ('plain', 'int', 'fortran')[number % 3]
    ts = [0.01, 0.05, 0.1, 0.125, 0.2, 0.25, 0.3, 0.5, 0.7, 1.0, 1.5]
    ts += [rng.uniform(0.002, 1.0) for _ in range(4)]
    ts += tie_thresholds(xs, rng, 2 if len(xs) > 200 else 6)
    if len(xs) > 200:
        ts = ts[::3]
    ts = sorted(set(t for t in ts if t > 0))
    for name in FUNCS:
        counts = []
        for t in ts:
            counts.append(check(name, xs, t, failures, variant))
            checked += 1
        if name in ('single', 'complete') and None not in counts:
            for (t0, c0), (t1, c1) in zip(zip(ts, counts), zip(ts[1:], counts[1:])):
                if c1 > c0:
                    failures.append('%s_linkage: %d clusters at t=%r but %d at the larger '
                                    't=%r (x starts %r)' % (name, c0, t0, c1, t1, xs[:5]))

for name, raw, snapshot in HELD:
    if not np.array_equal(np.asarray(raw), snapshot):
        failures.append('%s_linkage: a returned labelling changed after later calls' % name)
        break

if failures:
    print('C11 VIOLATED: %d problem(s) in %d labellings; first ones:' % (len(failures), checked))
    for f in failures[:8]:
        print(' -', f)
    sys.exit(1)
print('C11 holds on %d labellings of %d layouts' % (checked, len(LAYOUTS)))
sys.exit(0)
