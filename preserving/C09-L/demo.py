#!/usr/bin/env python
"""
Property test for C09: each single-knee detector returns the interior optimum
of its stated criterion (curvature, DFDT, Menger, L-method), and the L-method
refinement terminates for every refinement option.

Every criterion is recomputed here with an independent reference
implementation and compared with a small tolerance, so that last-bit
differences never matter.

Exit status: 0 = property holds on all generated inputs, 1 = violation found
(or the library hung / raised).  Takes no arguments.
"""
import math
import signal
import sys
import warnings

import numpy as np

warnings.simplefilter('ignore')


def _timeout(signum, frame):
    print('VIOLATION: library call did not terminate (timeout)')
    sys.stdout.flush()
    sys.exit(1)


signal.signal(signal.SIGALRM, _timeout)
signal.alarm(55)

import kneeliverse.curvature as curvature  # noqa: E402
import kneeliverse.dfdt as dfdt  # noqa: E402
import kneeliverse.menger as menger  # noqa: E402
import kneeliverse.lmethod as lmethod  # noqa: E402
from kneeliverse.lmethod import Fit, Cost, Refinement  # noqa: E402

failures = []


def fail(msg):
    failures.append(msg)
    if len(failures) <= 10:
        print('VIOLATION:', msg)


# --------------------------------------------------------------------------
# generators (strictly increasing finite x, y >= 0)
# --------------------------------------------------------------------------
def two_lines(n, k, uneven, rng):
    """exact two-segment curve with the bend at index k"""
    if uneven:
        x = np.cumsum(rng.uniform(0.5, 2.0, n))
    else:
        x = np.arange(n, dtype=float)
    s1, s2 = rng.choice([(-0.1, -7.0), (-6.0, -0.2), (-3.0, -0.5), (-0.5, -4.0)])
    y = np.where(np.arange(n) <= k, s1 * (x - x[k]), s2 * (x - x[k]))
    y = y - y.min() + 1.0
    return x, y


def curves(rng):
    out = []
    # bends at every admissible position of small and medium curves
    for n in (5, 6, 7, 8, 11, 16, 31):
        for k in range(1, n - 1):
            for uneven in (False, True):
                out.append(two_lines(n, k, uneven, rng))
    for n in (120, 300):
        for k in (2, 3, n // 3, n - 4, n - 3):
            out.append(two_lines(n, k, True, rng))
    # random monotone / noisy / integer / plateau curves
    for _ in range(400):
        n = int(rng.integers(3, 60))
        kind = rng.integers(0, 6)
        if kind == 0:
            x = np.cumsum(rng.uniform(0.1, 2.0, n))
            y = np.sort(rng.uniform(0, 10, n))[::-1].copy()
        elif kind == 1:
            x = np.arange(1, n + 1, dtype=float)
            y = 10.0 / x + rng.normal(0, 0.05, n)
            y = y - min(0.0, y.min())
        elif kind == 2:
            x = np.cumsum(rng.integers(1, 4, n)).astype(float)
            y = rng.integers(0, 20, n).astype(float)
        elif kind == 5:
            # decimal grid with few distinct levels: many exactly tied optima
            x = 0.1 * np.arange(n) + 0.3
            y = rng.integers(0, 3, n).astype(float)
        elif kind == 3:
            x = np.cumsum(rng.uniform(0.1, 2.0, n))
            y = np.repeat(rng.uniform(0, 10, n), 3)[:n]  # plateaus
            y = np.sort(y)[::-1].copy()
        else:
            x = np.cumsum(rng.uniform(0.1, 2.0, n))
            y = rng.uniform(0, 10, n)
        if np.ptp(y) == 0:
            continue
        out.append((x, y))
    return out


# --------------------------------------------------------------------------
# independent reference criteria
# --------------------------------------------------------------------------
def ref_derivatives(x, y):
    """three point (parabola) derivatives at the interior points 1..n-2"""
    s = np.diff(y) / np.diff(x)
    f012 = (s[1:] - s[:-1]) / (x[2:] - x[:-2])
    d1 = s[:-1] + f012 * (x[1:-1] - x[:-2])
    d2 = 2.0 * f012
    return d1, d2


def ref_curvature(x, y):
    d1, d2 = ref_derivatives(x, y)
    return np.abs(d2) / (1.0 + d1 * d1) ** 1.5


def ref_menger(x, y):
    out = []
    for i in range(1, len(x) - 1):
        a = math.hypot(x[i] - x[i - 1], y[i] - y[i - 1])
        b = math.hypot(x[i + 1] - x[i], y[i + 1] - y[i])
        c = math.hypot(x[i + 1] - x[i - 1], y[i + 1] - y[i - 1])
        area = 0.5 * abs((x[i] - x[i - 1]) * (y[i + 1] - y[i - 1])
                         - (x[i + 1] - x[i - 1]) * (y[i] - y[i - 1]))
        out.append(4.0 * area / (a * b * c))
    return np.array(out)


def check_max(name, k, crit, x):
    """k must be an interior index maximising crit (crit[j] belongs to index j+1)"""
    n = len(x)
    if not (1 <= k <= n - 2):
        fail('%s returned non-interior index %s (n=%d)' % (name, k, n))
        return
    best = crit.max()
    tol = 1e-7 * best + 1e-11
    if crit[k - 1] < best - tol:
        fail('%s returned %d (criterion %.6g) but index %d has %.6g (n=%d)'
             % (name, k, crit[k - 1], int(np.argmax(crit)) + 1, best, n))


def ref_full_gradient(x, y):
    d1, _ = ref_derivatives(x, y)
    s = np.diff(y) / np.diff(x)
    f0 = (s[1] - s[0]) / (x[2] - x[0])
    f1 = (s[-1] - s[-2]) / (x[-1] - x[-3])
    first = s[0] - f0 * (x[1] - x[0])
    last = s[-1] + f1 * (x[-1] - x[-2])
    return np.concatenate(([first], d1, [last]))


def ref_isodata(a, eps=1e-6, max_iter=100):
    t = float(np.mean(a))
    for _ in range(max_iter):
        lo = a[a <= t]
        hi = a[a > t]
        if len(lo) == 0 or len(hi) == 0:
            break
        nt = (lo.mean() + hi.mean()) / 2.0
        if abs(nt - t) < eps:
            t = nt
            break
        t = nt
    return t


def ref_dfdt(x, y):
    """returns (knee, ambiguous)"""
    g = ref_full_gradient(x, y)
    knee = cutoff = 0
    last = -1
    while last < knee and len(x) - cutoff > 2:
        last = knee
        tail = g[cutoff:]
        t = ref_isodata(tail)
        d = np.abs(tail - t)[1:-1]
        order = np.sort(d)
        scale = np.abs(tail).max() + 1e-300
        if len(order) > 1 and order[1] - order[0] <= 1e-9 * scale:
            return None, True
        # an element sitting (numerically) on a threshold makes ISODATA unstable
        if np.min(np.abs(tail - np.mean(tail))) <= 1e-9 * scale:
            return None, True
        knee = int(np.argmin(d)) + 1 + cutoff
        cutoff = int(math.ceil(knee / 2.0))
    return knee, False


def seg_rss(x, y, fit):
    if fit is Fit.best_fit:
        xc = x - x.mean()
        sxx = float(np.dot(xc, xc))
        m = float(np.dot(xc, y - y.mean())) / sxx
        r = (y - y.mean()) - m * xc
    else:
        m = (y[-1] - y[0]) / (x[-1] - x[0])
        r = y - (y[0] + m * (x - x[0]))
    return float(np.dot(r, r))


def ref_lmethod_errors(x, y, fit, cost):
    """errors of the split points 2..n-3 (entry j belongs to split j+2)"""
    n = len(x)
    length = x[-1] - x[0]
    out = []
    for i in range(2, n - 2):
        wl = (x[i] - x[0]) / length
        wr = (x[-1] - x[i]) / length
        rl = seg_rss(x[:i + 1], y[:i + 1], fit)
        rr = seg_rss(x[i:], y[i:], fit)
        if cost is Cost.rmse:
            out.append(wl * math.sqrt(rl * wl) + wr * math.sqrt(rr * wr))
        else:
            out.append(wl * rl + wr * rr)
    return np.array(out)


def is_minimiser(k, err, y, cost):
    """split k attains the minimum of err, up to rounding noise of the fits"""
    if not (2 <= k <= len(err) + 1):
        return False
    floor = 1e-22 * float(np.max(np.abs(y))) ** 2 * len(y)  # noise of an exact fit (RSS)
    if cost is Cost.rmse:
        floor = math.sqrt(floor)
    tol = 1e-7 * err.min() + floor
    return err[k - 2] <= err.min() + tol


# --------------------------------------------------------------------------
def main():
    rng = np.random.default_rng(20240906)
    all_curves = curves(rng)
    n_checked = 0
    for x, y in all_curves:
        n = len(x)
        points = np.stack((x, y), axis=1)

        # curvature
        check_max('curvature.knee', int(curvature.knee(points.copy())), ref_curvature(x, y), x)

        # menger (a completely straight curve has no maximum: skipped)
        mc = ref_menger(x, y)
        if mc.max() > 1e-9:
            check_max('menger.knee', int(menger.knee(points.copy())), mc, x)

        # dfdt
        k = int(dfdt.knee(points.copy()))
        if not (1 <= k <= n - 2):
            fail('dfdt.knee returned non-interior index %d (n=%d)' % (k, n))
        else:
            rk, ambiguous = ref_dfdt(x, y)
            if not ambiguous and rk != k:
                fail('dfdt.knee returned %d, reference refinement gives %d (n=%d)' % (k, rk, n))

        # L-method
        if n >= 5:
            for fit in (Fit.point_fit, Fit.best_fit):
                for cost in (Cost.rmse, Cost.rss):
                    err = ref_lmethod_errors(x, y, fit, cost)
                    k = int(lmethod.get_knee(x.copy(), y.copy(), fit, cost)[0])
                    if not is_minimiser(k, err, y, cost):
                        fail('lmethod.get_knee(%s,%s) returned split %d (error %.6g) but split %d has error %.6g (n=%d)'
                             % (fit, cost, k, err[k - 2] if 2 <= k <= n - 3 else float('nan'),
                                int(np.argmin(err)) + 2, err.min(), n))
                # knee() without refinement is the plain optimum (RMSE cost)
                err = ref_lmethod_errors(x, y, fit, Cost.rmse)
                k = int(lmethod.knee(points.copy(), fit=fit, it=Refinement.none))
                if not is_minimiser(k, err, y, Cost.rmse):
                    fail('lmethod.knee(%s, none) returned %d, optimum is %d (n=%d)'
                         % (fit, k, int(np.argmin(err)) + 2, n))
                # refinement terminates (alarm) and returns an interior index that is
                # the optimum of the prefix curve it was last fitted on
                if n <= 40:
                    for it in (Refinement.original, Refinement.adjusted):
                        for limit in (4, 10, 25):
                            k = int(lmethod.knee(points.copy(), fit=fit, it=it, limit=limit))
                            if not (1 <= k <= n - 2):
                                fail('lmethod.knee(%s,%s,limit=%d) returned non-interior %d (n=%d)'
                                     % (fit, it, limit, k, n))
                                continue
                            ok = False
                            for c in range(max(4, k + 2), n + 1):
                                xe, ye = x[:c + 1], y[:c + 1]
                                if len(xe) < 5:
                                    continue
                                if is_minimiser(k, ref_lmethod_errors(xe, ye, fit, Cost.rmse), ye, Cost.rmse):
                                    ok = True
                                    break
                            if not ok:
                                fail('lmethod.knee(%s,%s,limit=%d) returned %d which is not the '
                                     'optimal split of any prefix of the curve (n=%d)' % (fit, it, limit, k, n))
        n_checked += 1

    signal.alarm(0)
    print('%d curves checked, %d violations' % (n_checked, len(failures)))
    return 1 if failures else 0


if __name__ == '__main__':
    try:
        rc = main()
    except SystemExit:
        raise
    except BaseException as e:  # the library must not raise on valid input
        print('VIOLATION: exception %r' % (e,))
        rc = 1
    sys.exit(rc)
