#!/usr/bin/env python
# coding: utf-8
"""
Property test for C16 (kneeliverse.metrics / kneeliverse.linear_fit):

  r2, rmse, rmsle, rmspe, rpd, smape and residuals equal their textbook
  formulas (including the eps guard) to within floating-point rounding;
  rmse, smape and residuals are symmetric, every error metric is >= 0 and
  vanishes when y == y_hat, smape <= 2 and R2 <= 1.  The linear-fit wrappers
  equal the same metrics applied to m*x + b, the endpoint fit passes through
  the first and the last point and the best-fit R2 equals the squared Pearson
  correlation (adjusted variants apply the (n-1)/(n-2) correction).

The reference values are computed with 60-digit decimal arithmetic from the
exact binary values of the inputs.  Tolerances are forward error bounds of a
straightforward floating-point evaluation (any summation order), i.e. they
grow with the conditioning of the quantity (cancellation in log(y+1)-log(yh+1),
in y-mean(y), in x-mean(x)); nothing is compared bit for bit.

Takes no arguments; exit status 0 = property holds, 1 = violated.
"""
import math
import signal
import sys
import warnings
from decimal import Decimal, getcontext

import numpy as np

signal.alarm(55)
warnings.simplefilter('ignore')
getcontext().prec = 60
getcontext().Emax = 999999
getcontext().Emin = -999999

import kneeliverse.metrics as metrics
import kneeliverse.linear_fit as lf

U = 2.0 ** -53
EPS = 1e-16
FAIL = []


def fail(msg):
    FAIL.append(msg)
    if len(FAIL) <= 25:
        print('VIOLATION:', msg)


def D(v):
    return Decimal(float(v))


def dvec(a):
    return [D(v) for v in a]


def close(got, ref, rtol, atol=0.0):
    got = float(got)
    ref = float(ref)
    if math.isnan(got) or math.isinf(got):
        return False
    return abs(got - ref) <= rtol * abs(ref) + atol


def dsqrt(v):
    return v.sqrt() if v > 0 else Decimal(0)


# --------------------------------------------------------------------------
# textbook formulas, 60 digits
# --------------------------------------------------------------------------
def ref_residuals(y, yh):
    return sum((a - b) ** 2 for a, b in zip(y, yh))


def ref_rmse(y, yh):
    return dsqrt(ref_residuals(y, yh) / len(y))


def ref_rmsle(y, yh):
    e = [(a + 1).ln() - (b + 1).ln() for a, b in zip(y, yh)]
    return dsqrt(sum(v * v for v in e) / len(y))


def ref_rmspe(y, yh, eps):
    e = [((a - b) / (a + eps)) ** 2 for a, b in zip(y, yh)]
    return dsqrt(sum(e) / len(y))


def ref_rpd(y, yh, eps):
    e = [abs(a - b) / (max(a, b) + eps) for a, b in zip(y, yh)]
    return sum(e) / len(y)


def ref_smape(y, yh, eps):
    e = [2 * abs(b - a) / (abs(a) + abs(b) + eps) for a, b in zip(y, yh)]
    return sum(e) / len(y)


# --------------------------------------------------------------------------
# checks of the plain metrics
# --------------------------------------------------------------------------
def check_metrics(tag, y, yh, nonneg, eps_list=(EPS,)):
    n = len(y)
    rt = 8.0 * (n + 10) * U
    dy, dyh = dvec(y), dvec(yh)
    amax = max(float(np.max(np.abs(y.astype(float)))), float(np.max(np.abs(yh.astype(float)))))

    # residuals / rmse (defined for all reals)
    r_ref = ref_residuals(dy, dyh)
    got = metrics.residuals(y, yh)
    if not close(got, r_ref, rt, 1e-300):
        fail('%s residuals %r != %r' % (tag, got, float(r_ref)))
    got2 = metrics.residuals(yh, y)
    if not close(got2, got, rt, 1e-300):
        fail('%s residuals not symmetric %r %r' % (tag, got, got2))
    if not got >= 0:
        fail('%s residuals < 0' % tag)

    got = metrics.rmse(y, yh)
    if not close(got, ref_rmse(dy, dyh), rt, 1e-150):
        fail('%s rmse %r != %r' % (tag, got, float(ref_rmse(dy, dyh))))
    got2 = metrics.rmse(yh, y)
    if not close(got2, got, rt, 1e-150):
        fail('%s rmse not symmetric %r %r' % (tag, got, got2))
    if not got >= 0:
        fail('%s rmse < 0' % tag)

    # smape (all reals)
    for eps in eps_list:
        s_ref = ref_smape(dy, dyh, D(eps))
        got = metrics.smape(y, yh, eps)
        if not close(got, s_ref, rt, 1e-300):
            fail('%s smape(eps=%g) %r != %r' % (tag, eps, got, float(s_ref)))
        got2 = metrics.smape(yh, y, eps)
        if not close(got2, got, rt, 1e-300):
            fail('%s smape not symmetric %r %r' % (tag, got, got2))
        if not (0 <= got <= 2.0 * (1 + 4 * U)):
            fail('%s smape outside [0, 2]: %r' % (tag, got))

    # r2 classic and adjusted (all reals)
    check_r2(tag, y, yh, dy, dyh)

    if not nonneg:
        return

    # rmsle: conditioning aware (norm triangle inequality on the per sample
    # log differences; forming y+1 costs one rounding = absolute error U in the log)
    l1 = [(a + 1).ln() for a in dy]
    l2 = [(b + 1).ln() for b in dyh]
    delta = [8.0 * U * (2.0 + float(abs(a)) + float(abs(b))) for a, b in zip(l1, l2)]
    atol = math.sqrt(sum(d * d for d in delta) / n)
    ref = ref_rmsle(dy, dyh)
    got = metrics.rmsle(y, yh)
    if not close(got, ref, rt, atol):
        fail('%s rmsle %r != %r (atol %g)' % (tag, got, float(ref), atol))
    if not got >= 0:
        fail('%s rmsle < 0' % tag)

    for eps in eps_list:
        de = D(eps)
        ref = ref_rmspe(dy, dyh, de)
        if ref < Decimal('1e140'):
            got = metrics.rmspe(y, yh, eps)
            if not close(got, ref, rt, 1e-150):
                fail('%s rmspe(eps=%g) %r != %r' % (tag, eps, got, float(ref)))
            if not got >= 0:
                fail('%s rmspe < 0' % tag)
        ref = ref_rpd(dy, dyh, de)
        got = metrics.rpd(y, yh, eps)
        if not close(got, ref, rt, 1e-300):
            fail('%s rpd(eps=%g) %r != %r' % (tag, eps, got, float(ref)))
        if not got >= 0:
            fail('%s rpd < 0' % tag)


def r2_interval(dy, dyh, amax_y):
    """Interval that has to contain q = RSS/TSS of any rounding-level-correct evaluation."""
    n = len(dy)
    mean = sum(dy) / n
    rss = sum((a - b) ** 2 for a, b in zip(dy, dyh))
    tss = sum((a - mean) ** 2 for a in dy)
    rel = 8.0 * (n + 10) * U
    # each centred value carries an absolute error of a few (n+4) U max|y|
    d = math.sqrt(n) * 4.0 * (n + 4) * U * amax_y
    st = float(dsqrt(tss))
    lo = max(st - d, 0.0) ** 2 * (1 - rel)
    hi = (st + d) ** 2 * (1 + rel)
    return float(rss), float(tss), lo, hi, rel


def check_r2(tag, y, yh, dy, dyh, fun=None):
    """fun(variant) -> value; defaults to metrics.r2(y, yh, variant)."""
    n = len(y)
    if fun is None:
        fun = lambda var: metrics.r2(y, yh, var)
    amax_y = float(np.max(np.abs(y.astype(float))))
    rss, tss, lo, hi, rel = r2_interval(dy, dyh, amax_y)
    variants = [(metrics.R2.classic, 1.0)]
    if n >= 3:
        variants.append((metrics.R2.adjusted, (n - 1.0) / (n - 2.0)))
    for var, f in variants:
        got = float(fun(var))
        if math.isnan(got):
            fail('%s r2 %s is nan' % (tag, var))
            continue
        if var is metrics.R2.classic and not got <= 1.0:
            fail('%s r2 > 1: %r' % (tag, got))
        if rss > 1e290:
            continue
        if tss == 0.0:
            # degenerate branch: 1 - RSS is expected (when the computed mean is exact)
            # (the mean is exact in any summation order iff every multiple k*c is a float)
            if all(D(float(y[0]) * k) == D(y[0]) * k for k in range(1, n + 1)):
                ref = 1.0 - rss * f
                if not close(got, ref, 4 * rel, 16 * U * (1 + f) * (1 + rss * f)):
                    fail('%s r2 %s (constant y) %r != %r' % (tag, var, got, ref))
            continue
        if lo <= 0.0 or lo < 1e-290 or hi > 1e290:
            continue  # TSS is rounding noise (or out of range): nothing to compare with
        q_lo = rss * (1 - rel) / hi
        q_hi = rss * (1 + rel) / lo
        slack = 16 * U * (1 + f) * (1 + q_hi * f)
        if not (1 - q_hi * f - slack <= got <= 1 - q_lo * f + slack):
            fail('%s r2 %s %r outside [%r, %r]' % (tag, var, got, 1 - q_hi * f, 1 - q_lo * f))


def check_vanish(tag, y, nonneg):
    yy = y.copy()
    for name in ('rmse', 'residuals', 'smape'):
        got = getattr(metrics, name)(y, yy)
        if got != 0:
            fail('%s %s(y, y) = %r' % (tag, name, got))
    got = metrics.r2(y, yy)
    if got != 1.0:
        fail('%s r2(y, y) = %r' % (tag, got))
    if nonneg:
        for name in ('rmsle', 'rmspe', 'rpd'):
            got = getattr(metrics, name)(y, yy)
            if got != 0:
                fail('%s %s(y, y) = %r' % (tag, name, got))


# --------------------------------------------------------------------------
# linear fit helpers
# --------------------------------------------------------------------------
def check_wrappers(tag, x, y, coef, nonneg):
    b, m = coef
    yh = x * m + b
    pts = np.column_stack((x.astype(float), y.astype(float)))
    pairs = [('rmse', lf.rmse, lf.rmse_points, metrics.rmse),
             ('residuals', lf.linear_residuals, lf.linear_residuals_points, metrics.residuals),
             ('smape', lf.smape, lf.smape_points, metrics.smape)]
    if nonneg and np.all(yh >= 0):
        pairs += [('rmsle', lf.rmsle, lf.rmsle_points, metrics.rmsle),
                  ('rpd', lf.rpd, lf.rpd_points, metrics.rpd)]
        if float(metrics.rmspe(y, yh)) < 1e140:
            pairs.append(('rmspe', lf.rmspe, lf.rmspe_points, metrics.rmspe))
    for name, f, fp, g in pairs:
        ref = float(g(y, yh))
        got = float(f(x, y, coef))
        gotp = float(fp(pts, coef))
        if not close(got, ref, 1e-12, 1e-300) or not close(gotp, ref, 1e-12, 1e-300):
            fail('%s wrapper %s: %r / %r != %r' % (tag, name, got, gotp, ref))
    yf, yhf = y.astype(float), np.asarray(yh, dtype=float)
    dy, dyh = dvec(yf), dvec(yhf)
    check_r2(tag + ' wrapper linear_r2', yf, yhf, dy, dyh, lambda var: lf.linear_r2(x, y, coef, var))
    check_r2(tag + ' wrapper linear_r2_points', yf, yhf, dy, dyh, lambda var: lf.linear_r2_points(pts, coef, var))


def check_endpoint_fit(tag, x, y):
    pts = np.column_stack((x.astype(float), y.astype(float)))
    for b, m in (lf.linear_fit(x, y), lf.linear_fit_points(pts)):
        x0, xn, y0, yn = float(x[0]), float(x[-1]), float(y[0]), float(y[-1])
        if x0 == xn:
            if (b, m) != (0, 0):
                fail('%s degenerate endpoint fit %r' % (tag, (b, m)))
            continue
        b, m = float(b), float(m)
        scale = abs(m * x0) + abs(m * xn) + abs(y0) + abs(yn)
        tol = 16 * U * scale + 1e-300
        # exact evaluation of the returned line at the two anchors
        e0 = abs(float(D(m) * D(x0) + D(b) - D(y0)))
        en = abs(float(D(m) * D(xn) + D(b) - D(yn)))
        if not (e0 <= tol and en <= tol):
            fail('%s endpoint fit misses anchors: %g %g (tol %g)' % (tag, e0, en, tol))
        # and the slope is the slope of the chord
        mref = (D(y0) - D(yn)) / (D(x0) - D(xn))
        if not close(m, mref, 8 * U, 1e-300):
            fail('%s endpoint slope %r != %r' % (tag, m, float(mref)))
    coef = lf.linear_fit(x, y)
    yh = x * coef[1] + coef[0]
    ref = float(metrics.residuals(y, yh))
    for got in (lf.linear_fit_residuals(x, y), lf.linear_fit_residuals_points(pts)):
        if not close(got, ref, 1e-12, 1e-300):
            fail('%s linear_fit_residuals %r != %r' % (tag, got, ref))


def check_best_fit_r2(tag, x, y):
    n = len(x)
    pts = np.column_stack((x.astype(float), y.astype(float)))
    if n <= 2:
        if lf.r2(x, y) != 1.0 or lf.r2_points(pts) != 1.0:
            fail('%s best fit r2 of <= 2 points != 1' % tag)
        return
    dx, dy = dvec(x), dvec(y)
    mx, my = sum(dx) / n, sum(dy) / n
    sxx = sum((a - mx) ** 2 for a in dx)
    syy = sum((a - my) ** 2 for a in dy)
    sxy = sum((a - mx) * (b - my) for a, b in zip(dx, dy))
    got_c = float(lf.r2(x, y))
    got_a = float(lf.r2(x, y, metrics.R2.adjusted))
    got_p = float(lf.r2_points(pts))
    if sxx == 0 or syy == 0:
        return  # Pearson correlation undefined (the call must just not raise)
    r = float(sxy / (dsqrt(sxx) * dsqrt(syy)))
    ref = r * r
    ax = float(np.max(np.abs(x.astype(float))))
    ay = float(np.max(np.abs(y.astype(float))))
    # relative size of the centring error with respect to the centred vectors
    px = math.sqrt(n) * 4.0 * (n + 4) * U * ax / float(dsqrt(sxx))
    py = math.sqrt(n) * 4.0 * (n + 4) * U * ay / float(dsqrt(syy))
    p = px + py
    if p > 1e-2:
        return  # the spread of x or y is rounding noise: correlation meaningless
    tol = 2 * abs(r) * p + p * p + 16.0 * (n + 10) * U
    f = (n - 1.0) / (n - 2.0)
    for got in (got_c, got_p):
        if math.isnan(got) or abs(got - ref) > tol:
            fail('%s best fit r2 %r != %r (tol %g)' % (tag, got, ref, tol))
        if not (0.0 <= got <= 1.0):
            fail('%s best fit r2 outside [0, 1]: %r' % (tag, got))
    ref_a = 1.0 - (1.0 - ref) * f
    if math.isnan(got_a) or abs(got_a - ref_a) > tol * f + 8 * U * (1 + f):
        fail('%s adjusted best fit r2 %r != %r' % (tag, got_a, ref_a))
    # the best fit R2 is the R2 of the least squares line
    if p < 1e-9:
        m = float(sxy / sxx)
        b = float(my - sxy / sxx * mx)
        yh = x * m + b
        cond = float(np.max(np.abs(yh))) / float(dsqrt(syy)) * U * 64 * n + 1e-9
        r2_line = float(metrics.r2(y.astype(float), yh))
        if abs(r2_line - got_c) > cond + tol:
            fail('%s best fit r2 %r != r2 of the lsq line %r' % (tag, got_c, r2_line))


# --------------------------------------------------------------------------
# generators
# --------------------------------------------------------------------------
SCALES = [1.0, 1.0, 1.0, 1e-3, 1e3, 1e-8, 1e8, 1e-100, 1e100, 1e-150, 1e150]


def gen_vector(rng, n, kind, scale, nonneg):
    if kind == 0:
        v = rng.uniform(0, 1, n)
    elif kind == 1:
        v = np.abs(rng.normal(0, 1, n))
    elif kind == 2:   # ties: few distinct values
        v = rng.choice(rng.uniform(0, 1, 3), n)
    elif kind == 3:   # plateaus
        v = np.repeat(rng.uniform(0, 1, n), rng.integers(1, 5, n))[:n]
    elif kind == 4:   # zeros sprinkled in
        v = rng.uniform(0, 1, n) * (rng.uniform(0, 1, n) < 0.6)
    elif kind == 5:   # collinear run (decreasing, knee like)
        v = np.linspace(1.0, 0.0, n) if n > 1 else np.array([1.0])
    elif kind == 6:   # constant
        v = np.full(n, float(rng.integers(0, 9)))
    else:             # convex decreasing curve
        v = 1.0 / (1.0 + np.arange(n, dtype=float))
    v = v * scale
    if not nonneg:
        v = v * rng.choice([-1.0, 1.0], n)
    return v


def main():
    rng = np.random.default_rng(160716)
    ncase = 0
    for it in range(260):
        n = int(rng.choice([1, 2, 3, 4, 5, 8, 16, 33, 64]))
        scale = float(rng.choice(SCALES))
        nonneg = bool(it % 4 != 3)
        y = gen_vector(rng, n, int(rng.integers(0, 8)), scale, nonneg)
        mode = it % 5
        if mode == 0:
            yh = gen_vector(rng, n, int(rng.integers(0, 8)), scale, nonneg)
        elif mode == 1:   # prediction close to the truth (cancellation)
            yh = y * (1.0 + rng.normal(0, 1e-9, n))
        elif mode == 2:   # prediction off by an order of magnitude
            yh = y * rng.uniform(0.1, 10.0, n)
        elif mode == 3:
            yh = y.copy()
            yh[rng.integers(0, n)] *= 0.5
        else:
            yh = gen_vector(rng, n, 4, scale, nonneg)
        tag = 'case %d (n=%d scale=%g mode=%d)' % (it, n, scale, mode)
        eps_list = (EPS,) if it % 3 else (EPS, 1e-3, 0.5)
        check_metrics(tag, y, yh, nonneg, eps_list)
        check_vanish(tag, y, nonneg)
        ncase += 1

    # long vectors (several summation blocks)
    for n in (4097, 6000):
        y = rng.uniform(0, 1, n)
        yh = y * rng.uniform(0.5, 1.5, n)
        check_metrics('long case n=%d' % n, y, yh, True)
        ncase += 1

    # integer dtype (and mixed)
    for it in range(40):
        n = int(rng.choice([1, 2, 3, 7, 20]))
        y = rng.integers(0, 50, n)
        yh = rng.integers(0, 50, n)
        tag = 'int case %d' % it
        check_metrics(tag, y, yh, True)
        check_metrics(tag + ' mixed', y, yh.astype(float) + 0.25, True)
        check_vanish(tag, y, True)
        ncase += 1

    # linear fit helpers
    for it in range(220):
        n = int(rng.choice([2, 3, 4, 5, 9, 17, 40]))
        sx = float(rng.choice(SCALES))
        sy = float(rng.choice(SCALES))
        kind = it % 6
        if kind == 0:     # increasing x with ties
            x = np.sort(rng.choice(rng.uniform(0, 1, max(2, n // 2)), n)) * sx
        elif kind == 1:   # offset range
            x = (np.sort(rng.uniform(0, 1, n)) + float(rng.integers(0, 1000))) * sx
        elif kind == 2:   # descending x
            x = np.sort(rng.uniform(0, 1, n))[::-1].copy() * sx
        else:
            x = np.arange(n, dtype=float) * sx
        ykind = int(rng.integers(0, 8))
        y = gen_vector(rng, n, ykind, sy, True)
        if it % 7 == 0:   # exactly representable straight line
            x = np.arange(n, dtype=float)
            y = 3.0 * x + 2.0
            sx = sy = 1.0
        tag = 'fit case %d (n=%d sx=%g sy=%g kind=%d ykind=%d)' % (it, n, sx, sy, kind, ykind)
        check_endpoint_fit(tag, x, y)
        check_best_fit_r2(tag, x, y)
        # wrappers with the endpoint line, a perturbed line and a random line
        coef = lf.linear_fit(x, y)
        check_wrappers(tag + ' endpoint', x, y, coef, True)
        if sx * sy < 1e200 and sy / sx < 1e200:
            m = float(rng.uniform(0.0, 2.0)) * sy / sx
            b = float(rng.uniform(0.0, 1.0)) * sy
            check_wrappers(tag + ' random', x, y, (b, m), True)
        ncase += 1

    for it in range(30):   # integer points
        n = int(rng.choice([2, 3, 6, 15]))
        x = np.cumsum(rng.integers(0, 3, n)) + int(rng.integers(0, 5))
        y = rng.integers(0, 30, n)
        tag = 'int fit case %d' % it
        check_endpoint_fit(tag, x, y)
        check_best_fit_r2(tag, x, y)
        check_wrappers(tag, x, y, lf.linear_fit(x, y), True)
        ncase += 1

    print('%d cases, %d violations' % (ncase, len(FAIL)))
    return 1 if FAIL else 0


if __name__ == '__main__':
    sys.exit(main())
