#!/usr/bin/env python
"""
C12 property test (deliverable L: the edit is meant to PRESERVE the property).

Property C12: for every valid curve, interior knee set (>= 2 knees), linkage,
threshold and left/linear/right ranking mode, filter_clusters returns a
strictly increasing subset of the knees containing exactly one member of every
cluster, and in each multi-member cluster that member attains the maximum
ranking score (segment fit quality times relative height).  In hull mode it
completes and returns a strictly increasing subset with at most one member per
cluster and none from a cluster whose index span contains no lower-hull point.
The corner variant keeps, per cluster, a knee maximising the corner-triangle
score 0.5 * (x[k] - x[k-1]) * (y[k] - y[k+1]).

Everything the library result is compared with (segment R2, heights, corner
scores, lower hull) is recomputed here independently of the library; only the
linkage function itself is used to define the clusters.  A multi-member
cluster is only judged on the 'maximum score' clause when every score of the
selected mode is well defined (no R2 of a constant >= 3 point segment).

Exit status 1 on a violation (or an exception / hang), 0 otherwise.
"""
import signal
import sys
import warnings

signal.alarm(55)  # hard guard against hangs

import numpy as np

warnings.filterwarnings('ignore')

import kneeliverse.clustering as clustering
import kneeliverse.knee_ranking as kr
import kneeliverse.postprocessing as pp


# ---------------------------------------------------------------- oracles ---

def r2(x, y):
    x = np.asarray(x, dtype=float)
    y = np.asarray(y, dtype=float)
    if len(x) <= 2:
        return 1.0
    if np.ptp(y) == 0:
        return float('nan')  # constant segment: undefined
    xc = x - x.mean()
    yc = y - y.mean()
    return float(np.sum(xc * yc) / np.sqrt(np.sum(xc * xc) * np.sum(yc * yc))) ** 2


def smooth_scores(points, cluster, mode):
    x, y = points[:, 0], points[:, 1]
    first, last = int(cluster[0]), int(cluster[-1])
    peak = max(float(y[k]) for k in cluster)
    heights = np.array([abs(peak - float(y[k])) for k in cluster])
    if heights.sum() != 0:
        heights = heights / heights.sum()
    fits = []
    for k in cluster:
        k = int(k)
        if mode is kr.ClusterRanking.left:
            fits.append(r2(x[first:k + 1], y[first:k + 1]))
        elif mode is kr.ClusterRanking.right:
            fits.append(r2(x[k:last], y[k:last]))
        else:
            fits.append((r2(x[first:k + 1], y[first:k + 1]) + r2(x[k:last], y[k:last])) / 2.0)
    return np.array(fits) * heights


def corner_scores(points, cluster):
    x, y = points[:, 0].astype(float), points[:, 1].astype(float)
    return np.array([0.5 * (x[k] - x[k - 1]) * (y[k] - y[k + 1]) for k in cluster])


def lower_hull(points):
    """indices of the vertices of the lower convex hull (monotone chain, x strictly increasing)"""
    px = [float(v) for v in points[:, 0]]
    py = [float(v) for v in points[:, 1]]
    st = []
    for i in range(len(px)):
        while len(st) > 1:
            a, b = st[-2], st[-1]
            cross = (px[b] - px[a]) * (py[i] - py[a]) - (px[i] - px[a]) * (py[b] - py[a])
            if cross <= 0:
                st.pop()
            else:
                break
        st.append(i)
    return set(st)


# ------------------------------------------------------------------ check ---

def check(points, knees, linkage, t, mode, label):
    """mode: a ClusterRanking, or None for the corner variant"""
    name = 'corners' if mode is None else str(mode)
    p0, k0 = points.copy(), knees.copy()
    try:
        if mode is None:
            out = pp.filter_clusters_corners(p0, k0, linkage, t)
        else:
            out = pp.filter_clusters(p0, k0, linkage, t, mode)
    except Exception as e:  # 'completes'
        print('VIOLATION [%s, %s, t=%g, %s]: raised %s: %s' % (label, linkage.__name__, t, name, type(e).__name__, e))
        return 1
    out = np.asarray(out)
    clusters = linkage(points[knees], t)
    problems = []
    if len(out) > 1 and not np.all(np.diff(out) > 0):
        problems.append('output not strictly increasing: %s' % out)
    if not set(out.tolist()) <= set(knees.tolist()):
        problems.append('output is not a subset of the knees: %s' % out)
    hull = lower_hull(points) if mode is kr.ClusterRanking.hull else None
    for c in range(clusters.max() + 1):
        members = knees[clusters == c]
        mset = set(members.tolist())
        kept = [k for k in out.tolist() if k in mset]
        if mode is kr.ClusterRanking.hull:
            if len(kept) > 1:
                problems.append('hull: cluster %s keeps %d members' % (members, len(kept)))
            span = range(int(members[0]), int(members[-1]) + 1)
            if kept and not any(i in hull for i in span):
                problems.append('hull: knee %s kept from cluster %s whose span has no lower-hull point' % (kept, members))
            continue
        if len(kept) != 1:
            problems.append('cluster %s keeps %d members (output %s)' % (members, len(kept), out))
            continue
        if mode is None:
            scores = corner_scores(points, members)
        elif len(members) > 1:
            scores = smooth_scores(points, members, mode)
        else:
            continue
        if np.any(np.isnan(scores)):
            continue
        got = scores[list(members).index(kept[0])]
        best = scores.max()
        if got < best - 1e-9 * max(1.0, abs(best)):
            problems.append('cluster %s: kept knee %d has score %.6g but knee %d has score %.6g'
                            % (members, kept[0], got, members[int(np.argmax(scores))], best))
    for p in problems:
        print('VIOLATION [%s, %s, t=%g, %s]: %s' % (label, linkage.__name__, t, name, p))
    return len(problems)


# ------------------------------------------------------------- generators ---

def staircase(rng, size, integer):
    ys = []
    level = float(rng.integers(200, 600)) if integer else float(rng.uniform(20, 60))
    while len(ys) < size:
        ys.extend([level] * int(rng.integers(1, 7)))
        level -= float(rng.integers(1, 25)) if integer else float(rng.uniform(0.0, 3.0))
        level = max(level, 0.0)
    return np.array(ys[:size])


def curves():
    rng = np.random.default_rng(1212)
    n_curves = 320
    for n in range(n_curves):
        kind = n % 8
        size = int(rng.integers(4, 90))
        if n % 40 == 39:
            size = int(rng.integers(400, 1600))
        if kind == 0:      # smooth convex decreasing
            xs = np.cumsum(rng.uniform(0.5, 1.5, size))
            ys = 100.0 / (1.0 + 0.3 * xs) + 1.0
        elif kind == 1:    # noisy decreasing
            xs = np.cumsum(rng.uniform(0.5, 1.5, size))
            ys = 100.0 / (1.0 + 0.3 * xs) + rng.normal(0, 1.0, size) + 5.0
        elif kind == 2:    # integer staircase stored with an integer dtype
            xs = np.cumsum(rng.integers(1, 4, size))
            ys = staircase(rng, size, True)
        elif kind == 3:    # float staircase
            xs = np.cumsum(rng.uniform(0.5, 1.5, size))
            ys = staircase(rng, size, False)
        elif kind == 4:    # arbitrary non negative values, uneven spacing
            xs = np.cumsum(rng.uniform(0.01, 5.0, size))
            ys = rng.uniform(0.0, 10.0, size)
        elif kind == 5:    # few integer levels on a grid: ties, collinear runs, zeros
            xs = np.arange(size) * 1.0
            ys = rng.integers(0, 5, size).astype(float)
        elif kind == 6:    # piecewise linear (collinear runs), decreasing, ends at 0
            xs = np.arange(size) * 2.0
            brk = np.sort(rng.choice(np.arange(size), size=min(4, size), replace=False))
            slopes = np.sort(rng.integers(1, 9, len(brk) + 1))[::-1]
            seg = np.searchsorted(brk, np.arange(size), side='right')
            ys = np.cumsum(slopes[seg])[::-1].astype(float)
            ys = ys - ys.min()
        else:              # concave then convex (shoulders above the hull)
            xs = np.cumsum(rng.uniform(0.5, 1.5, size))
            u = np.linspace(0, 1, size)
            ys = 50.0 * (1 - u ** 2) * (u < 0.5) + 50.0 * 0.75 * np.exp(-6 * (u - 0.5)) * (u >= 0.5)
        points = np.column_stack((xs, ys))
        if kind == 2:
            points = points.astype(np.int64)
        nk = min(int(rng.integers(2, 26)), size - 2)
        if rng.random() < 0.25:   # dense block of adjacent knees
            start = int(rng.integers(1, size - nk))
            ks = np.arange(start, start + nk)
        else:
            ks = np.sort(rng.choice(np.arange(1, size - 1), size=nk, replace=False))
        yield 'curve%03d/kind%d/n%d' % (n, kind, size), points, ks, rng


def main():
    linkages = [clustering.single_linkage, clustering.complete_linkage,
                clustering.centroid_linkage, clustering.average_linkage]
    modes = [kr.ClusterRanking.left, kr.ClusterRanking.linear, kr.ClusterRanking.right,
             kr.ClusterRanking.hull, None]
    grid = [0.01, 0.02, 0.05, 0.1, 0.2, 0.3, 0.5, 1.0]
    bad = 0
    runs = 0
    inputs = 0
    for label, points, knees, rng in curves():
        inputs += 1
        big = len(points) > 300
        for linkage in linkages:
            ts = [float(rng.choice(grid))] if big else [float(rng.choice(grid)), float(rng.uniform(0.005, 0.6))]
            for t in ts:
                for mode in modes:
                    bad += check(points, knees, linkage, t, mode, label)
                    runs += 1
    if bad:
        print('%d violation(s) of C12 in %d configurations (%d inputs)' % (bad, runs, inputs))
        return 1
    print('C12 holds on all %d configurations (%d generated inputs)' % (runs, inputs))
    return 0


if __name__ == '__main__':
    sys.exit(main())
