#!/usr/bin/env python
"""C20 property test centred on the line fitting / point-to-segment distance helpers of
kneeliverse.linear_fit and on the public functions that are built on them (kneeliverse.rdp,
the convex hull ranking of kneeliverse.postprocessing.filter_clusters).

Checks, for a few hundred generated curves:
  * purity        : array and list arguments are bit-for-bit unchanged after the call
  * determinism   : a second call returns the same result
  * layout/dtype  : C-ordered, Fortran-ordered, sliced-view, float64 and int64
                    representations of the same values give the same result
  * linkage       : (static) every global name, every attribute chain that starts at an
                    imported module and every call of a package function (directly, through
                    a module alias or through a local alias such as `distance_points`)
                    resolves / binds against the package and the installed dependencies

Exit status 0: the property holds; 1: it is violated.  Takes no arguments."""
import ast
import builtins
import copy
import importlib
import inspect
import signal
import sys
import time
import types
import warnings

signal.alarm(58)   # hard stop, whatever the library does

import numpy as np

warnings.simplefilter('ignore')
np.seterr(all='ignore')

import kneeliverse                      # noqa: E402
import kneeliverse.rdp as rdp           # noqa: E402
import kneeliverse.linear_fit as lf     # noqa: E402
import kneeliverse.metrics as metrics   # noqa: E402
import kneeliverse.evaluation as evaluation       # noqa: E402
import kneeliverse.postprocessing as pp           # noqa: E402
import kneeliverse.knee_ranking as kr             # noqa: E402
import kneeliverse.clustering as clustering       # noqa: E402
import kneeliverse.convex_hull as ch              # noqa: E402

BUDGET = 40.0        # seconds of wall clock for the dynamic part
N_INPUTS = 400
failures = []
raised = {}


def fail(msg):
    if len(failures) < 200:
        failures.append(msg)


# =============================================================== static part
def _unwrap(f):
    """python function behind a numba dispatcher / functools.wraps chain"""
    return getattr(f, 'py_func', f)


def _is_pkg_function(obj):
    obj = _unwrap(obj)
    return inspect.isfunction(obj) and (obj.__module__ or '').startswith('kneeliverse')


def _resolve_chain(node, module, local_names):
    """value of a Name(.attr)* expression evaluated in the module namespace.
    returns (found, value, text); found is None when the chain does not start at a global"""
    attrs = []
    while isinstance(node, ast.Attribute):
        attrs.append(node.attr)
        node = node.value
    if not isinstance(node, ast.Name) or node.id in local_names:
        return None, None, None
    text = node.id
    if hasattr(module, node.id):
        value = getattr(module, node.id)
    elif hasattr(builtins, node.id):
        value = getattr(builtins, node.id)
    else:
        return False, None, text
    for a in reversed(attrs):
        # only module objects, classes (enums) and functions are followed: the attributes of
        # anything else (loggers, arrays, ...) are instance business, not linkage
        if not isinstance(value, (types.ModuleType, type, np.ufunc)) and not callable(value):
            return None, None, None
        text += '.' + a
        if not hasattr(value, a):
            return False, None, text
        value = getattr(value, a)
    return True, value, text


def _function_locals(fn):
    names = {a.arg for a in ast.walk(fn) if isinstance(a, ast.arg)}
    for sub in ast.walk(fn):
        if isinstance(sub, ast.Name) and isinstance(sub.ctx, (ast.Store, ast.Del)):
            names.add(sub.id)
        elif isinstance(sub, (ast.Import, ast.ImportFrom)):
            names.update((a.asname or a.name).split('.')[0] for a in sub.names)
        elif isinstance(sub, (ast.FunctionDef, ast.ClassDef)) and sub is not fn:
            names.add(sub.name)
        elif isinstance(sub, ast.ExceptHandler) and sub.name:
            names.add(sub.name)
    return names


def _check_call(call, target, where, text):
    if any(isinstance(a, ast.Starred) for a in call.args) or any(k.arg is None for k in call.keywords):
        return
    try:
        sig = inspect.signature(_unwrap(target))
        sig.bind(*[None] * len(call.args), **{k.arg: None for k in call.keywords})
    except TypeError as e:
        fail(f'{where}: call {text}(...) with {len(call.args)} positional / '
             f'{[k.arg for k in call.keywords]} keyword arguments does not bind: {e}')
    except ValueError:
        pass


def linkage(module):
    tree = ast.parse(open(module.__file__).read())
    scopes = [(tree, set())]
    def visit(node, enclosing):
        for child in ast.iter_child_nodes(node):
            if isinstance(child, (ast.FunctionDef, ast.Lambda)):
                # the locals of the enclosing functions are visible in nested functions / lambdas
                visible = enclosing | _function_locals(child)
                scopes.append((child, visible))
                visit(child, visible)
            else:
                visit(child, enclosing)
    visit(tree, set())
    # names assigned inside nested functions are local there, enclosing locals are visible too:
    # be conservative and treat the union of enclosing function locals as local
    for scope, local_names in scopes:
        where = f'{module.__name__}:{getattr(scope, "name", "<lambda>" if scope is not tree else "<module>")}'
        if scope is tree:
            body_nodes = [n for n in ast.walk(tree)]
            inner = set()
            for fn, loc in scopes[1:]:
                inner.update(id(n) for n in ast.walk(fn) if n is not fn)
            body_nodes = [n for n in body_nodes if id(n) not in inner]
        else:
            body_nodes = list(ast.walk(scope))
        # local aliases of package functions: name = <global chain> anywhere in this scope
        aliases = {}
        for n in body_nodes:
            if isinstance(n, ast.Assign) and len(n.targets) == 1 and isinstance(n.targets[0], ast.Name):
                found, value, text = _resolve_chain(n.value, module, local_names)
                if found and _is_pkg_function(value):
                    aliases.setdefault(n.targets[0].id, []).append((value, text))
        done_attr = set()
        for n in body_nodes:
            if isinstance(n, ast.Name) and isinstance(n.ctx, ast.Load) and n.id not in local_names:
                if not hasattr(module, n.id) and not hasattr(builtins, n.id):
                    fail(f'{where}:{n.lineno}: name {n.id!r} does not resolve')
            elif isinstance(n, ast.Attribute) and id(n) not in done_attr:
                for sub in ast.walk(n):      # report the outermost chain only
                    done_attr.add(id(sub))
                found, value, text = _resolve_chain(n, module, local_names)
                if found is False:
                    fail(f'{where}:{n.lineno}: {text} does not resolve')
            if isinstance(n, ast.Call):
                found, value, text = _resolve_chain(n.func, module, local_names)
                if found and _is_pkg_function(value):
                    _check_call(n, value, f'{where}:{n.lineno}', text)
                elif isinstance(n.func, ast.Name) and n.func.id in aliases:
                    for value, text in aliases[n.func.id]:
                        _check_call(n, value, f'{where}:{n.lineno}', f'{n.func.id} = {text}')


def compiled_globals(module):
    """second opinion from the byte code: every LOAD_GLOBAL / LOAD_NAME target exists"""
    import dis
    code = compile(open(module.__file__).read(), module.__file__, 'exec')
    todo = [code]
    while todo:
        co = todo.pop()
        todo.extend(c for c in co.co_consts if isinstance(c, types.CodeType))
        for ins in dis.get_instructions(co):
            if ins.opname in ('LOAD_GLOBAL', 'LOAD_NAME') and isinstance(ins.argval, str):
                if not hasattr(module, ins.argval) and not hasattr(builtins, ins.argval) \
                        and ins.argval not in ('__name__', '__doc__', '__file__', '__qualname__', '__module__'):
                    fail(f'{module.__name__}:{co.co_name}: global {ins.argval!r} does not resolve')


for mod in (lf, rdp, metrics, pp, ch, kr):
    linkage(mod)
    compiled_globals(mod)
# (kneeliverse.evaluation keeps a legacy, documented-as-unused routine that is out of the
# scope of this test; the routines of it that rdp relies on are exercised dynamically below)


# ============================================================== dynamic part
def curve(rng, it):
    """integer valued curve with strictly increasing x (so that it has an exact int64 and
    an exact float64 representation); several awkward shapes"""
    n = [3, 4, 5, 7][it % 4] if it % 9 == 0 else int(rng.integers(6, 70))
    x = np.cumsum(rng.integers(1, 5, size=n)).astype(np.float64)
    kind = it % 8
    if kind == 0:      # convex decreasing (miss-ratio-curve like) plus small noise
        y = np.round(3000.0 / (1.0 + 0.1 * x)) + rng.integers(0, 3, size=n)
    elif kind == 1:    # plateaus and ties
        y = np.sort(rng.integers(0, 8, size=n))[::-1].astype(np.float64)
    elif kind == 2:    # exactly collinear
        y = 2.0 * x + 1.0
    elif kind == 3:    # noise with many zeros
        y = np.maximum(rng.integers(-6, 12, size=n), 0).astype(np.float64)
    elif kind == 4:    # symmetric V on a regular grid: equal costs left and right
        x = np.arange(n, dtype=np.float64)
        y = np.abs(2.0 * x - (n - 1)) + 1.0
    elif kind == 5:    # concave increasing
        y = np.round(40.0 * np.sqrt(x))
    elif kind == 6:    # square wave: collinear runs
        y = np.where(np.arange(n) % 7 < 3, 5.0, 9.0)
    else:              # constant
        y = np.full(n, 4.0)
    return np.column_stack((x, y))


def representations(p, integer):
    big = np.full((2 * len(p) + 3, 5), -7.0)
    big[1:-2:2, 1::3] = p
    reps = [('C/float64', np.array(p, order='C', copy=True)),
            ('F/float64', np.array(p, order='F', copy=True)),
            ('view/float64', big[1:-2:2, 1::3])]
    if integer:
        ibig = np.full(big.shape, -7, dtype=np.int64)
        ibig[1:-2:2, 1::3] = p.astype(np.int64)
        reps += [('C/int64', np.ascontiguousarray(p.astype(np.int64))),
                 ('F/int64', np.asfortranarray(p.astype(np.int64))),
                 ('view/int64', ibig[1:-2:2, 1::3])]
    for name, q in reps:
        assert np.array_equal(q, p)
    return reps


def snapshot(a):
    if isinstance(a, np.ndarray):
        return (a.dtype, a.shape, a.strides, a.tobytes())
    return copy.deepcopy(a)


def unchanged(snap, a):
    if isinstance(a, np.ndarray):
        return snap == (a.dtype, a.shape, a.strides, a.tobytes())
    return type(snap) is type(a) and snap == a


def same(a, b, rtol=1e-9):
    if a is None or b is None:
        return a is b
    if isinstance(a, str) or isinstance(b, str):
        return isinstance(a, str) and isinstance(b, str) and a == b
    if isinstance(a, (tuple, list)) != isinstance(b, (tuple, list)):
        return False
    if isinstance(a, (tuple, list)) and isinstance(b, (tuple, list)):
        return len(a) == len(b) and all(same(i, j, rtol) for i, j in zip(a, b))
    a = np.asarray(a)
    b = np.asarray(b)
    if a.shape != b.shape:
        return False
    if a.dtype.kind in 'iub' and b.dtype.kind in 'iub':
        return bool(np.array_equal(a, b))
    a = a.astype(np.float64)
    b = b.astype(np.float64)
    scale = max(float(np.max(np.abs(a), initial=0.0)), float(np.max(np.abs(b), initial=0.0)))
    if not np.isfinite(scale):
        scale = 0.0
    return bool(np.allclose(a, b, rtol=rtol, atol=rtol * scale, equal_nan=True))


def check(label, fn, p, extra=(), integer=True):
    """fn(points, *extra) on every representation of p"""
    ref = None
    for name, q in representations(p, integer):
        args = [q] + [copy.deepcopy(e) for e in extra]
        before = [snapshot(a) for a in args]
        try:
            out1 = fn(*args)
            pure1 = all(unchanged(s, a) for s, a in zip(before, args))
            out1_copy = copy.deepcopy(out1)
            out2 = fn(*args)
        except (NameError, AttributeError, TypeError) as e:
            fail(f'{label} [{name}]: {type(e).__name__}: {str(e).splitlines()[0][:120]}')
            continue
        except Exception as e:      # anything else must at least be the same on every layout
            out1 = out1_copy = out2 = ('raised', type(e).__name__)
            key = (label.split('(')[0].split(' #')[0], type(e).__name__)
            raised[key] = raised.get(key, 0) + 1
            pure1 = all(unchanged(s, a) for s, a in zip(before, args))
        if not pure1 or not all(unchanged(s, a) for s, a in zip(before, args)):
            fail(f'{label} [{name}]: an argument was modified')
        if not same(out1_copy, out2, rtol=0.0):
            fail(f'{label} [{name}]: the second call returned something else')
        if ref is None:
            ref = (name, out1_copy)
            # no hidden state: after the caller edits its own array in place, the function must
            # answer as it does for a fresh array with the same contents
            if isinstance(out1_copy, tuple) and len(out1_copy) == 2 and isinstance(out1_copy[0], str):
                continue
            try:
                q[:, 1] = q[::-1, 1].copy() if len(q) % 2 else q[:, 1] * 2
                out3 = copy.deepcopy(fn(*args))
                out4 = fn(*([q.copy()] + [copy.deepcopy(e) for e in extra]))
            except Exception:
                continue
            if not same(out3, out4, rtol=0.0):
                fail(f'{label} [{name}]: the result depends on an earlier call with the same array object')
        elif not same(ref[1], out1_copy):
            fail(f'{label} [{name}]: differs from {ref[0]}: {ref[1]!r} vs {out1_copy!r}'[:300])


rng = np.random.default_rng(20202)
start = time.time()
done = 0
all_metrics = list(metrics.Metrics)
all_orders = list(rdp.Order)
all_distances = list(rdp.Distance)

POINT_FUNCTIONS = [
    ('linear_fit_points', lf.linear_fit_points),
    ('linear_hv_residuals_points', lf.linear_hv_residuals_points),
    ('linear_fit_transform_points', lf.linear_fit_transform_points),
    ('linear_fit_transform_points(vertical)', lambda q: lf.linear_fit_transform_points(q, True)),
    ('linear_fit_residuals_points', lf.linear_fit_residuals_points),
    ('r2_points', lf.r2_points),
    ('r2_points(adjusted)', lambda q: lf.r2_points(q, metrics.R2.adjusted)),
    ('perpendicular_distance', lf.perpendicular_distance),
]
COEF_FUNCTIONS = [
    ('linear_transform_points', lf.linear_transform_points),
    ('linear_transform_points(integer slope)', lambda q, c: lf.linear_transform_points(q, (0.5, 2))),
    ('linear_residuals_points(integer coefficients)', lambda q, c: lf.linear_residuals_points(q, (1, 2))),
    ('linear_r2_points', lf.linear_r2_points),
    ('rmspe_points', lf.rmspe_points),
    ('rmsle_points', lf.rmsle_points),
    ('smape_points', lf.smape_points),
    ('rpd_points', lf.rpd_points),
    ('rmse_points', lf.rmse_points),
    ('linear_residuals_points', lf.linear_residuals_points),
]

for it in range(N_INPUTS):
    if time.time() - start > BUDGET:
        break
    p = curve(rng, it)
    n = len(p)
    integer = True
    scale = it % 5
    if scale == 3:        # very large magnitude (about 1e150), float only
        p = p * (2.0 ** 490)
        integer = False
    elif scale == 4:      # very small magnitude (about 1e-150), float only
        p = p * (2.0 ** -500)
        integer = False

    # ---- the distance helpers themselves: whole curve, inner segment, degenerate segment
    i, j = sorted(int(v) for v in rng.choice(n, size=2, replace=False))
    check(f'shortest_distance_points(whole) #{it}', lambda q: lf.shortest_distance_points(q, q[0], q[-1]), p, integer=integer)
    check(f'shortest_distance_points({i},{j}) #{it}', lambda q: lf.shortest_distance_points(q, q[i], q[j]), p, integer=integer)
    check(f'shortest_distance_points(slice {i}:{j}) #{it}', lambda q: lf.shortest_distance_points(q[i:j + 1], q[i], q[j]), p, integer=integer)
    check(f'shortest_distance_points(a == b) #{it}', lambda q: lf.shortest_distance_points(q, q[i], q[i].copy()), p, integer=integer)
    check(f'shortest_distance_points(end points as extra arrays) #{it}',
          lambda q, a, b: lf.shortest_distance_points(q, a, b), p,
          (p[i].astype(np.int64) if integer else p[i].copy(), p[j].copy()), integer=integer)
    check(f'perpendicular_distance_index({i},{j}) #{it}', lambda q: lf.perpendicular_distance_index(q, i, j), p, integer=integer)
    check(f'perpendicular_distance_points({i},{j}) #{it}', lambda q: lf.perpendicular_distance_points(q, q[i], q[j]), p, integer=integer)
    check(f'perpendicular_distance_points(single point) #{it}', lambda q: lf.perpendicular_distance_points(q[j], q[0], q[-1]), p, integer=integer)
    check(f'cross2d #{it}', lambda q: lf.cross2d(q - q[0], q[-1] - q[0]), p, integer=integer)

    # ---- the remaining public functions of the module
    for name, fn in POINT_FUNCTIONS:
        check(f'{name} #{it}', fn, p, integer=integer)
    coef = lf.linear_fit_points(p)
    for name, fn in COEF_FUNCTIONS:
        check(f'{name} #{it}', lambda q, fn=fn: fn(q, coef), p, integer=integer)
    check(f'angle #{it}', lambda q: lf.angle(lf.linear_fit_points(q[: n // 2 + 1]), lf.linear_fit_points(q[n // 2:])), p, integer=integer)

    # ---- public functions built on the distance helpers
    dist = all_distances[(it // 2) % 2]
    order = all_orders[it % 3]
    cost = all_metrics[(it // 2) % 5]
    t = (0.5, 0.1, 0.01, 0.001)[it % 4]
    if cost is metrics.Metrics.r2:
        t = 1.0 - t
    length = int(rng.integers(2, n + 1))
    check(f'rdp({t},{dist},{cost}) #{it}', lambda q: rdp.rdp(q, t, dist, cost), p, integer=integer)
    check(f'rdp_fixed({length},{dist},{order}) #{it}', lambda q: rdp.rdp_fixed(q, length, dist, order), p, integer=integer)
    if it % 2 == 0:
        check(f'grdp({t},{dist},{cost},{order}) #{it}', lambda q: rdp.grdp(q, t, dist, cost, order), p, integer=integer)
    else:
        check(f'mp_grdp({t},{length},{dist},{cost},{order}) #{it}',
              lambda q: rdp.mp_grdp(q, t, length, dist, cost, order), p, integer=integer)
    if n >= 8:
        m = int(rng.integers(2, min(n - 2, 10)))
        knees = np.sort(rng.choice(np.arange(1, n - 1), size=m, replace=False))
        check(f'filter_clusters(hull) #{it}',
              lambda q, k: pp.filter_clusters(q, k, clustering.single_linkage, 0.1, kr.ClusterRanking.hull), p, (knees,), integer=integer)
        check(f'graham_scan_lower #{it}', ch.graham_scan_lower, p, integer=integer)
    done += 1

print(f'{done} curves checked in {time.time() - start:.1f}s')
if raised:
    print('other exceptions (same on every representation, not a C20 matter):', raised)
if done < 200:
    print('warning: fewer than 200 curves were checked within the time budget')
if failures:
    print('C20 violated (%d findings):' % len(failures))
    for f in failures[:20]:
        print('  ', f)
    sys.exit(1)
print('ok')
sys.exit(0)
