#!/usr/bin/env python
"""
C05 property test (change L, property preserving): fixed-size RDP
(kneeliverse.rdp.rdp_fixed) is an exact-size, nested greedy refinement.

A few hundred performance curves are generated (seeded, deterministic): smooth
and noisy convex decays, saturating curves, staircases with plateaus and ties,
piecewise linear curves with exactly collinear runs, zero tails, steep bumpy
curves whose points project outside their chords, geometric x grids, integer
arrays, several scales, sizes 2..60.  For every curve x 2 distances x 3
orderings and EVERY k in 0..n+1 this program checks
  * the result has exactly min(max(k, 2), n) strictly increasing indices that
    start at 0 and end at n-1,
  * the results for k and k+1 are nested and differ by exactly one index,
  * the gained index lies strictly inside one retained segment, no interior
    point of that segment is farther from the chord (beyond rounding noise),
    and that segment has the maximal ordering score (triangle / area /
    residual, all recomputed here with plain numpy) among the retained
    segments that still have interior points (ties within rounding noise are
    allowed: the statement does not say which of several maximal segments is
    refined first).

Exit status 0: property holds on all cases, 1: violated (or the library hung).
"""
import signal
import sys
import warnings

import numpy as np


def _timeout(signum, frame):
    print('FAIL: timeout - the library did not terminate in time')
    sys.stdout.flush()
    sys.exit(1)


signal.signal(signal.SIGALRM, _timeout)
signal.alarm(55)
warnings.simplefilter('ignore')

import kneeliverse.rdp as rdp
from kneeliverse.rdp import Distance, Order


# ---------------------------------------------------------------- reference
def ref_distance(pt, distance):
    """Distance of every point of pt to the chord pt[0]-pt[-1]."""
    a, b = pt[0], pt[-1]
    ab = b - a
    L = float(np.hypot(ab[0], ab[1]))
    rel = pt - a
    perp = np.abs(ab[0] * rel[:, 1] - ab[1] * rel[:, 0]) / L
    if distance is Distance.perpendicular:
        return perp
    s = (rel[:, 0] * ab[0] + rel[:, 1] * ab[1]) / L      # position along chord
    out = np.maximum(np.maximum(-s, s - L), 0.0)
    return np.hypot(out, perp)


def ref_score(pt, distance, order):
    if order is Order.segment:
        x, y = pt[:, 0], pt[:, 1]
        m = (y[-1] - y[0]) / (x[-1] - x[0])
        return float(np.sum((y - (y[0] + m * (x - x[0]))) ** 2))
    d = ref_distance(pt, distance)
    if order is Order.area:
        return float(np.sum(d))
    base = float(np.hypot(*(pt[-1] - pt[0])))
    return 0.5 * base * float(d.max())


# ------------------------------------------------------------------ checker
def check_curve(name, points):
    n = len(points)
    errors = []
    ks = list(range(0, n + 2))
    # intrinsic scale of the curve (diagonal of its bounding box); scores and
    # distances below ~1e-10 of that scale are rounding noise (exactly straight
    # pieces do not have exactly zero scores in floating point)
    fp = np.asarray(points, dtype=float)
    D = float(np.hypot(*(fp.max(axis=0) - fp.min(axis=0))))

    for distance in (Distance.shortest, Distance.perpendicular):
        for order in (Order.triangle, Order.area, Order.segment):
            tag = '%s n=%d %s/%s' % (name, n, distance, order)
            results = {}
            before = len(errors)
            for k in ks:
                reduced, _ = rdp.rdp_fixed(points.copy(), k, distance=distance, order=order)
                reduced = [int(i) for i in reduced]
                results[k] = reduced
                want = min(max(k, 2), n)
                if len(reduced) != want or len(set(reduced)) != want:
                    errors.append('%s k=%d: %d indices (%d distinct) returned, expected exactly %d: %s'
                                  % (tag, k, len(reduced), len(set(reduced)), want, reduced))
                    continue
                if reduced[0] != 0 or reduced[-1] != n - 1 or \
                        any(b <= a for a, b in zip(reduced, reduced[1:])):
                    errors.append('%s k=%d: indices are not a strictly increasing '
                                  'selection containing both end points: %s' % (tag, k, reduced))
            if len(errors) > before:
                continue
            for k in ks:
                if k + 1 not in results or k < 2 or k + 1 > n:
                    continue
                small, big = results[k], results[k + 1]
                gained = sorted(set(big) - set(small))
                if not set(small) <= set(big) or len(gained) != 1:
                    errors.append('%s: result for k=%d is not nested in k=%d (%s vs %s)'
                                  % (tag, k, k + 1, small, big))
                    continue
                g = gained[0]
                seg = [(l, r) for l, r in zip(small, small[1:]) if l < g < r]
                if len(seg) != 1:
                    errors.append('%s k=%d: gained index %d not strictly inside a segment'
                                  % (tag, k, g))
                    continue
                l, r = seg[0]
                d = ref_distance(points[l:r + 1], distance)
                dmax = float(d[1:-1].max())
                if d[g - l] < dmax - (1e-9 * dmax + 1e-10 * D):
                    errors.append('%s k=%d->%d: split of segment [%d,%d] at %d (distance %.6g) '
                                  'but interior point %d is farther (%.6g)'
                                  % (tag, k, k + 1, l, r, g, d[g - l],
                                     l + 1 + int(np.argmax(d[1:-1])), dmax))
                scores = {(a, b): ref_score(points[a:b + 1], distance, order)
                          for a, b in zip(small, small[1:]) if b - a > 1}
                best = max(scores.values())
                floor = 1e-10 * D * n if order is Order.area else 1e-10 * D * D
                if scores[(l, r)] < best - (1e-9 * abs(best) + floor):
                    errors.append('%s k=%d->%d: refined segment [%d,%d] has score %.6g, '
                                  'maximal score is %.6g (segment [%d,%d])'
                                  % (tag, k, k + 1, l, r, scores[(l, r)], best,
                                     *max(scores, key=scores.get)))
    return errors


def _grid(rng, n):
    kind = rng.randint(0, 4)
    if kind == 0:
        return np.arange(1.0, n + 1.0)
    if kind == 1:
        return np.cumsum(rng.randint(1, 9, n) / 4.0)
    if kind == 2:
        return np.cumsum(rng.uniform(0.05, 3.0, n))
    return 2.0 ** np.arange(n) if n <= 24 else np.cumsum(1.25 ** np.arange(n))


def _shape(rng, x, n):
    kind = rng.randint(0, 9)
    t = (x - x[0]) / max(x[-1] - x[0], 1e-300)
    if kind == 0:       # smooth convex decay
        return 'decay', 100.0 / (1.0 + rng.uniform(1.0, 30.0) * t) + rng.uniform(0.0, 5.0)
    if kind == 1:       # noisy convex decay
        return 'noisy-decay', 100.0 / (1.0 + 12.0 * t) + rng.uniform(0.0, 4.0, n)
    if kind == 2:       # saturating throughput
        return 'saturating', 80.0 * (1.0 - np.exp(-t * rng.uniform(2.0, 9.0))) + 0.5 * t
    if kind == 3:       # staircase with plateaus and ties (quantised values)
        return 'staircase', np.floor(40.0 * np.exp(-3.0 * t) + rng.uniform(0.0, 2.0, n)) / 4.0
    if kind == 4:       # piecewise linear on integers: exactly collinear runs
        slopes = np.repeat(rng.randint(0, 6, 1 + n // 4), 4)[:n]
        return 'piecewise-linear', np.cumsum(slopes).astype(float)
    if kind == 5:       # decay that hits zero and stays there
        return 'zero-tail', np.maximum(0.0, 60.0 - rng.uniform(100.0, 260.0) * t) \
            + np.where(t < 0.2, rng.uniform(0.0, 3.0, n), 0.0)
    if kind == 6:       # steep bumpy curve: points project outside the chords
        return 'steep-bumpy', 4000.0 / (1.0 + 25.0 * t) + 60.0 + rng.uniform(-25.0, 25.0, n)
    if kind == 7:       # miss ratio with working-set steps, values in [0, 1]
        c1, c2 = sorted(rng.uniform(0.1, 0.9, 2))
        return 'mrc', 0.95 - 0.4 / (1.0 + np.exp(-(t - c1) * 30.0)) \
            - 0.45 / (1.0 + np.exp(-(t - c2) * 15.0)) - 0.02 * t
    return 'random-walk', np.abs(np.cumsum(rng.normal(0.0, 1.0, n))) + 0.5


def curves():
    # the curve from the test-suite (integers, as there)
    yield 'test-suite', np.array([[0, 0], [1, 1], [2, 2], [3, 2], [4, 3], [5, 4]])
    # straight line, constant curve, all zeros
    yield 'line', np.column_stack((np.arange(9.0), 3.0 * np.arange(9.0) + 1.0))
    yield 'constant', np.column_stack((np.arange(1.0, 8.0), np.full(7, 2.5)))
    yield 'zeros', np.column_stack((np.arange(1.0, 7.0), np.zeros(6)))
    rng = np.random.RandomState(20241003)
    for i in range(330):
        if i < 200:
            n = rng.randint(2, 13)
        elif i < 310:
            n = rng.randint(13, 27)
        else:
            n = rng.randint(40, 61)
        x = _grid(rng, n)
        name, y = _shape(rng, x, n)
        scale = [1.0, 1.0, 1.0, 1e-3, 1e3, 1e6][rng.randint(0, 6)]
        y = np.maximum(y, 0.0) * scale
        pts = np.column_stack((x, y))
        if rng.randint(0, 5) == 0:
            # integer data (counts) of moderate magnitude (products of
            # coordinate differences stay far below 2**63); x strictly increasing
            pts = np.column_stack((np.arange(1, n + 1) * rng.randint(1, 5),
                                   np.round(y / scale * [1.0, 10.0, 1000.0][rng.randint(0, 3)])))
            pts = pts.astype(np.int64)
            name += '-int'
        yield '%s#%d' % (name, i), pts


def main():
    errors = []
    count = 0
    for name, pts in curves():
        count += 1
        errors.extend(check_curve(name, pts))
    if errors:
        print('C05 VIOLATED (%d findings on %d curves), first ones:' % (len(errors), count))
        for e in errors[:12]:
            print('  -', e)
        return 1
    print('C05 holds on all %d generated curves' % count)
    return 0


if __name__ == '__main__':
    rc = main()
    sys.stdout.flush()
    sys.exit(rc)
