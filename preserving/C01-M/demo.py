#!/usr/bin/env python
"""
C01 property test (round 7, property-preserving change M).

C01: for every performance curve (n >= 2 points, finite, strictly increasing
x, y >= 0) and every choice of threshold, distance, cost metric, segment
ordering and size parameter, each simplifier (rdp, grdp, rdp_fixed, mp_grdp,
min_point_rdp) returns after a number of refinement steps bounded linearly in
n; the returned index list is strictly increasing, starts at 0 and ends at
n-1; the removed table has exactly one row [left index, number of dropped
interior points] per retained segment, so retained + dropped = n.

What is checked per call
 * the call returns (per-call alarm) and the number of chord-distance kernel
   evaluations (one per refinement step, at most two more for the ordering
   heuristics) is <= 3*n + 3 per simplifier pass (min_point_rdp makes one
   pass per threshold plus one fixed-size pass),
 * the index list / removed table clauses above, literally.
Nothing else is checked: which points are retained, dtypes and the last bits
of any float are not part of the statement.

Takes no arguments.  Exit 0: no violation found, exit 1: violation found.
"""
import itertools
import signal
import sys
import time
import warnings

import numpy as np

warnings.simplefilter('ignore')
np.seterr(all='ignore')


class Hang(Exception):
    pass


def _on_alarm(signum, frame):
    raise Hang()


signal.signal(signal.SIGALRM, _on_alarm)
CALL_LIMIT = 10      # seconds for a single simplifier call
SOFT_LIMIT = 30      # stop starting new curves after this many seconds
HARD_LIMIT = 58      # whole program

import kneeliverse.rdp as rdp
import kneeliverse.linear_fit as lf
from kneeliverse.metrics import Metrics

calls = [0]


def _counting(f):
    def wrapper(*args, **kwargs):
        calls[0] += 1
        return f(*args, **kwargs)
    return wrapper


lf.shortest_distance_points = _counting(lf.shortest_distance_points)
lf.perpendicular_distance_points = _counting(lf.perpendicular_distance_points)


def violations(points, result):
    n = len(points)
    try:
        reduced, removed = result
    except Exception as e:
        return ['result is not a (reduced, removed) pair: %r' % (e,)]
    reduced = np.asarray(reduced)
    removed = np.asarray(removed)
    errs = []
    if reduced.ndim != 1 or len(reduced) < 2:
        return ['bad index list %r' % (reduced,)]
    if not np.all(reduced == np.round(reduced)):
        errs.append('non integral indices')
    if reduced[0] != 0:
        errs.append('index list does not start at 0')
    if reduced[-1] != n - 1:
        errs.append('index list does not end at n-1')
    if not np.all(np.diff(reduced) > 0):
        errs.append('index list is not strictly increasing')
    if removed.ndim != 2 or removed.shape != (len(reduced) - 1, 2):
        errs.append('removed table has shape %r for %d retained segments'
                    % (removed.shape, len(reduced) - 1))
    else:
        if not np.array_equal(removed[:, 0], reduced[:-1]):
            errs.append('removed rows are not keyed by the segment starts')
        if not np.array_equal(removed[:, 1], np.diff(reduced) - 1):
            errs.append('removed counts are not the dropped interior points')
        if len(reduced) + removed[:, 1].sum() != n:
            errs.append('retained + dropped != n')
    if errs:
        errs = ['; '.join(errs) + ' (reduced=%s removed=%s)'
                % (reduced.tolist()[:40], removed.tolist()[:40])]
    return errs


def gen_curve(rng, i):
    if i % 50 == 49:
        n = int(rng.integers(600, 1500))
    else:
        n = int(rng.choice([2, 2, 3, 3, 4, 5, 6, 7, 8, 10, 13, 21, 40, 90]))
    if rng.random() < 0.5:
        x = np.cumsum(rng.integers(1, 5, n)).astype(float)
    else:
        x = np.cumsum(rng.uniform(0.05, 3.0, n))
    kind = int(rng.integers(0, 13))
    if kind == 0:        # small integers: ties, plateaus, zeros
        y = rng.integers(0, 5, n).astype(float)
    elif kind == 1:      # random decreasing
        y = np.sort(rng.uniform(0, 100, n))[::-1].copy()
    elif kind == 2:      # hyperbola
        y = 100.0 / (1.0 + x)
    elif kind == 3:      # ramp that ends in a zero run
        y = np.maximum(0.0, 20.0 - 2.0 * x)
    elif kind == 4:      # plateau (possibly all zero)
        y = np.full(n, float(rng.integers(0, 4)))
    elif kind == 5:      # sloped collinear run
        y = 3.0 * x + float(rng.integers(0, 3))
    elif kind == 6:      # staircase
        y = np.repeat(rng.integers(0, 5, (n + 2) // 3), 3)[:n].astype(float)
    elif kind == 7:      # noise
        y = rng.uniform(0, 1, n)
    elif kind == 8:      # collinear, decreasing to exactly zero
        x = np.arange(1, 3 * n + 1, 3).astype(float)
        y = (x[-1] - x) / 3.0
    elif kind == 9:      # symmetric tent / V: ties between farthest points
        x = np.arange(n, dtype=float)
        m = (n - 1) / 2.0
        y = np.abs(x - m) if rng.random() < 0.5 else m - np.abs(x - m)
    elif kind == 10:     # two collinear pieces (one exact knee)
        k = int(rng.integers(0, n))
        y = np.where(np.arange(n) <= k, 50.0 + 2.0 * (x[k] - x), 50.0)
    elif kind == 11:     # all zero
        y = np.zeros(n)
    else:                # knee + noise
        y = 1000.0 / (1.0 + x) + rng.uniform(0, 1, n)
    pts = np.column_stack((x, y))
    r = rng.random()
    if r < 0.2 and np.all(pts == np.round(pts)):
        pts = pts.astype(np.int64)                      # integer dtype
    elif r < 0.30:
        pts[:, 1] *= 10.0 ** int(rng.choice([-150, -30, 30, 150]))
    elif r < 0.38:
        pts[:, 0] *= 10.0 ** int(rng.choice([-150, -20, 20, 150]))
    elif r < 0.46:
        pts *= 10.0 ** int(rng.choice([-150, -60, 60, 150]))
    return pts


DIST = list(rdp.Distance)
COST = list(Metrics)
ORDER = list(rdp.Order)
CONFIGS = list(itertools.product(DIST, COST, ORDER))    # 2 x 5 x 3


def threshold(rng, cost):
    if cost is Metrics.r2:
        return float(rng.choice([1.0, 0.99, 0.9, 0.5, 1e-3, rng.uniform(1e-6, 1.0)]))
    return float(rng.choice([1e-300, 1e-12, 1e-4, 0.01, 0.1, 1.0, 50.0, 1e30,
                             10.0 ** rng.uniform(-6, 1)]))


def main():
    rng = np.random.default_rng(7001)
    start = time.time()
    failures = []
    ncalls = 0
    ncurves = 0

    def run(label, pts, f, *args, passes=1, **kwargs):
        # passes: number of complete simplifier runs the call is made of
        # (min_point_rdp: one gRDP run per threshold plus the fixed-size run)
        nonlocal ncalls
        ncalls += 1
        calls[0] = 0
        arg = pts.copy()
        signal.alarm(CALL_LIMIT)
        try:
            res = f(arg, *args, **kwargs)
        except Hang:
            failures.append('%s did not return within %d s, n=%d, head=%s'
                            % (label, CALL_LIMIT, len(pts), pts[:6].tolist()))
            return
        except Exception as e:
            failures.append('%s raised %r, n=%d, head=%s'
                            % (label, e, len(pts), pts[:6].tolist()))
            return
        finally:
            signal.alarm(0)
        if calls[0] > passes * (3 * len(pts) + 3):
            failures.append('%s needed %d chord evaluations for n=%d'
                            % (label, calls[0], len(pts)))
        for v in violations(pts, res):
            failures.append('%s: %s, n=%d, head=%s'
                            % (label, v, len(pts), pts[:6].tolist()))

    # the two curves quoted in the property description, all configurations
    fixed_curves = [np.array([[1, 2], [4, 1], [7, 0]]),
                    np.array([[0, 0], [1, 9], [3, 27]]),
                    np.array([[1., 2.], [4., 1.], [7., 0.]]),
                    np.array([[0., 5.], [1., 0.]]),
                    np.array([[0., 0.], [1e-150, 0.]]),
                    np.array([[0., 1e150], [1e150, 0.], [2e150, 1e150]])]
    for pts in fixed_curves:
        for dist, cost, order in CONFIGS:
            t = 1.0 if cost is Metrics.r2 else 0.01
            run('rdp', pts, rdp.rdp, t=t, distance=dist, cost=cost)
            run('grdp', pts, rdp.grdp, t=t, distance=dist, cost=cost, order=order)
            for length in (0, 2, 3, 5):
                run('rdp_fixed', pts, rdp.rdp_fixed, length=length,
                    distance=dist, order=order)
                run('mp_grdp', pts, rdp.mp_grdp, t=t, min_points=length,
                    distance=dist, cost=cost, order=order)
        run('min_point_rdp', pts, rdp.min_point_rdp, passes=4)

    i = 0
    while time.time() - start < SOFT_LIMIT and ncurves < 420 and len(failures) < 20:
        pts = gen_curve(rng, i)
        n = len(pts)
        big = n > 200
        ncurves += 1
        # every curve sees 3 of the 30 configurations, round robin, so that
        # the whole 2x5x3 space is covered every 10 curves
        for k in range(1 if big else 3):
            dist, cost, order = CONFIGS[(3 * i + k) % len(CONFIGS)]
            cfg = '[%s,%s,%s]' % (dist, cost, order)
            t = threshold(rng, cost)
            size = int(rng.choice([0, 1, 2, 3, n // 2, n - 1, n, n + 3, 2 * n + 1]))
            run('rdp%s t=%g' % (cfg, t), pts, rdp.rdp, t=t, distance=dist, cost=cost)
            run('grdp%s t=%g' % (cfg, t), pts, rdp.grdp, t=t, distance=dist,
                cost=cost, order=order)
            run('rdp_fixed%s length=%d' % (cfg, size), pts, rdp.rdp_fixed,
                length=size, distance=dist, order=order)
            run('mp_grdp%s t=%g min_points=%d' % (cfg, t, size), pts, rdp.mp_grdp,
                t=t, min_points=size, distance=dist, cost=cost, order=order)
        if not big:
            ts = [float(v) for v in 10.0 ** rng.uniform(-8, 0, int(rng.integers(1, 4)))]
            mp = int(rng.choice([0, 2, 3, n, n + 2]))
            run('min_point_rdp t=%s min_points=%d' % (ts, mp), pts,
                rdp.min_point_rdp, t=ts, min_points=mp, passes=len(ts) + 1)
        i += 1

    print('curves: %d, simplifier calls: %d, %.1f s'
          % (ncurves + len(fixed_curves), ncalls, time.time() - start))
    if failures:
        print('C01 VIOLATED (%d):' % len(failures))
        for f in failures[:20]:
            print('  ' + f)
        return 1
    print('C01 holds on all generated cases')
    return 0


if __name__ == '__main__':
    # hard guard for the whole program: a hang is a violation
    def _hard(signum, frame):
        print('C01 VIOLATED: the test did not finish within %d s' % HARD_LIMIT)
        sys.stdout.flush()
        import os
        os._exit(1)
    # the per-call alarm uses SIGALRM; the global guard uses a timer thread
    import threading
    guard = threading.Timer(HARD_LIMIT, _hard, args=(None, None))
    guard.daemon = True
    guard.start()
    try:
        rc = main()
    except Hang:
        print('C01 VIOLATED: a simplifier call did not return')
        rc = 1
    sys.stdout.flush()
    sys.exit(rc)
