#!/usr/bin/env python
"""
C02 property test (L): recursive multi-knee detection terminates, is
well-formed and self-similar.

For a few hundred generated valid curves x the five bundled detectors x
thresholds (t1 >= 0, t2 >= detector minimum) it checks, on EVERY range of the
decomposition tree:
  * the call returns (a watchdog turns a hang into exit status 1),
  * the result is a 1-d strictly increasing array of indices inside [0, n-2]
    (strictly interior for every detector but Menger),
  * the result is empty when the range has at most t2 points or when its
    endpoint-line SMAPE (evaluated here independently in plain NumPy) is
    below t1,
  * otherwise it equals {k} + result(points[0..k]) + (k+1 + result(points[k+1..]))
    where k is the detector's own single-knee answer on the range.

Exit status 0: the property holds on all inputs, 1: violated.
"""
import os
import signal
import sys
import time


def _timeout(signum, frame):
    print('FAIL: a multi_knee call did not terminate (watchdog)')
    sys.stdout.flush()
    os._exit(1)


signal.signal(signal.SIGALRM, _timeout)
signal.alarm(58)

import numpy as np

import kneeliverse.curvature as curvature
import kneeliverse.dfdt as dfdt
import kneeliverse.menger as menger
import kneeliverse.lmethod as lmethod
import kneeliverse.kneedle as kneedle

# (module, minimum t2, strictly interior)
DETECTORS = [(curvature, 3, True), (dfdt, 3, True), (menger, 4, False),
             (lmethod, 4, True), (kneedle, 3, True)]


def chord_smape(points):
    """endpoint-line SMAPE, evaluated independently of the library (float64)"""
    x = points[:, 0].astype(np.float64)
    y = points[:, 1].astype(np.float64)
    m = (y[0] - y[-1]) / (x[0] - x[-1])
    b = y[0] - m * x[0]
    y_hat = x * m + b
    return float(np.mean(2.0 * np.abs(y_hat - y) / (np.abs(y) + np.abs(y_hat) + 1e-16)))


class Violation(Exception):
    pass


def check(mod, interior, points, t1, t2, path='root', full=True):
    n = len(points)
    res = np.asarray(mod.multi_knee(points, t1, t2))
    where = '%s, range %s (%d points), t1=%r, t2=%d' % (mod.__name__, path, n, t1, t2)
    if res.ndim != 1:
        raise Violation('%s: result is not a 1-d array: %r' % (where, res))
    lst = [int(v) for v in res]
    if any(float(v) != int(v) for v in res):
        raise Violation('%s: result contains non-integral values: %r' % (where, res))
    if any(b <= a for a, b in zip(lst, lst[1:])):
        raise Violation('%s: result not strictly increasing: %r' % (where, lst))
    lo = 1 if interior else 0
    if lst and (lst[0] < lo or lst[-1] > n - 2):
        raise Violation('%s: index outside [%d, %d]: %r' % (where, lo, n - 2, lst))
    if n <= t2:
        if lst:
            raise Violation('%s: at most t2 points but result is %r' % (where, lst))
        return
    r = chord_smape(points)
    # an independently rounded SMAPE cannot decide exact ties with t1 > 0
    tie = t1 > 0 and abs(r - t1) <= 1e-9 * max(1.0, t1)
    if tie:
        if not lst:
            return
    elif r < t1:
        if lst:
            raise Violation('%s: endpoint-line SMAPE %.6g < t1 but result is %r' % (where, r, lst))
        return
    k = mod.knee(points)
    if k is None:
        if lst:
            raise Violation('%s: detector found no knee but result is %r' % (where, lst))
        return
    k = int(k)
    left = points[:k + 1]
    right = points[k + 1:]
    rl = [int(v) for v in mod.multi_knee(left, t1, t2)]
    rr = [int(v) + k + 1 for v in mod.multi_knee(right, t1, t2)]
    expected = rl + [k] + rr
    if lst != expected:
        raise Violation('%s: endpoint-line SMAPE %.6g >= t1, knee k=%d,\n    expected {k} + left + right = %r\n    but multi_knee returned     %r'
                        % (where, r, k, expected, lst))
    if full:
        check(mod, interior, left, t1, t2, path + '.L')
        check(mod, interior, right, t1, t2, path + '.R')


def gen_curve(rng, n):
    """a valid curve: strictly increasing finite x, y >= 0, float64 or integer dtype"""
    kind = int(rng.integers(0, 12))
    grid = int(rng.integers(0, 4))
    if grid == 0:
        x = np.arange(n, dtype=float)
    elif grid == 1:
        x = np.cumsum(rng.uniform(0.05, 3.0, n)) + rng.uniform(-20, 20)
    elif grid == 2:
        x = 2.0 ** np.arange(n) if n < 40 else np.cumsum(rng.uniform(0.5, 1.5, n))
    else:
        x = np.arange(n, dtype=float) * rng.uniform(0.01, 50) + rng.uniform(0, 1000)
    i = np.arange(n, dtype=float)
    if kind == 0:
        y = rng.uniform(0, 100, n)
    elif kind == 1:
        y = np.sort(rng.uniform(0, 100, n))[::-1].copy()
    elif kind == 2:
        y = np.sort(rng.uniform(0, 100, n))
    elif kind == 3:
        y = np.abs(rng.uniform(1, 1000) / (1.0 + i) + rng.normal(0, 0.5, n))
    elif kind == 4:
        y = rng.uniform(1, 50) * np.exp(-i / rng.uniform(1, n)) + rng.uniform(0, 5)
    elif kind == 5:                       # staircase / plateaus / ties
        y = np.round(rng.uniform(0, 6, n))
    elif kind == 6:                       # piecewise linear with exact values
        brk = int(rng.integers(1, n - 1))
        y = np.where(i <= brk, 3.0 * (brk - i) + 10, 10.0 - 0.0 * i)
    elif kind == 7:                       # exactly straight ramp or plateau
        y = 2.0 * i + 1.0 if rng.random() < 0.5 else np.full(n, float(rng.integers(0, 9)))
    elif kind == 8:                       # decays to an exact zero floor
        y = np.maximum(0.0, 40.0 - rng.uniform(1, 8) * i)
    elif kind == 9:                       # burst on a zero baseline
        y = np.maximum(0.0, 10.0 - (i - n / 2.0) ** 2)
    elif kind == 10:                      # U shape / large dynamic range
        y = (i - n / 2.0) ** 2 * rng.uniform(0.1, 100)
    else:                                 # log like
        y = np.log1p(i) * rng.uniform(0.5, 20)
    pts = np.stack((x, y), axis=1)
    if rng.random() < 0.2:                # ordinary integer data
        xi = np.cumsum(rng.integers(1, 5, n))
        pts = np.stack((xi, np.round(y).astype(np.int64)), axis=1)
    assert np.all(np.diff(pts[:, 0]) > 0) and np.all(pts[:, 1] >= 0) and np.all(np.isfinite(pts))
    return pts


def main():
    rng = np.random.default_rng(6021)
    start = time.time()
    failures = 0
    ran = 0
    curves = 0
    target = 320
    while curves < target and time.time() - start < 40:
        curves += 1
        big = curves % 16 == 0
        if big:
            n = int(rng.integers(300, 2500))
        else:
            n = int(rng.integers(2, 48))
        if n < 3:
            n = 3
        pts = gen_curve(rng, n)
        for mod, t2min, interior in DETECTORS:
            if big and mod is lmethod:
                continue                   # quadratic single-knee detector
            t1 = [0.0, 0.001, 0.01, float(rng.uniform(0, 0.2)), float(rng.uniform(0, 2.0))][int(rng.integers(0, 5))]
            t2 = t2min + [0, 0, 1, 2, int(rng.integers(0, 12))][int(rng.integers(0, 5))]
            if rng.random() < 0.1 and not big:
                t2 = max(t2min, n - 1)     # the curve has exactly t2+1 points
            if big and t1 == 0.0:
                t1 = 0.001
            ran += 1
            try:
                check(mod, interior, pts, t1, t2, full=not big)
            except Violation as e:
                failures += 1
                if failures <= 5:
                    print('VIOLATION dtype=%s x=%s y=%s' % (pts.dtype, pts[:12, 0].tolist(), pts[:12, 1].tolist()))
                    print('  ' + str(e))
            except Exception as e:
                failures += 1
                if failures <= 5:
                    print('EXCEPTION %s n=%d t1=%r t2=%d: %r' % (mod.__name__, n, t1, t2, e))
    print('%d curves, %d detector/threshold configurations checked in %.1f s, %d violated C02'
          % (curves, ran, time.time() - start, failures))
    return 1 if failures else 0


if __name__ == '__main__':
    rc = main()
    signal.alarm(0)
    sys.exit(rc)
