#!/usr/bin/env python
"""
C01 property test (change L, property preserving).

For generated performance curves (n >= 2 points, finite, strictly increasing x,
y >= 0; including collinear runs, zero runs, plateaus, integer data, huge and
tiny magnitudes) and every combination of Distance x Metrics x Order with
generated thresholds and size parameters, each simplifier (rdp, grdp,
rdp_fixed, mp_grdp, min_point_rdp) must

 * return (a per-call time limit stands in for 'number of refinement steps
   bounded linearly in n'; additionally the number of chord-distance
   evaluations, one per refinement step, is counted and must be <= 3*n + 3),
 * return an index list that is strictly increasing, starts at 0, ends at n-1,
 * return a removed table with exactly one row
   [left index, number of dropped interior points] per retained segment,
   so that retained + dropped = n.

Exit status 0: property holds for all cases tried, 1: a violation was found.
"""
import signal
import sys
import time
import warnings

import numpy as np

warnings.simplefilter('ignore')


class Hang(Exception):
    pass


def _on_alarm(signum, frame):
    raise Hang()


signal.signal(signal.SIGALRM, _on_alarm)
CALL_LIMIT = 8      # seconds for one call
HARD_LIMIT = 50     # seconds for the whole program

import kneeliverse.rdp as rdp
import kneeliverse.linear_fit as lf
from kneeliverse.metrics import Metrics


# --- count the refinement steps: every step evaluates the chord distances of
# --- the segment it explores (plus at most two evaluations for the ordering)
class Counter:
    def __init__(self):
        self.calls = 0


counter = Counter()


def _counting(f):
    def wrapper(*args, **kwargs):
        counter.calls += 1
        return f(*args, **kwargs)
    return wrapper


lf.shortest_distance_points = _counting(lf.shortest_distance_points)
lf.perpendicular_distance_points = _counting(lf.perpendicular_distance_points)


def check(points, result):
    """returns a list of violations of the well-formedness property"""
    n = len(points)
    errs = []
    try:
        reduced, removed = result
    except Exception as e:
        return ['result is not a (reduced, removed) pair: %r' % (e,)]
    reduced = np.asarray(reduced)
    removed = np.asarray(removed)
    if reduced.ndim != 1 or len(reduced) < 2:
        return ['bad index list %r' % (reduced,)]
    if reduced[0] != 0:
        errs.append('index list does not start at 0')
    if reduced[-1] != n - 1:
        errs.append('index list does not end at n-1')
    if not np.all(np.diff(reduced) > 0):
        errs.append('index list is not strictly increasing')
    if removed.ndim != 2 or removed.shape != (len(reduced) - 1, 2):
        errs.append('removed table has shape %r for %d retained segments'
                    % (removed.shape, len(reduced) - 1))
    else:
        if not np.array_equal(removed[:, 0], reduced[:-1]):
            errs.append('removed rows do not start at the retained segment starts')
        if not np.array_equal(removed[:, 1], np.diff(reduced) - 1):
            errs.append('removed counts differ from the dropped interior points')
        if len(reduced) + removed[:, 1].sum() != n:
            errs.append('retained + dropped != n')
    if errs:
        errs = ['%s (reduced=%s, removed=%s)'
                % ('; '.join(errs), reduced.tolist()[:60], removed.tolist()[:60])]
    return errs


def gen_curve(rng, i):
    if i % 40 == 39:
        n = int(rng.integers(1000, 2500))
    else:
        n = int(rng.choice([2, 3, 4, 5, 6, 7, 9, 12, 20, 33, 64, 150]))
    kind = int(rng.integers(0, 10))
    if rng.random() < 0.5:
        x = np.cumsum(rng.integers(1, 5, n)).astype(float)
    else:
        x = np.cumsum(rng.uniform(0.1, 3.0, n))
    if kind == 0:                       # small integers: ties, plateaus, zeros
        y = rng.integers(0, 6, n).astype(float)
    elif kind == 1:                     # random decreasing
        y = np.sort(rng.uniform(0, 100, n))[::-1].copy()
    elif kind == 2:                     # hyperbola (knee)
        y = 100.0 / (1.0 + x)
    elif kind == 3:                     # ramp that ends in a zero run
        y = np.maximum(0.0, 20.0 - 2.0 * x)
    elif kind == 4:                     # plateau (possibly all zero)
        y = np.full(n, float(rng.integers(0, 4)))
    elif kind == 5:                     # sloped collinear run
        y = 3.0 * x + 1.0
    elif kind == 6:                     # staircase
        y = np.repeat(rng.integers(0, 5, (n + 2) // 3), 3)[:n].astype(float)
    elif kind == 7:                     # noise of some magnitude
        y = rng.uniform(0, 1, n) * 10.0 ** int(rng.integers(-3, 6))
    elif kind == 8:                     # collinear, decreasing to exactly zero
        x = np.arange(1, 3 * n + 1, 3).astype(float)
        y = (x[-1] - x) / 3.0
    else:                               # knee + noise
        y = 1000.0 / (1.0 + x) + rng.uniform(0, 1, n)
    pts = np.column_stack((x, y))
    r = rng.random()
    if r < 0.2 and np.all(pts == np.round(pts)):
        pts = pts.astype(int)
    elif r < 0.3:
        pts[:, 1] *= 10.0 ** int(rng.choice([-200, -30, 30, 150]))
    elif r < 0.35:
        pts[:, 0] *= 10.0 ** int(rng.choice([-100, -20, 20, 100]))
    return pts


def main():
    rng = np.random.default_rng(20260106)
    failures = []
    ncalls = 0
    ncurves = 0
    start = time.time()
    distances = list(rdp.Distance)
    costs = list(Metrics)
    orders = list(rdp.Order)
    combos = [(d, c, o) for d in distances for c in costs for o in orders]

    i = 0
    while ncurves < 360 and time.time() - start < HARD_LIMIT - 2 * CALL_LIMIT - 10:
        pts = gen_curve(rng, i)
        n = len(pts)
        # every one of the 2x5x3 configurations is visited 12 times
        dist, cost, order = combos[i % len(combos)]
        i += 1
        ncurves += 1
        t = float(rng.choice([1.0, 0.5, 0.1, 0.01, 1e-3, 1e-6, 1e-12]))
        if cost is not Metrics.r2 and rng.random() < 0.15:
            t = float(rng.choice([2.0, 10.0]))
        k = int(rng.choice([0, 1, 2, 3, 4, n // 2, n - 1, n, n + 1, 2 * n,
                            int(rng.integers(0, n + 3))]))
        tl = [float(v) for v in rng.choice([0.5, 0.1, 0.01, 0.001, 0.0001, 1e-6],
                                           size=int(rng.integers(0, 4)))]
        calls = [
            ('rdp(t=%g, %s, %s)' % (t, dist, cost),
             lambda: rdp.rdp(pts, t, dist, cost)),
            ('grdp(t=%g, %s, %s, %s)' % (t, dist, cost, order),
             lambda: rdp.grdp(pts, t, dist, cost, order)),
            ('rdp_fixed(length=%d, %s, %s)' % (k, dist, order),
             lambda: rdp.rdp_fixed(pts, k, dist, order)),
            ('mp_grdp(t=%g, min_points=%d, %s, %s, %s)' % (t, k, dist, cost, order),
             lambda: rdp.mp_grdp(pts, t, k, dist, cost, order)),
            ('min_point_rdp(t=%s, min_points=%d)' % (tl, k),
             lambda: rdp.min_point_rdp(pts, list(tl), k)),
            ('min_point_rdp(default t, min_points=%d)' % k,
             lambda: rdp.min_point_rdp(pts, min_points=k)),
        ]
        for name, f in calls:
            ncalls += 1
            counter.calls = 0
            signal.alarm(CALL_LIMIT)
            try:
                res = f()
                signal.alarm(0)
                errs = check(pts, res)
                # one chord evaluation per step + two for the ordering
                # (rdp: one per split); min_point_rdp runs up to 4 passes
                passes = 4 if name.startswith('min_point_rdp') else 1
                if counter.calls > passes * (3 * n + 3):
                    errs.append('%d chord evaluations for n = %d points'
                                % (counter.calls, n))
            except Hang:
                errs = ['did not return within %d s' % CALL_LIMIT]
            except Exception as e:
                errs = ['raised %r' % (e,)]
            finally:
                signal.alarm(0)
            for e in errs:
                failures.append('%s on n=%d curve %s...: %s'
                                % (name, n, pts[:6].tolist(), e))

    if failures:
        print('C01 VIOLATED in %d of %d calls (%d curves), e.g.:'
              % (len(failures), ncalls, ncurves))
        for f in failures[:8]:
            print('  ' + (f if len(f) < 700 else f[:700] + ' ...'))
        return 1
    print('C01 holds for all %d calls on %d curves (%.1f s)'
          % (ncalls, ncurves, time.time() - start))
    return 0


if __name__ == '__main__':
    sys.exit(main())
