#!/usr/bin/env python
# Property test for C06 (used for the property-preserving change C06-L):
#
#   grdp(points, t, distance, cost, order) returns the shortest member S_k of
#   the fixed-size refinement sequence (k = 2, 3, ...; S_k = rdp_fixed(points,
#   k, distance, order)) whose global reconstruction cost is on the accepting
#   side of t (cost < t for smape/rpd/rmspe/rmsle, r2 >= t for r2) and all
#   points if none is; mp_grdp returns S_max(k, min(m, n)); min_point_rdp
#   returns the grdp result for the largest listed threshold that yields at
#   least m points and otherwise S_min(m, n).
#
# exit 0: property holds on all generated inputs, exit 1: violation found.
import signal
import sys
import time


def _timeout(signum, frame):
    print('TIMEOUT: the library did not terminate within the time limit')
    sys.exit(1)


signal.signal(signal.SIGALRM, _timeout)
signal.alarm(58)

import numpy as np
import kneeliverse.rdp as rdp
import kneeliverse.metrics as metrics
import kneeliverse.evaluation as evaluation

EPS = 1e-16
T0 = time.time()
BUDGET = 40.0   # seconds spent generating cases (the mandatory part is much shorter)


def independent_cost(points, reduced, cost):
    """Re-implementation of the global reconstruction cost (no library code)."""
    y_all, yh_all = [], []
    for a, b in zip(reduced[:-1], reduced[1:]):
        a, b = int(a), int(b)
        x = points[a:b+1, 0]
        y = points[a:b+1, 1].astype(float)
        if b - a < 2:
            y_all.append(y)
            yh_all.append(y)
            continue
        m = (y[0]-y[-1])/(x[0]-x[-1])
        c = y[0]-m*x[0]
        y_all.append(y)
        yh_all.append(m*x+c)
    y = np.concatenate(y_all)
    yh = np.concatenate(yh_all)
    total = len(y)
    if cost is metrics.Metrics.r2:
        yy = points[:, 1]
        tss = np.sum(np.square(yy-np.mean(yy)))
        rss = np.sum(np.square(y-yh))
        v = 1.0-rss if tss == 0 else 1.0-rss/tss
    elif cost is metrics.Metrics.rmsle:
        v = np.sqrt(np.sum(np.square(np.log(y+1)-np.log(yh+1)))/total)
    elif cost is metrics.Metrics.rmspe:
        v = np.sqrt(np.sum(np.square((y-yh)/(y+EPS)))/total)
    elif cost is metrics.Metrics.rpd:
        v = np.sum(np.abs((y-yh)/(np.maximum(y, yh)+EPS)))/total
    else:
        v = np.sum(2.0*np.abs(yh-y)/(np.abs(y)+np.abs(yh)+EPS))/total
    return max(0.0, float(v))


def accepted(value, t, cost):
    return value >= t if cost is metrics.Metrics.r2 else value < t


class Sequence:
    """Lazily evaluated fixed-size refinement sequence and its global costs
    (every cost is computed from scratch, without any shared cache)."""

    def __init__(self, points, distance, order):
        self.points, self.distance, self.order = points, distance, order
        self.n = len(points)
        self.sets = {}
        self.costs = {}

    def S(self, k):
        k = max(2, min(k, self.n))
        if k not in self.sets:
            s, _ = rdp.rdp_fixed(self.points, k, distance=self.distance, order=self.order)
            s = [int(i) for i in s]
            assert len(s) == k, 'rdp_fixed returned %d points for length %d' % (len(s), k)
            self.sets[k] = s
        return self.sets[k]

    def cost(self, k, cost):
        if (k, cost) not in self.costs:
            self.costs[(k, cost)] = evaluation.compute_global_cost(self.points, np.array(self.S(k)), cost)
        return self.costs[(k, cost)]

    def first(self, t, cost, limit=None):
        """index of the first accepted member (n if none is accepted)"""
        for k in range(2, self.n+1):
            if accepted(self.cost(k, cost), t, cost):
                return k
            if limit is not None and k >= limit:
                return None
        return self.n


def small_curves(rng):
    out = []
    for _ in range(3):
        for n in (3, 4, 5, 7, 10, 16, 24, 37):
            x = np.cumsum(rng.uniform(0.2, 2.0, n))
            kind = rng.integers(0, 8)
            if kind == 0:     # smooth decay + noise
                y = 80.0/(x**rng.uniform(0.5, 1.5)) + rng.uniform(0, 1.0, n) + 0.1
            elif kind == 1:   # concave growth
                y = 10.0*np.log1p(x) + rng.uniform(0, 0.4, n)
            elif kind == 2:   # integer staircase on integer x (many exact ties)
                x = np.arange(1, n+1, dtype=float)
                y = np.floor(x/int(rng.integers(2, 4)))
            elif kind == 3:   # periodic pattern of congruent pieces (ties)
                x = np.arange(n, dtype=float)
                y = np.array([0, 3, 4, 3][:int(rng.integers(2, 5))]*n, dtype=float)[:n] + 2.0
            elif kind == 4:   # plateaus and collinear runs, zeros allowed
                y = np.maximum(0.0, 10.0 - np.round(x/3.0)*2.0)
            elif kind == 5:   # noisy / spiky (non monotone cost sequences)
                y = rng.uniform(0.0, 50.0, n)
                y[rng.integers(0, n)] += 200.0
            elif kind == 6:   # straight line and constant curve
                y = 3.0*x + 1.0 if rng.integers(0, 2) else np.full(n, 7.0)
            else:             # small integers, repeated values
                x = np.arange(1, n+1, dtype=float)
                y = np.sort(rng.integers(0, 6, n))[::-1].astype(float)
            out.append(np.column_stack((x, y)))
    return out


def big_curves(rng):
    out = []
    for n in (300, 1200):
        x = np.arange(1, n+1, dtype=float)
        y = 1000.0/np.sqrt(x) + 5.0*np.sin(x/40.0) + rng.uniform(0, 1.0, n) + 10.0
        out.append(np.column_stack((x, y)))
    # integer staircase with many ties, a few hundred points
    x = np.arange(1, 241, dtype=float)
    out.append(np.column_stack((x, np.floor(x/8.0) + 1.0)))
    return out


def main():
    rng = np.random.default_rng(606)
    failures = []
    counts = {'grdp': 0, 'mp_grdp': 0, 'min_point_rdp': 0, 'cost': 0}
    all_metrics = list(metrics.Metrics)
    all_dist = list(rdp.Distance)
    all_order = list(rdp.Order)

    def check_grdp(seq, t, cost, limit=None):
        points, n = seq.points, seq.n
        first = seq.first(t, cost, limit)
        if first is None:
            return None
        got, removed = rdp.grdp(points, t=t, distance=seq.distance, cost=cost, order=seq.order)
        got = [int(i) for i in got]
        counts['grdp'] += 1
        if got != seq.S(first):
            failures.append('grdp n=%d %s %s %s t=%r: expected S_%d=%s got %s'
                            % (n, cost, seq.distance, seq.order, t, first, seq.S(first)[:12], got[:12]))
        return first

    def check_mp(seq, t, cost, m, first):
        points, n = seq.points, seq.n
        exp = seq.S(max(first, min(m, n)))
        got, _ = rdp.mp_grdp(points, t=t, min_points=m, distance=seq.distance, cost=cost, order=seq.order)
        got = [int(i) for i in got]
        counts['mp_grdp'] += 1
        if got != exp:
            failures.append('mp_grdp n=%d %s %s %s t=%r m=%d: expected S_%d=%s got %s'
                            % (n, cost, seq.distance, seq.order, t, m, max(first, min(m, n)), exp[:12], got[:12]))

    def thresholds(seq, cost):
        n = seq.n
        ts = []
        ks = sorted(set(int(k) for k in rng.integers(2, n+1, 3)))
        for k in ks:
            c = seq.cost(k, cost)
            ts.append(c)                                   # exactly a cost of the sequence
            if k < n:
                ts.append(0.5*(c + seq.cost(k+1, cost)))    # between two costs
            ts.append(c*(1.0 + 1e-9) + 1e-300)             # just above
            ts.append(c*(1.0 - 1e-9))                      # just below
        ts.append(float(10.0**rng.uniform(-5, 0)))          # ordinary value
        ts.append(1.5 if cost is metrics.Metrics.r2 else 0.0)    # can never be met
        ts.append(-0.5 if cost is metrics.Metrics.r2 else 1e9)   # met by the two end points
        idx = rng.permutation(len(ts))[:5]
        return [ts[i] for i in idx]

    # ---- small curves: every kind, random configurations --------------------
    for points in small_curves(rng):
        n = len(points)
        configs = [(all_dist[rng.integers(0, 2)], all_order[rng.integers(0, 3)]) for _ in range(3)]
        configs.append((rdp.Distance.shortest, rdp.Order.segment))
        seqs = {}
        for distance, order in configs:
            if (distance, order) in seqs:
                continue
            seq = seqs[(distance, order)] = Sequence(points, distance, order)
            for cost in [all_metrics[i] for i in rng.permutation(5)[:3]]:
                # the library cost (fresh cache) agrees with the definition
                k = int(rng.integers(2, n+1))
                a, b = seq.cost(k, cost), independent_cost(points, seq.S(k), cost)
                counts['cost'] += 1
                if abs(a-b) > 1e-9*max(1.0, abs(b)):
                    failures.append('compute_global_cost n=%d k=%d %s: %r != %r' % (n, k, cost, a, b))
                for t in thresholds(seq, cost):
                    first = check_grdp(seq, t, cost)
                    for m in set(int(v) for v in rng.integers(0, n+4, 2)):
                        check_mp(seq, t, cost, m, first)
        # multi-threshold variant: default configuration
        seq = seqs[(rdp.Distance.shortest, rdp.Order.segment)]
        cost = metrics.Metrics.smape
        for _ in range(3):
            ts = thresholds(seq, cost)[:int(rng.integers(1, 5))]
            m = int(rng.integers(2, n+3))
            expected = None
            for t in sorted(ts, reverse=True):
                first = seq.first(t, cost)
                if first >= m:
                    expected = seq.S(first)
                    break
            if expected is None:
                expected = seq.S(min(m, n))
            arg = list(ts)
            got, _ = rdp.min_point_rdp(points, t=arg, min_points=m)
            got = [int(i) for i in got]
            counts['min_point_rdp'] += 1
            if got != expected:
                failures.append('min_point_rdp n=%d t=%r m=%d: expected %s got %s' % (n, ts, m, expected[:12], got[:12]))
            if arg != list(ts):
                failures.append('min_point_rdp modified its threshold list')
        if time.time() - T0 > BUDGET:
            break

    # ---- larger curves: ordinary thresholds, first acceptable prefix is short
    for points in big_curves(rng):
        if time.time() - T0 > BUDGET:
            break
        n = len(points)
        for distance, order in ((rdp.Distance.shortest, rdp.Order.segment),
                                (rdp.Distance.perpendicular, rdp.Order.triangle),
                                (rdp.Distance.shortest, rdp.Order.area)):
            seq = Sequence(points, distance, order)
            for cost in all_metrics:
                if time.time() - T0 > BUDGET:
                    break
                k = int(rng.integers(3, 25))
                c = seq.cost(k, cost)
                for t in (c, 0.5*(c + seq.cost(k+1, cost))):
                    first = check_grdp(seq, t, cost, limit=40)
                    if first is not None:
                        check_mp(seq, t, cost, int(rng.integers(2, 40)), first)

    print('checked: %s in %.1f s' % (counts, time.time()-T0))
    for f in failures[:15]:
        print('FAIL:', f)
    if failures:
        print('%d failures - C06 violated' % len(failures))
        sys.exit(1)
    if counts['grdp'] < 300:
        print('WARNING: only %d grdp cases were generated' % counts['grdp'])
    print('OK: C06 holds on all generated inputs')
    sys.exit(0)


if __name__ == '__main__':
    main()
