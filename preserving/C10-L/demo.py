#!/usr/bin/env python
"""C10 property test (deliverable L, property-preserving change).

For miss-ratio-like curves (strictly increasing non-negative integer x, y in
[0,1], n >= 4) and positive dx, dy, dz, zmethod.knees must terminate and return
strictly increasing valid indices with non-increasing heights; any two knees
are at least max(1, floor(x_max*dx)) apart in x and (y_max - y_min)*dy apart
in y (x_max / y range default to the point count / the curve's own range).

Exit status 0 when the property holds on all generated inputs, 1 otherwise."""
import math
import signal
import sys

import numpy as np


def _timeout(signum, frame):
    print('FAIL: zmethod.knees did not terminate in time')
    sys.exit(1)


signal.signal(signal.SIGALRM, _timeout)
signal.alarm(55)

import kneeliverse.zmethod as zmethod


def gen(rng):
    n = int(rng.choice([4, 5, 6, 7, 8, 10, 15, 20, 30, 40, 60, 80, 100, 150, 200, 400]))
    if rng.random() < 0.5:
        x = np.arange(n) + int(rng.integers(0, 3))
    else:
        x = np.cumsum(rng.integers(1, 6, size=n)) - 1
    x = x.astype(float)
    kind = int(rng.integers(0, 7))
    if kind == 0:      # convex decreasing
        y = 1.0 / (1.0 + np.arange(n) * rng.uniform(0.05, 2))
    elif kind == 1:    # random monotone
        y = np.sort(rng.random(n))[::-1]
    elif kind == 2:    # plateaus and cliffs
        k = min(n - 1, int(rng.integers(1, 8)))
        steps = np.sort(rng.choice(np.arange(1, n), size=k, replace=False))
        levels = np.sort(rng.random(k + 1))[::-1]
        y = levels[np.searchsorted(steps, np.arange(n), side='right')]
    elif kind == 3:    # noisy decreasing, clipped
        y = np.clip(np.linspace(1, 0, n) ** rng.uniform(0.3, 3) + rng.normal(0, 0.05, n), 0, 1)
    elif kind == 4:    # random heights
        y = rng.random(n)
    elif kind == 5:    # decimal grid, monotone, full range
        y = np.round(np.sort(rng.random(n))[::-1], int(rng.integers(1, 3)))
        y[0], y[-1] = 1.0, 0.0
    else:              # decimal grid, random
        y = np.round(rng.random(n), 2)
    dx = float(rng.choice([0.01, 0.05, 0.1, 0.2, 0.5, 1.0, rng.uniform(0.001, 1)]))
    dy = float(rng.choice([0.01, 0.05, 0.1, 0.2, 0.5, 1.0, rng.uniform(0.001, 1)]))
    dz = float(rng.choice([0.05, 0.25, 1.0, rng.uniform(0.01, 1)]))
    x_max = int(rng.integers(n, 5 * n)) if rng.random() < 0.3 else None
    y_range = [1.0, 0.0] if rng.random() < 0.3 else None
    return np.column_stack((x, y)), dx, dy, dz, x_max, y_range


def violations(points, dx, dy, dz, x_max, y_range, res):
    n = len(points)
    x, y = points[:, 0], points[:, 1]
    res = np.asarray(res)
    errs = []
    if len(res) == 0:
        return errs
    if not np.issubdtype(res.dtype, np.integer):
        return ['indices are not integers: %r' % (res.dtype,)]
    if res.min() < 0 or res.max() >= n:
        return ['index out of range: %r' % (res.tolist(),)]
    if np.any(np.diff(res) <= 0):
        errs.append('indices not strictly increasing: %r' % (res.tolist(),))
    h = y[res]
    if np.any(np.diff(h) > 0):
        errs.append('heights increase from left to right: %r' % (h.tolist(),))
    xm = x_max if x_max else n
    y_hi, y_lo = y_range if y_range else (y.max(), y.min())
    x_width = max(1, int(math.floor(xm * dx)))
    y_height = (y_hi - y_lo) * dy
    tol = 1e-12 * max(1.0, abs(y_hi), abs(y_lo))
    for i in range(len(res)):
        for j in range(i + 1, len(res)):
            if abs(x[res[i]] - x[res[j]]) < x_width:
                errs.append('knees at x=%g and x=%g are closer than the x band %d'
                            % (x[res[i]], x[res[j]], x_width))
            if abs(h[i] - h[j]) < y_height - tol:
                errs.append('knees at x=%g (y=%r) and x=%g (y=%r) are closer than the y band %r'
                            % (x[res[i]], float(h[i]), x[res[j]], float(h[j]), float(y_height)))
    return errs


rng = np.random.default_rng(1003)
cases = [gen(rng) for _ in range(600)]

# a few fixed curves: unit-test curve, tenths grid with dy=0.1, flat curve, tiny curves
fixed_y = [
    [1, 0.5, 0.333333333, 0.25, 0.2, 0.2, 0.1, 0.06666666667, 0.05, 0.04],
    [1.0, 0.9, 0.8, 0.7, 0.6, 0.5, 0.4, 0.3, 0.2, 0.1, 0.0],
    [0.5] * 8,
    [1.0, 1.0, 1.0, 1.0],
    [0.0, 0.0, 0.0, 0.0, 0.0],
    [0.3, 0.5, 1.0, 1.0, 0.7, 0.5],
    [1.0, 0.6, 0.3, 0.0, 0.0, 0.4, 0.7, 0.5, 0.2, 0.1],
    [0.78, 0.82, 0.77, 0.65, 0.4, 0.06, 0.1],
]
for ys in fixed_y:
    pts = np.column_stack((np.arange(len(ys), dtype=float), np.array(ys, dtype=float)))
    for dy in (0.05, 0.1, 1.0):
        for dz in (0.05, 0.5):
            cases.append((pts, 0.05, dy, dz, None, None))
            cases.append((pts, 0.2, dy, dz, 3 * len(ys), [1.0, 0.0]))

failed = 0
nonempty = 0
for args in cases:
    res = zmethod.knees(args[0], args[1], args[2], args[3], x_max=args[4], y_range=args[5])
    nonempty += len(res) > 0
    errs = violations(*args, res)
    if errs:
        failed += 1
        if failed <= 3:
            print('PROPERTY C10 VIOLATED for n=%d, dx=%r dy=%r dz=%r x_max=%r y_range=%r'
                  % ((len(args[0]),) + tuple(args[1:])))
            print('  knees =', np.asarray(res).tolist())
            for e in errs[:4]:
                print('  -', e)

signal.alarm(0)
if failed:
    print('%d of %d curves violate the property' % (failed, len(cases)))
    sys.exit(1)
print('ok: property holds on %d curves (%d with at least one knee)' % (len(cases), nonempty))
sys.exit(0)
