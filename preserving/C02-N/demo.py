#!/usr/bin/env python
"""
Property test for C02: recursive multi-knee detection terminates, is
well-formed and self-similar.

For generated valid curves (x strictly increasing, finite y) x the five bundled
detectors x thresholds (t1 >= 0, t2 >= minimum of the detector) it checks

  1. the call returns (SIGALRM watchdog: a hang ends with exit status 1),
  2. the result is a strictly increasing array of integer indices inside
     [0, n-2] (inside [1, n-2] for every detector but Menger),
  3. the result is empty when n <= t2 or when the SMAPE of the line through the
     first and the last point is below t1,
  4. otherwise it is {k} + result(points[0..k]) + (k+1 + result(points[k+1..]))
     with k = the single-knee answer of the same detector on the whole curve
     (nothing at all when the detector has no answer, Kneedle without a peak).

Check 3/4 are applied to the curve and, through the sub-results they ask for,
to the two parts; in addition every curve is checked on one random sub-range.
The SMAPE of check 3 is evaluated here in plain NumPy; when it is within a
few ulps of t1 both decisions are accepted.

The curves include the awkward ones: ties (symmetric curves, equal
curvatures), plateaus, collinear runs, exactly straight curves, zeros,
integer dtype, uneven spacing, and very small / very large magnitudes.
(Menger is exercised for magnitudes 1e-30 .. 1e30 only: the squared side
lengths of its triangle product leave the float range beyond that.)

Exit status 0: property holds on all inputs; 1: violated.
"""
import os
import signal
import sys


def _watchdog(signum, frame):
    print('FAIL: no termination within the time limit')
    sys.stdout.flush()
    os._exit(1)


signal.signal(signal.SIGALRM, _watchdog)
signal.alarm(57)

import warnings

import numpy as np

import kneeliverse.curvature as curvature
import kneeliverse.dfdt as dfdt
import kneeliverse.menger as menger
import kneeliverse.lmethod as lmethod
import kneeliverse.kneedle as kneedle

warnings.simplefilter('ignore')

# name -> (module, minimum t2, strictly interior, magnitudes)
WIDE = (1e-150, 1e-30, 1.0, 1e30, 1e150)
NARROW = (1e-30, 1.0, 1e30)
DETECTORS = {
    'curvature': (curvature, 3, True, WIDE),
    'dfdt': (dfdt, 3, True, WIDE),
    'menger': (menger, 4, False, NARROW),
    'lmethod': (lmethod, 4, True, WIDE),
    'kneedle': (kneedle, 3, True, WIDE),
}


class Violation(Exception):
    pass


def endpoint_smape(points):
    x = np.asarray(points[:, 0], dtype=np.float64)
    y = np.asarray(points[:, 1], dtype=np.float64)
    m = (y[0] - y[-1]) / (x[0] - x[-1])
    b = y[0] - m * x[0]
    y_hat = x * m + b
    return float(np.mean(2.0 * np.abs(y_hat - y) / (np.abs(y) + np.abs(y_hat) + 1e-16)))


def well_formed(res, n, interior, what):
    res = np.asarray(res)
    if res.ndim != 1:
        raise Violation('%s: result is not one-dimensional: %r' % (what, res))
    if res.size == 0:
        return []
    if not np.all(res == np.floor(res)):
        raise Violation('%s: non-integer indices %r' % (what, res))
    lst = [int(v) for v in res]
    lo = 1 if interior else 0
    if lst[0] < lo or lst[-1] > n - 2:
        raise Violation('%s: indices outside [%d, %d]: %r' % (what, lo, n - 2, lst))
    if any(b <= a for a, b in zip(lst, lst[1:])):
        raise Violation('%s: not strictly increasing: %r' % (what, lst))
    return lst


def check(name, points, t1, t2, depth=1):
    mod, _, interior, _ = DETECTORS[name]
    n = len(points)
    what = '%s n=%d t1=%r t2=%d dtype=%s' % (name, n, t1, t2, points.dtype)
    res = well_formed(mod.multi_knee(points, t1, t2), n, interior, what)

    if n <= t2:
        if res:
            raise Violation('%s: at most t2 points but result %r' % (what, res))
        return res

    s = endpoint_smape(points)
    tol = 64 * np.finfo(float).eps * max(abs(s), abs(t1))
    if s < t1 - tol:
        if res:
            raise Violation('%s: SMAPE %r < t1 but result %r' % (what, s, res))
        return res
    undecided = s < t1 + tol and t1 > 0.0

    k = mod.knee(points)
    if k is None:
        expected = []
    else:
        k = int(k)
        lo = 1 if interior else 0
        if not lo <= k <= n - 2:
            raise Violation('%s: single knee %d outside [%d, %d]' % (what, k, lo, n - 2))
        if depth > 0:
            left = check(name, points[:k + 1], t1, t2, depth - 1)
            right = check(name, points[k + 1:], t1, t2, depth - 1)
        else:
            left = [int(v) for v in mod.multi_knee(points[:k + 1], t1, t2)]
            right = [int(v) for v in mod.multi_knee(points[k + 1:], t1, t2)]
        expected = sorted(left + [k] + [k + 1 + v for v in right])

    if res != expected and not (undecided and not res):
        raise Violation('%s: result %r but decomposition at k=%r gives %r (SMAPE %r)'
                        % (what, res, k, expected, s))
    return res


# ----------------------------------------------------------------- generators

def xs(rng, n):
    kind = rng.integers(0, 3)
    if kind == 0:
        return np.arange(n, dtype=float)
    if kind == 1:
        return np.cumsum(rng.uniform(0.05, 3.0, n))
    return np.cumsum(rng.integers(1, 5, n)).astype(float)


def ys(rng, x, kind):
    n = len(x)
    u = (x - x[0]) / (x[-1] - x[0])
    if kind == 0:      # convex decreasing (1/x like)
        return 1.0 / (u + rng.uniform(0.02, 0.5))
    if kind == 1:      # concave increasing
        return 1.0 - np.exp(-u * rng.uniform(1, 12))
    if kind == 2:      # noisy
        return rng.uniform(0.0, 10.0, n)
    if kind == 3:      # plateaus / steps (many ties)
        return np.repeat(rng.integers(0, 6, n), rng.integers(1, 5))[:n].astype(float)
    if kind == 4:      # piecewise linear with collinear runs
        knots = np.sort(rng.choice(np.arange(1, n - 1), size=min(3, n - 2), replace=False))
        vals = rng.integers(-5, 6, len(knots) + 2).astype(float)
        return np.interp(np.arange(n), np.concatenate(([0], knots, [n - 1])), vals)
    if kind == 5:      # exactly straight (integer slope / intercept)
        return rng.integers(-3, 4) * np.round(x * 8) / 8 + rng.integers(-4, 5)
    if kind == 6:      # straight up to rounding noise
        return 0.1 * x + 0.3
    if kind == 7:      # symmetric (mirror ties)
        h = np.abs(np.arange(n) - (n - 1) / 2.0)
        return h ** rng.integers(1, 4)
    if kind == 8:      # zeros with a few bumps
        y = np.zeros(n)
        y[rng.integers(0, n, 2)] = rng.integers(1, 4, 2)
        return y
    if kind == 9:      # constant
        return np.full(n, float(rng.integers(0, 3)))
    if kind == 10:     # monotone knee curve crossing zero
        return np.sort(rng.normal(0, 1, n))[::-1].copy()
    return np.round(20.0 / (1.0 + np.arange(n)))      # integer valued, plateaus in the tail


def curves(rng, count):
    for i in range(count):
        n = int(rng.choice([4, 5, 6, 7, 8, 10, 12, 16, 24, 40]))
        kind = i % 12
        x = xs(rng, n)
        if kind == 7:
            x = np.arange(n, dtype=float)
        y = ys(rng, x, kind)
        yield kind, np.column_stack((x, y))


def main():
    rng = np.random.default_rng(20261003)
    runs = 0
    try:
        for idx, (kind, base) in enumerate(curves(rng, 264)):
            for name, (mod, t2min, interior, mags) in DETECTORS.items():
                variants = [base]
                # integer dtype when the curve is integer valued
                if np.all(base == np.round(base)):
                    variants.append(base.astype(np.int64))
                # very small / very large magnitudes (x, y or both)
                mag = mags[(idx + len(name)) % len(mags)]
                if mag != 1.0:
                    sx, sy = [(mag, mag), (1.0, mag), (mag, 1.0)][idx % 3]
                    variants.append(base * np.array([sx, sy]))
                for pts in variants:
                    n = len(pts)
                    t2 = int(t2min + rng.choice([0, 0, 1, 3]))
                    t1 = float(rng.choice([0.0, 0.001, 0.01, 0.05, 0.3]))
                    check(name, pts, t1, t2)
                    runs += 1
                    # one random sub-range with the smallest t2 and t1 = 0
                    if n > 5:
                        a = int(rng.integers(0, n - 5))
                        b = int(rng.integers(a + 5, n + 1))
                        check(name, pts[a:b], 0.0, t2min)
                        runs += 1
    except Violation as e:
        print('FAIL:', e)
        return 1
    print('OK: C02 holds on %d detector/curve/threshold runs' % runs)
    return 0


if __name__ == '__main__':
    rc = main()
    sys.stdout.flush()
    os._exit(rc)
