#!/usr/bin/env python3
# coding: utf-8
"""
Property test for C08 - the end-to-end pipeline yields valid, ordered knees of
the original curve.

    simplify -> multi-knee on the reduced curve -> worst-knee filter ->
    corner filter -> cluster filter -> index mapping

For every generated performance curve and every drawn configuration
(5 simplifiers x 5 detectors x 4 linkages x 4 ranking modes x thresholds)
the test checks exactly what the property states:

 (a) the pipeline completes (no exception, no hang);
 (b) the mapped knees are a strictly increasing list of indices of the
     original curve;
 (c) every mapped knee is a retained simplification point (member of the
     reduced index set) whose coordinates equal those of the corresponding
     knee in the reduced space;
 (d) every filter stage returns a subsequence of its input;
 (e) from the worst-knee filter onwards the knee heights are non-increasing
     from left to right (exact comparison, no tolerance).

Nothing else is asserted: WHICH points a simplifier retains, which member of a
cluster is selected, dtypes of empty results ... are left open by the
statement and therefore not looked at.

The generator concentrates on the awkward inputs: straight lines and
piecewise-linear curves on integer grids (segments with exactly equal cost in
the fixed / global RDP variants), symmetric curves, plateaus and staircases
(knees with exactly equal heights, whole clusters of tied rankings), zeros,
integer dtype, very small and very large magnitudes, very short curves.

Takes no arguments. Exit status 0: property holds on all cases; 1: violated.
"""

import os
import sys
import time
import signal
import warnings

import numpy as np


def _alarm(signum, frame):
    print('FAIL: time limit hit - the pipeline hangs (or is far too slow)')
    sys.stdout.flush()
    os._exit(1)


signal.signal(signal.SIGALRM, _alarm)
signal.alarm(57)
warnings.simplefilter('ignore')
np.seterr(all='ignore')

START = time.time()
BUDGET = 36.0     # seconds spent on generated cases, the remaining is slack

import kneeliverse
import kneeliverse.rdp as rdp
import kneeliverse.metrics as metrics
import kneeliverse.dfdt as dfdt
import kneeliverse.menger as menger
import kneeliverse.kneedle as kneedle
import kneeliverse.lmethod as lmethod
import kneeliverse.curvature as curvature
import kneeliverse.clustering as clustering
import kneeliverse.postprocessing as pp
import kneeliverse.knee_ranking as kr


DETECTORS = {'curvature': curvature.multi_knee, 'menger': menger.multi_knee,
             'dfdt': dfdt.multi_knee, 'kneedle': kneedle.multi_knee,
             'lmethod': lmethod.multi_knee}
LINKAGES = {'single': clustering.single_linkage, 'complete': clustering.complete_linkage,
            'centroid': clustering.centroid_linkage, 'average': clustering.average_linkage}
RANKINGS = [kr.ClusterRanking.left, kr.ClusterRanking.linear,
            kr.ClusterRanking.right, kr.ClusterRanking.hull]
DISTANCES = [rdp.Distance.shortest, rdp.Distance.perpendicular]
ORDERS = [rdp.Order.segment, rdp.Order.area, rdp.Order.triangle]


# ----------------------------------------------------------------------------
# generators
# ----------------------------------------------------------------------------

def gen_x(rng, n):
    k = rng.randint(5)
    if k == 0:
        return np.arange(n, dtype=float)                      # starts at zero
    if k == 1:
        return np.arange(1.0, n + 1.0)
    if k == 2:
        return np.cumsum(rng.randint(1, 6, size=n)).astype(float)
    if k == 3:
        return np.cumsum(rng.uniform(0.01, 2.0, size=n))
    return float(rng.choice([0.125, 8.0, 1024.0])) * np.arange(1.0, n + 1.0)


def gen_curve(rng):
    """A performance curve: strictly increasing finite x and finite y >= 0."""
    n = int(rng.choice([3, 4, 5, 8, 13, 21, 34, 55, 89, 144, 233, 377]))
    x = gen_x(rng, n)
    u = (x - x[0]) / (x[-1] - x[0])
    fam = rng.randint(12)
    if fam == 0:
        name = 'line'                       # all segments have exactly the same (zero) cost
        y = float(rng.randint(1, 9)) * (x[-1] - x) + float(rng.randint(0, 3))
    elif fam == 1:
        name = 'constant'
        y = np.full(n, float(rng.choice([0.0, 1.0, 7.0])))
    elif fam == 2:
        name = 'pw-linear-grid'             # integer grid, collinear runs
        x = np.arange(n, dtype=float)
        brk = np.unique(np.concatenate(([0, n - 1], rng.randint(0, n, size=rng.randint(1, 6)))))
        lev = np.sort(rng.randint(0, 50, size=len(brk)))[::-1] * float(n)
        y = np.interp(x, brk, lev)
    elif fam == 3:
        name = 'symmetric-tent'             # mirrored halves -> tied segment costs
        h = np.minimum(u, 1.0 - u)
        y = 1.0 - np.round(h * 2.0, 3)
    elif fam == 4:
        name = 'staircase'
        y = np.zeros(n)
        for s in np.sort(rng.uniform(0, 1, size=rng.randint(1, 8))):
            y += (u < s) * float(rng.randint(1, 4))
    elif fam == 5:
        name = 'rounded-hyperbola'          # plateaus / ties in y
        y = np.round(1.0 / (1.0 + 40.0 * u), int(rng.choice([1, 2, 3])))
    elif fam == 6:
        name = 'power'
        y = 1.0 / np.power(1.0 + 60.0 * u, rng.uniform(0.3, 2.5))
    elif fam == 7:
        name = 'exp'
        y = np.exp(-u * rng.uniform(1.0, 15.0))
    elif fam == 8:
        name = 'multi-sigmoid'
        y = np.zeros(n)
        for _ in range(rng.randint(1, 6)):
            y += rng.uniform(0.1, 0.6) / (1.0 + np.exp((u - rng.uniform(0.05, 0.95)) / rng.uniform(0.004, 0.05)))
    elif fam == 9:
        name = 'noisy'
        y = 1.0 / (1.0 + 25.0 * u) + rng.uniform(0.001, 0.08) * rng.rand(n)
    elif fam == 10:
        name = 'repeated-motif'             # the same shape repeated -> tied costs
        m = max(2, n // int(rng.choice([2, 3, 4])))
        motif = np.round(np.exp(-np.arange(m) / (m / 4.0)), 3)
        y = np.concatenate([motif + k for k in range(n // m + 1, 0, -1)])[:n]
    else:
        name = 'zeros-tail'                 # reaches zero and stays there
        y = np.maximum(0.0, 1.0 - u * rng.uniform(1.5, 6.0)) ** rng.choice([1.0, 2.0])
    y = np.abs(np.asarray(y, dtype=float))

    r = rng.rand()
    if r < 0.12:
        # integer valued / integer dtype curve (counts)
        top = y.max() if y.max() > 0 else 1.0
        pts = np.stack((np.round(x * 8.0), np.round(y / top * float(rng.choice([10, 1000])))), axis=1)
        if np.all(np.diff(pts[:, 0]) > 0):
            if rng.rand() < 0.6:
                return name + '/int64', pts.astype(np.int64)
            return name + '/int-valued', pts
    elif r < 0.40:
        sy = float(rng.choice([1e-150, 1e-30, 1e-9, 1e-3, 1e3, 1e9, 1e30, 1e150]))
        # (x extents below ~1e-50 are left out: the menger detector of the unchanged
        #  library divides by an underflowed product there, whatever the simplifier)
        sx = float(rng.choice([1.0, 1.0, 1e-30, 1e-9, 1e9, 1e150]))
        return f'{name}/sy={sy:g}/sx={sx:g}', np.stack((x * sx, y * sy), axis=1)
    return name, np.stack((x, y), axis=1)


def gen_simplifier(rng, n):
    k = rng.randint(5)
    d = DISTANCES[rng.randint(2)]
    o = ORDERS[rng.randint(3)]
    if k == 0:
        if rng.rand() < 0.3:
            t = float(rng.choice([0.8, 0.95, 0.99, 1.0]))
            return f'rdp(r2,{t},{d})', lambda p: rdp.rdp(p, t, distance=d, cost=metrics.Metrics.r2)
        t = float(rng.choice([0.2, 0.05, 0.01, 0.001]))
        c = [metrics.Metrics.smape, metrics.Metrics.rpd][rng.randint(2)]
        return f'rdp({c},{t},{d})', lambda p: rdp.rdp(p, t, distance=d, cost=c)
    if k == 1:
        m = int(rng.choice([2, 3, 5, 8, 16, 32, max(2, n // 2), n, n + 5]))
        return f'rdp_fixed({m},{d},{o})', lambda p: rdp.rdp_fixed(p, m, distance=d, order=o)
    if k == 2:
        t = float(rng.choice([0.1, 0.02, 0.005, 0.0]))
        if rng.rand() < 0.25:
            t2 = float(rng.choice([0.9, 0.99, 1.0]))
            return f'grdp(r2,{t2},{d},{o})', lambda p: rdp.grdp(p, t2, distance=d, cost=metrics.Metrics.r2, order=o)
        return f'grdp({t},{d},{o})', lambda p: rdp.grdp(p, t, distance=d, order=o)
    if k == 3:
        t = float(rng.choice([0.1, 0.02, 0.005]))
        m = int(rng.choice([3, 6, 12, 24, max(2, n // 2)]))
        return f'mp_grdp({t},{m},{d},{o})', lambda p: rdp.mp_grdp(p, t, m, distance=d, order=o)
    m = int(rng.choice([3, 6, 12, 24]))
    ts = [[0.01, 0.001, 0.0001], [0.001, 0.1], [0.05]][rng.randint(3)]
    return f'min_point_rdp({ts},{m})', lambda p: rdp.min_point_rdp(p, t=ts, min_points=m)


def bundled_traces():
    rv = []
    base = os.path.dirname(os.path.abspath(kneeliverse.__file__))
    for d in (os.path.join(base, '..', '..', 'traces'), os.path.join(base, '..', 'traces'), 'traces'):
        if not os.path.isdir(d):
            continue
        for f in sorted(os.listdir(d)):
            if not f.endswith('.csv') or 'expected' in f:
                continue
            try:
                pts = np.genfromtxt(os.path.join(d, f), delimiter=',')
            except Exception:
                continue
            if pts.ndim != 2 or pts.shape[1] != 2 or len(pts) < 3 or not np.all(np.isfinite(pts)):
                continue
            if not np.all(np.diff(pts[:, 0]) > 0):
                continue
            if len(pts) > 1200:   # bounded run time: evenly thinned trace
                pts = pts[np.unique(np.linspace(0, len(pts) - 1, 1200).astype(int))]
            rv.append((f'trace:{f}', pts))
        break
    return rv


# ----------------------------------------------------------------------------
# the property
# ----------------------------------------------------------------------------

def subsequence(sub, full):
    it = iter([int(v) for v in full])
    return all(any(s == f for f in it) for s in [int(v) for v in sub])


def as_index_list(a, what, upper, errors):
    """Index arrays may be empty (then of any dtype); otherwise integers in range."""
    a = np.asarray(a)
    if a.ndim != 1:
        errors.append(f'{what}: not a flat list of indices (shape {a.shape})')
        return None
    if a.size == 0:
        return np.zeros(0, dtype=np.int64)
    if not np.issubdtype(a.dtype, np.integer):
        if not np.all(np.isfinite(a)) or not np.all(a == np.floor(a)):
            errors.append(f'{what}: not integer indices {a}')
            return None
    b = a.astype(np.int64)
    if b.min() < 0 or b.max() >= upper:
        errors.append(f'{what}: indices outside of [0, {upper}): {a}')
        return None
    return b


def run_case(points, reduced, removed, detector, linkage, ranking, tc, tk, presorted):
    """Runs the pipeline after the simplification and returns the list of violations."""
    errors = []
    pr = points[reduced]

    knees = detector(pr)
    worst = pp.filter_worst_knees(pr, knees)
    corner = pp.filter_corner_knees(pr, worst, t=tc)
    cluster = pp.filter_clusters(pr, corner, linkage, tk, ranking)
    if presorted:
        mapped = rdp.mapping(cluster, reduced, removed)
    else:
        mapped = rdp.mapping(cluster, reduced, removed, sorted=False)

    names = ['multi-knee', 'worst-knee filter', 'corner filter', 'cluster filter']
    stages = [as_index_list(k, n, len(pr), errors) for n, k in zip(names, (knees, worst, corner, cluster))]
    if errors:
        return errors

    # (d) every filter returns a subsequence of its input
    for i in range(1, 4):
        if not subsequence(stages[i], stages[i - 1]):
            errors.append(f'(d) {names[i]}: output {stages[i].tolist()} is not a subsequence of the input {stages[i-1].tolist()}')
    # (e) heights non-increasing from the worst-knee filter onwards
    for i in range(1, 4):
        h = pr[stages[i], 1]
        if np.any(h[1:] > h[:-1]):
            errors.append(f'(e) {names[i]}: knee heights increase somewhere: {h.tolist()}')

    # (b) strictly increasing list of original indices
    m = as_index_list(mapped, 'mapping', len(points), errors)
    if m is None:
        return errors
    final = stages[3]
    if len(m) != len(final):
        errors.append(f'(b) {len(final)} knees mapped to {len(m)} indices')
        return errors
    if np.any(np.diff(m) <= 0):
        errors.append(f'(b) mapped knees are not strictly increasing: {m.tolist()}')
    # (c) retained points with the coordinates of the reduced-space knees
    if not np.all(np.isin(m, reduced)):
        errors.append(f'(c) mapped knees {m.tolist()} are not all retained simplification points (knees in reduced space {final.tolist()} -> {np.asarray(reduced)[final].tolist()})')
    elif not np.array_equal(points[m], pr[final]):
        errors.append(f'(c) coordinates of the mapped knees {m.tolist()} differ from the ones of the reduced-space knees {final.tolist()}')
    return errors


def check_reduced(points, reduced, removed):
    """The pipeline indexes the curve with the simplifier output: it has to be usable."""
    errors = []
    reduced = np.asarray(reduced)
    if reduced.ndim != 1 or len(reduced) < 2 or not np.issubdtype(reduced.dtype, np.integer):
        return [f'simplifier: reduced is not a list of at least 2 integer indices: {reduced}']
    if reduced[0] < 0 or reduced[-1] >= len(points) or np.any(np.diff(reduced) <= 0):
        errors.append(f'simplifier: reduced is not strictly increasing inside the curve: {reduced.tolist()}')
    return errors


def main():
    rng = np.random.RandomState(20260911)
    failures, runs, ncurves = 0, 0, 0

    todo = [gen_curve(rng) for _ in range(3000)]
    traces = bundled_traces()
    for i, tr in enumerate(traces):
        todo.insert(11 * (i + 1), tr)

    for cname, points in todo:
        if time.time() - START > BUDGET:
            break
        ncurves += 1
        n = len(points)
        sname, simplify = gen_simplifier(rng, n)
        if n > 500 and ('grdp' in sname or 'min_point' in sname):
            sname, simplify = 'rdp_fixed(60)', (lambda p: rdp.rdp_fixed(p, 60))
        label = f'{cname} n={n} / {sname}'
        try:
            reduced, removed = simplify(points)
            errors = check_reduced(points, reduced, removed)
        except Exception as e:
            errors = [f'(a) simplifier raised {type(e).__name__}: {e}']
        for e in errors:
            failures += 1
            print(f'FAIL [{label}]: {e}')
        if errors:
            continue

        for _ in range(3):
            dname = list(DETECTORS)[rng.randint(5)]
            lname = list(LINKAGES)[rng.randint(4)]
            ranking = RANKINGS[rng.randint(4)]
            tc = float(rng.choice([0.0, 0.1, 0.33, 0.5, 0.9]))
            tk = float(rng.choice([0.005, 0.01, 0.03, 0.08, 0.2, 0.5, 1.0]))
            presorted = bool(rng.rand() < 0.75)
            runs += 1
            try:
                errors = run_case(points, reduced, removed, DETECTORS[dname], LINKAGES[lname], ranking, tc, tk, presorted)
            except Exception as e:
                errors = [f'(a) pipeline raised {type(e).__name__}: {e}']
            for e in errors:
                failures += 1
                print(f'FAIL [{label} / {dname} / {lname} / {ranking} / tc={tc} tk={tk} presorted={presorted}]: {e}')

    dt = time.time() - START
    if failures:
        print(f'C08 VIOLATED: {failures} violation(s) in {runs} pipeline runs over {ncurves} curves ({dt:.1f} s)')
        return 1
    print(f'OK: C08 holds in {runs} pipeline runs over {ncurves} curves ({len(traces)} bundled traces, {dt:.1f} s)')
    return 0


if __name__ == '__main__':
    rc = main()
    sys.stdout.flush()
    sys.exit(rc)
