#!/usr/bin/env python
"""Property test for C10 (Z-method knees are valid, height-ordered and
mutually separated).

For every miss-ratio-like curve (strictly increasing non-negative integer x,
y in [0,1], n >= 4) and positive dx, dy, dz, zmethod.knees must terminate and
return strictly increasing valid indices whose heights are non-increasing from
left to right; any two reported knees are at least max(1, floor(x_max*dx))
apart in x and at least (y_max - y_min)*dy apart in y (x_max and the y range
default to the point count and to the curve's own range).

No arguments. Exit status 0: property holds on all generated curves;
exit status 1: property violated (or a call that can need only a few thousand
rounds did not return within 15 s).  The whole run is limited to about 40 s:
on a very slow machine fewer of the 866 curves are checked.
"""
import math
import signal
import sys
import time

import numpy as np


def _timeout(signum, frame):
    print('FAIL: time limit hit, zmethod.knees did not terminate')
    sys.stdout.flush()
    sys.exit(1)


signal.signal(signal.SIGALRM, _timeout)
signal.alarm(55)      # covers the import and the generation; every call below sets its own timer
_T0 = time.time()

import kneeliverse.zmethod as zmethod  # noqa: E402


# --------------------------------------------------------------------------
# generators
# --------------------------------------------------------------------------

def gen_x(rng, n):
    k = int(rng.integers(0, 6))
    if k == 0:
        x = np.arange(n)
    elif k == 1:
        x = np.arange(n) + int(rng.integers(1, 50))
    elif k == 2:
        x = np.cumsum(rng.integers(1, 6, size=n)) - 1
    elif k == 3:   # a few very wide gaps
        g = rng.integers(1, 4, size=n)
        g[rng.integers(0, n, size=max(1, n // 8))] = int(rng.integers(10, 1000))
        x = np.cumsum(g)
    elif k == 4:   # cache sizes in bytes: beyond 2**31, still exact in float64
        x = (np.arange(n) + 1) * (1 << 26) * int(rng.integers(1, 4))
    else:          # powers of two
        x = np.unique((2.0 ** np.linspace(0, min(40, n), n)).astype(np.int64))
        while len(x) < n:
            x = np.append(x, x[-1] + 1)
    return x.astype(np.int64)


def gen_y(rng, n):
    k = int(rng.integers(0, 14))
    t = np.arange(n)
    if k == 0:      # convex decreasing (hyperbola)
        y = 1.0 / (1.0 + t * rng.uniform(0.05, 2))
    elif k == 1:    # exponential decay with a zero tail
        y = np.exp(-t * rng.uniform(0.05, 1.0))
        y[y < 1e-3] = 0.0
    elif k == 2:    # random monotone
        y = np.sort(rng.random(n))[::-1]
    elif k == 3:    # plateaus and cliffs at random places
        c = min(n - 1, int(rng.integers(1, 8)))
        steps = np.sort(rng.choice(np.arange(1, n), size=c, replace=False))
        levels = np.sort(rng.random(c + 1))[::-1]
        y = levels[np.searchsorted(steps, t, side='right')]
    elif k == 4:    # regular staircase (many equal z-scores, ties in y)
        w = int(rng.integers(1, 6))
        steps = t // w
        y = 1.0 - steps / max(1, steps.max())
    elif k == 5:    # staircase on a dyadic grid, plateaus repeated (non monotone)
        w = int(rng.integers(2, 5))
        y = ((t // w) % 4) / 4.0
    elif k == 6:    # piecewise linear (collinear runs) on a decimal grid
        knots = np.sort(rng.choice(np.arange(1, n - 1), size=min(n - 2, int(rng.integers(1, 4))), replace=False))
        xp = np.hstack(([0], knots, [n - 1]))
        fp = np.round(np.sort(rng.random(len(xp)))[::-1], 1)
        y = np.interp(t, xp, fp)
    elif k == 7:    # straight line / flat
        y = np.linspace(rng.choice([1.0, 0.5, 0.0]), rng.choice([0.0, 0.5]), n)
    elif k == 8:    # noisy decreasing, clipped to [0,1] (exact 0.0 and 1.0 values)
        y = np.clip(np.linspace(1.1, -0.1, n) ** 1 + rng.normal(0, 0.08, n), 0, 1)
    elif k == 9:    # random heights
        y = rng.random(n)
    elif k == 10:   # decimal grid, monotone, full range
        y = np.round(np.sort(rng.random(n))[::-1], int(rng.integers(1, 3)))
        y[0], y[-1] = 1.0, 0.0
    elif k == 11:   # decimal grid, random (many exact ties)
        y = np.round(rng.random(n), 1)
    elif k == 12:   # symmetric V / W shapes (equal z-scores left and right)
        y = np.abs(np.linspace(-1, 1, n))
        if rng.random() < 0.5:
            y = np.abs(y - 0.5) * 2
        y = np.clip(y, 0, 1)
    else:           # binary hit/miss curve
        y = (t < int(rng.integers(1, n))).astype(float)
        if rng.random() < 0.5:
            y = (rng.random(n) < 0.5).astype(float)
    return np.asarray(y, dtype=float)


def gen_case(rng):
    n = int(rng.choice([4, 4, 5, 6, 7, 8, 10, 12, 16, 17, 20, 30, 40, 60, 80, 100, 150, 250]))
    x = gen_x(rng, n)
    y = gen_y(rng, n)
    scale = float(rng.choice([1.0, 1.0, 1.0, 1.0, 0.5, 1e-3, 1e-9, 1e-150, 1e-300]))
    y = y * scale
    if rng.random() < 0.1 and scale == 1.0 and np.all((y == 0) | (y == 1)):
        points = np.column_stack((x, y.astype(np.int64)))      # integer dtype
    else:
        points = np.column_stack((x.astype(float), y))
    dx = float(rng.choice([0.01, 0.05, 0.1, 0.2, 0.5, 1.0, rng.uniform(0.001, 1)]))
    dy = float(rng.choice([0.01, 0.05, 0.1, 0.2, 0.5, 1.0, rng.uniform(0.001, 1)]))
    dz = float(rng.choice([0.05, 0.25, 0.1, 1.0, rng.uniform(0.01, 1)]))
    x_max = None
    if rng.random() < 0.3:
        x_max = int(rng.choice([n, 2 * n, int(rng.integers(1, 6 * n)), int(x[-1]) + 1]))
        if x_max * dx > 50 * n:     # keep the band meaningful
            x_max = n
    y_range = None
    if rng.random() < 0.3:
        hi, lo = float(points[:, 1].max()), float(points[:, 1].min())
        y_range = [[1.0 * scale, 0.0], [hi, lo], [hi + 0.25 * scale, lo], [1.0, 0.0]][int(rng.integers(0, 4))]
    return points, dx, dy, dz, x_max, y_range


# --------------------------------------------------------------------------
# cost filter
# --------------------------------------------------------------------------

def lowest_zscore(points):
    """Most negative gap-weighted z-score of the second derivative, computed
    here with two equivalent formulas (Lagrange form and divided differences).

    The Z-method lowers its threshold from 3 in steps of dz until it is below
    the lowest z-score, i.e. it needs about (3 - z_low)/dz rounds.  On curves
    with runs of collinear points and very uneven x gaps the second derivative
    is rounding noise of very different size (~ eps*y/gap**2), and its z-score
    can reach 1e6: the method still terminates, but only after millions of
    rounds (unless its working set runs empty before).  Such inputs are given
    2 seconds and skipped when they need longer, so that for all other inputs
    the time limit of this script can be read as 'does not terminate'."""
    x = points[:, 0].astype(float)
    y = points[:, 1].astype(float)
    g = np.diff(x)
    x1, x2, x3 = x[:-2], x[1:-1], x[2:]
    y1, y2, y3 = y[:-2], y[1:-1], y[2:]
    lag = 2.0 * (y1 / ((x1 - x2) * (x1 - x3)) + y2 / ((x2 - x1) * (x2 - x3)) + y3 / ((x3 - x1) * (x3 - x2)))
    dd = 2.0 * np.diff(np.diff(y) / g) / (g[1:] + g[:-1])
    low = 0.0
    for d in (lag, dd):
        d = np.concatenate(([d[0]], d, [d[-1]]))
        v = (d[1:] + d[:-1]) / 2.0
        m = np.average(v, weights=g)
        sd = math.sqrt(np.average((v - m) ** 2, weights=g))
        z = (d - m) / sd if sd != 0 else d - m
        low = min(low, float(z.min()))
    return low


MAX_ROUNDS = 20000      # about half a second


def must_be_fast(case):
    """True when at most MAX_ROUNDS rounds can be needed for this case."""
    return (3.0 - lowest_zscore(case[0])) * 2.0 + 10.0 <= MAX_ROUNDS * case[3]     # factor 2: safety margin


class CallTimeout(Exception):
    pass


def _call_timeout(signum, frame):
    raise CallTimeout()


def timed_knees(case, limit):
    signal.signal(signal.SIGALRM, _call_timeout)
    signal.setitimer(signal.ITIMER_REAL, limit)
    try:
        return zmethod.knees(case[0], case[1], case[2], case[3], x_max=case[4], y_range=case[5])
    finally:
        signal.setitimer(signal.ITIMER_REAL, 0)


# --------------------------------------------------------------------------
# the property
# --------------------------------------------------------------------------

def violations(points, dx, dy, dz, x_max, y_range, res):
    n = len(points)
    x, y = points[:, 0], points[:, 1]
    res = np.asarray(res)
    if res.ndim != 1:
        return ['result is not one-dimensional']
    if len(res) == 0:
        return []
    if not np.issubdtype(res.dtype, np.integer):
        return ['indices are not integers (%r)' % (res.dtype,)]
    if res.min() < 0 or res.max() >= n:
        return ['index out of range: %r' % (res.tolist(),)]
    errs = []
    if np.any(np.diff(res) <= 0):
        errs.append('indices not strictly increasing: %r' % (res.tolist(),))
    h = y[res].astype(float)
    if np.any(np.diff(h) > 0):
        errs.append('heights increase from left to right: %r' % (h.tolist(),))
    xm = x_max if x_max else n
    if y_range:
        y_hi, y_lo = y_range
    else:
        y_hi, y_lo = y.max(), y.min()
    x_width = max(1, int(math.floor(xm * dx)))
    y_height = (y_hi - y_lo) * dy
    slack = 4 * np.finfo(float).eps * max(abs(y_hi), abs(y_lo))
    kx = x[res].astype(float)
    for i in range(len(res)):
        for j in range(i + 1, len(res)):
            if abs(kx[i] - kx[j]) < x_width:
                errs.append('knees at x=%r and x=%r closer than the x band %d' % (kx[i], kx[j], x_width))
            if abs(h[i] - h[j]) < y_height - slack:
                errs.append('knees at x=%r (y=%r) and x=%r (y=%r) closer than the y band %r'
                            % (kx[i], h[i], kx[j], h[j], float(y_height)))
    return errs


def main():
    rng = np.random.default_rng(20261003)
    cases = [gen_case(rng) for _ in range(650)]

    fixed = [
        [1, 0.5, 0.333333333, 0.25, 0.2, 0.2, 0.1, 0.06666666667, 0.05, 0.04],   # unit test curve
        [1.0, 0.9, 0.8, 0.7, 0.6, 0.5, 0.4, 0.3, 0.2, 0.1, 0.0],                # collinear, tenths
        [0.5] * 8, [1.0] * 4, [0.0] * 5, [1.0, 1.0, 0.0, 0.0],                   # flat / all ones / zeros / cliff
        [1.0] * 6 + [0.5] * 6 + [0.25] * 6 + [0.0] * 6,                         # long plateaus
        [0.75, 0.5, 0.25, 0.0] * 6,                                             # saw tooth, many ties
        [0.3, 0.5, 1.0, 1.0, 0.7, 0.5],
        [1.0, 0.6, 0.3, 0.0, 0.0, 0.4, 0.7, 0.5, 0.2, 0.1],
        [0.78, 0.82, 0.77, 0.65, 0.4, 0.06, 0.1],
        list(np.repeat(np.linspace(1, 0, 21), 2)),                              # 42 points, 21 two-point plateaus
    ]
    for ys in fixed:
        pts = np.column_stack((np.arange(len(ys), dtype=float), np.array(ys, dtype=float)))
        for dy in (0.05, 0.1, 1.0):
            for dz in (0.05, 0.5):
                cases.append((pts, 0.05, dy, dz, None, None))
                cases.append((pts, 0.2, dy, dz, 3 * len(ys), [1.0, 0.0]))
                cases.append((pts * np.array([1.0, 1e-150]), 0.05, dy, dz, None, None))

    failed = 0
    nonempty = 0
    checked = 0
    # fixed curves first, then the random ones
    cases = cases[650:] + cases[:650]
    skipped = 0
    for args in cases:
        if time.time() - _T0 > 38:      # slow machine: stop early
            break
        fast = must_be_fast(args)
        try:
            # cheap cases take milliseconds: 15 s without an answer means 'does not terminate';
            # possibly expensive cases (see lowest_zscore) get 2 s and are skipped when not done
            res = timed_knees(args, 15 if fast else 2)
        except CallTimeout:
            if fast:
                print('PROPERTY C10 VIOLATED: no termination for n=%d dx=%r dy=%r dz=%r x_max=%r y_range=%r'
                      % ((len(args[0]),) + tuple(args[1:])))
                print('  points =', args[0].tolist())
                return 1
            skipped += 1
            continue
        checked += 1
        nonempty += len(res) > 0
        errs = violations(*args, res)
        if errs:
            failed += 1
            if failed <= 3:
                print('PROPERTY C10 VIOLATED: n=%d dx=%r dy=%r dz=%r x_max=%r y_range=%r'
                      % ((len(args[0]),) + tuple(args[1:])))
                print('  points =', args[0].tolist())
                print('  knees  =', np.asarray(res).tolist())
                for e in errs[:4]:
                    print('  -', e)
    if failed:
        print('%d of %d curves violate the property' % (failed, checked))
        return 1
    print('ok: property C10 holds on %d curves (%d with at least one knee, %d too slow and skipped)'
          % (checked, nonempty, skipped))
    return 0


if __name__ == '__main__':
    sys.exit(main())
