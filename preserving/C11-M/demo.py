#!/usr/bin/env python
"""Property test for C11 (1-D linkage clustering follows its threshold rule).

Takes no arguments; exit status 0 = property holds on all generated inputs,
1 = a violation was found.

For every generated (x, t, linkage) the returned labelling is walked once:

  * one label per point, first label 0, every step is 0 or +1;
  * point i starts a new cluster  <=>  its linkage distance to the cluster that
    is current at that moment (the run of points carrying the label of point
    i-1), divided by the total x range, is >= t:
        single   : gap to the previous point
        complete : distance to the first point of the cluster
        centroid : distance to the mean of the members
        average  : mean distance to the members
  * the number of single / complete clusters is non-increasing in t.

The distances are evaluated in exact rational arithmetic on the very float64
(or int64) values handed to the library.  A decision is asserted only if it
cannot depend on how the last bits of an intermediate floating-point value
were rounded:

  - single / complete: the quantity is one subtraction followed by one
    division; the decision is asserted when the exact evaluation and the
    plain float64 evaluation of fabs(x_i - x_ref)/range >= t agree (that
    includes all exact ties on dyadic / integer grids);
  - centroid / average: asserted when the exact distance is farther than a
    relative 1e-9 from t (for the centroid, which has to be stored as a
    float64 number of the magnitude of x, additionally farther than a few
    ulps of |x| per cluster member, divided by the range).  In addition, exact ties of the AVERAGE linkage on
    integer grids are asserted to split (all partial results are integers there
    and a single correctly rounded division produces exactly t).
"""
import signal
signal.alarm(55)

import math
import random
import sys
import time
from fractions import Fraction

import numpy as np

import kneeliverse.clustering as clustering

T_START = time.time()
BUDGET = 40.0   # seconds of generated checks, the alarm is the hard limit

LINKAGES = (('single', clustering.single_linkage),
            ('complete', clustering.complete_linkage),
            ('centroid', clustering.centroid_linkage),
            ('average', clustering.average_linkage))
REL_BAND = Fraction(1, 10**9)
EPS = Fraction(1, 2**53)


class Layout:
    """A strictly increasing x sequence plus the array given to the library."""

    def __init__(self, xs, kind, as_int=False, order='C'):
        self.kind = kind
        n = len(xs)
        ys = [((5 * k) % 7) * 0.5 if k % 4 else 0.0 for k in range(n)]   # plateaus and zeros in y
        if as_int:
            self.points = np.column_stack([np.array([int(v) for v in xs], dtype=np.int64),
                                           np.arange(n, dtype=np.int64) % 3])
        else:
            self.points = np.array(np.column_stack([np.array(xs, dtype=np.float64), ys]), order=order)
        self.x = self.points[:, 0]
        if not np.all(np.diff(self.x) > 0):
            raise ValueError('generator produced a non increasing x: %s' % kind)
        self.exact = [Fraction(int(v)) if as_int else Fraction(float(v)) for v in self.x]
        self.length = self.exact[-1] - self.exact[0]
        self.integer_grid = all(v.denominator == 1 and abs(v) < 2**40 for v in self.exact)

    def describe(self):
        x = self.x.tolist()
        return '%s n=%d x=%s' % (self.kind, len(x), x if len(x) <= 10 else '%s ... %s' % (x[:4], x[-2:]))


def walk(layout, name, t, labels):
    """Returns (error message or None, number of clusters)."""
    n = len(layout.exact)
    labels = np.asarray(labels)
    if labels.ndim != 1 or labels.shape[0] != n:
        return 'returned %r labels for %d points' % (labels.shape, n), None
    if labels.dtype.kind not in 'iu':
        return 'labels are not integers (dtype %s)' % labels.dtype, None
    lab = [int(v) for v in labels.tolist()]
    if lab[0] != 0:
        return 'first label is %d' % lab[0], None
    X, L, T = layout.exact, layout.length, Fraction(t)
    xf, lf = layout.x, layout.x[-1] - layout.x[0]
    start = 0
    members_sum = X[0]
    for i in range(1, n):
        step = lab[i] - lab[i - 1]
        if step not in (0, 1):
            return 'label step %d at point %d' % (step, i), None
        size = i - start
        if name in ('single', 'complete'):
            ref = i - 1 if name == 'single' else start
            dist = (X[i] - X[ref]) / L
            exact_split = dist >= T
            float_split = bool(math.fabs(xf[i] - xf[ref]) / lf >= t)
            want = exact_split if exact_split == float_split else None
        else:
            # points are sorted: every member is left of x_i, hence
            # |x_i - mean| == mean |x_i - member| == x_i - mean ... but the two
            # linkages are still evaluated by their own definitions
            slack = 0
            if name == 'centroid':
                dist = abs(X[i] - members_sum / size) / L
                # the centroid itself is a float64 number: far from the origin
                # it is only known to a few ulps of |x| per accumulated member
                slack = 4 * (size + 1) * EPS * max(abs(X[start]), abs(X[i])) / L
            else:
                dist = sum(abs(X[i] - X[j]) for j in range(start, i)) / size / L \
                    if size <= 6 else (size * X[i] - members_sum) / size / L
            if dist == T and name == 'average' and layout.integer_grid:
                want = True
            elif abs(dist - T) <= REL_BAND * T + slack:
                want = None
            else:
                want = dist >= T
        if want is not None and want != (step == 1):
            return ('point %d (x=%r) %s, but its %s distance to the current cluster '
                    '(points %d..%d) over the range is %.17g which is %s t'
                    % (i, xf[i].item(), 'starts a cluster' if step else 'was merged',
                       name, start, i - 1, float(dist), '>=' if want else '<')), None
        if step:
            start = i
            members_sum = X[i]
        else:
            members_sum += X[i]
    return None, lab[-1] + 1


def float_ties(layout, rng, count):
    """Thresholds equal to (or next to) distances that do occur."""
    x = layout.x.astype(np.float64)
    n, length = len(x), float(x[-1] - x[0])
    out = []
    for _ in range(count):
        i = rng.randrange(1, n)
        s = rng.randrange(0, i)
        members = x[s:i]
        candidates = [(x[i] - x[i - 1]) / length,                       # single
                      (x[i] - x[s]) / length,                           # complete
                      (x[i] - float(np.mean(members))) / length,        # centroid
                      float(np.sum(x[i] - members)) / (len(members) * length)]  # average
        for c in candidates:
            c = float(c)
            if c > 0 and math.isfinite(c):
                out.append(c)
                pick = rng.random()
                if pick < 0.25:
                    out.append(float(np.nextafter(c, 0.0)))
                elif pick < 0.5:
                    out.append(float(np.nextafter(c, 4.0)))
    return out


def layouts(rng):
    def cum(steps, first=0.0):
        return [float(v) for v in (np.cumsum(steps) - steps[0] + first)]

    # the three layouts of the existing tests
    yield Layout([1, 2, 3, 7, 8, 9], 'test-two')
    yield Layout([1, 2, 5, 8, 9], 'test-three', as_int=True)
    yield Layout([1, 3, 5, 7, 9], 'test-individual')
    # n = 2 and n = 3
    yield Layout([0.0, 1.0], 'pair')
    yield Layout([-3, 4], 'pair-int', as_int=True)
    yield Layout([0.0, 1e-300], 'pair-tiny')
    yield Layout([-1e150, 1e150], 'pair-huge')
    yield Layout([0.0, 0.25, 1.0], 'triple')
    yield Layout([-1.0, 0.0, 1.0], 'triple-zero')
    # collinear / evenly spaced runs (every gap ties with every other gap)
    for n in (5, 8, 16, 33, 64):
        yield Layout(list(range(n)), 'even-%d' % n, as_int=(n % 2 == 0))
        yield Layout([v / 8.0 - 2.0 for v in range(n)], 'even-dyadic-%d' % n)
        yield Layout([round(0.1 * v, 1) for v in range(n)], 'even-decimal-%d' % n)
    k = 0
    while True:
        k += 1
        n = rng.choice([4, 6, 9, 14, 25, 40, 70, 130, 260])
        kind = k % 11
        if kind == 0:
            xs = cum([rng.randint(1, 6) for _ in range(n)], rng.randint(-20, 20))
            yield Layout(xs, 'integers', as_int=rng.random() < 0.5,
                         order=rng.choice('CF'))
        elif kind == 1:      # groups separated by large gaps
            steps = [rng.choice([1, 1, 1, 2, 25, 40]) for _ in range(n)]
            yield Layout(cum(steps), 'grouped-int', as_int=rng.random() < 0.5)
        elif kind == 2:
            yield Layout(cum([rng.uniform(0.05, 4.0) for _ in range(n)], rng.uniform(-50, 50)), 'real')
        elif kind == 3:      # far from the origin: cancellation prone
            yield Layout(cum([rng.randint(1, 9) for _ in range(n)], 1e6 * rng.randint(1, 900)), 'offset')
        elif kind == 4:
            scale = 10.0 ** rng.randint(-150, -100)
            yield Layout([v * scale for v in cum([rng.uniform(0.1, 3.0) for _ in range(n)])], 'tiny')
        elif kind == 5:
            scale = 10.0 ** rng.randint(100, 150)
            yield Layout([v * scale for v in cum([rng.uniform(0.1, 3.0) for _ in range(n)], -rng.uniform(0, n))],
                         'huge')
        elif kind == 6:      # powers of two: every quotient is exact
            scale = 2.0 ** rng.randint(-400, 400)
            yield Layout([v * scale for v in cum([rng.choice([1, 1, 2, 4, 16]) for _ in range(n)])], 'dyadic')
        elif kind == 7:      # geometric spacing, the clusters drift
            r = rng.uniform(1.01, 1.3)
            yield Layout(cum([r ** (j % 60) for j in range(n)]), 'geometric')
        elif kind == 8:      # shrinking gaps: long clusters, centroid lags behind
            yield Layout(cum([1.0 / (1 + j) for j in range(n)]), 'harmonic')
        elif kind == 9:
            yield Layout([round(v, 2) for v in cum([rng.randint(1, 30) / 100 for _ in range(n)])], 'decimal')
        else:                # mixture of magnitudes with a zero inside
            half = sorted(rng.uniform(-1, 1) * 10.0 ** rng.randint(-12, 3) for _ in range(n))
            xs = sorted(set(half + [0.0]))
            yield Layout(xs, 'mixed-magnitudes')


def main():
    rng = random.Random(20261003)
    failures, labellings, used = [], 0, 0
    for layout in layouts(rng):
        if time.time() - T_START > BUDGET or used >= 450 or len(failures) >= 5:
            break
        used += 1
        big = len(layout.exact) > 100
        ts = [0.01, 0.05, 0.125, 0.2, 0.25, 0.5, 1.0, 1.5]
        ts += [rng.uniform(0.001, 1.0) for _ in range(3)] + [10 ** rng.uniform(-4, 0)]
        ts += float_ties(layout, rng, 2 if big else 5)
        if big:
            ts = rng.sample(ts, 10)
        ts = sorted(set(t for t in ts if t > 0))
        snapshot = layout.points.copy()
        for name, func in LINKAGES:
            counts = []
            for t in ts:
                labels = func(layout.points, t)
                labellings += 1
                error, count = walk(layout, name, t, labels)
                counts.append(count)
                if error:
                    failures.append('%s_linkage, t=%r, %s: %s' % (name, t, layout.describe(), error))
                    break
            if name in ('single', 'complete') and None not in counts:
                for j in range(1, len(counts)):
                    if counts[j] > counts[j - 1]:
                        failures.append('%s_linkage, %s: %d clusters at t=%r but %d at the larger t=%r'
                                        % (name, layout.describe(), counts[j - 1], ts[j - 1], counts[j], ts[j]))
                        break
        if not np.array_equal(snapshot, layout.points):
            failures.append('the input array was modified (%s)' % layout.describe())
    if failures:
        print('C11 VIOLATED (%d labellings of %d layouts checked):' % (labellings, used))
        for f in failures:
            print(' *', f)
        return 1
    print('C11 holds: %d labellings of %d layouts, %.1f s' % (labellings, used, time.time() - T_START))
    return 0


if __name__ == '__main__':
    sys.exit(main())
