#!/usr/bin/env python
# coding: utf-8
"""
Property test for C14: even-point insertion returns the documented candidates,
height-filtered.

For every curve with non-constant x and y, every reduction, knee set,
thresholds tx, ty > 0 and either setting of extremes, add_points_even completes
and returns the running-minimum-filtered, sorted, duplicate-free union of
  (a) the mapped knees,
  (b) the ceil(w/(2*tx)) evenly index-spaced points inside every retained
      segment of the reduction (normalised width w > 2*tx, normalised height
      > ty),
  (c) both curve end points when extremes is set.
add_points_even_knees does the same over the gaps between the curve start, the
consecutive knees and the curve end.  Every returned index is valid.

The expected answer comes from a small independent model written directly from
that statement (it never calls rdp.mapping: the position of the k-th point of a
reduction in the complete curve is simply reduced[k]).

Takes no arguments.  Exit status 0: property holds on all generated inputs,
1: violated (or the code did not terminate).
"""

import os
import sys
import math
import signal


def _alarm(signum, frame):
    print('FAIL: time limit hit, even-point insertion did not complete')
    sys.stdout.flush()
    os._exit(1)


signal.signal(signal.SIGALRM, _alarm)
signal.alarm(55)

import numpy as np
import kneeliverse.rdp as rdp
import kneeliverse.postprocessing as pp


# ---------------------------------------------------------------- model -----

def model_ranges(points):
    xs, ys = points[:, 0], points[:, 1]
    return math.fabs(xs.max() - xs.min()), math.fabs(ys.max() - ys.min())


def model_filter(points, idx):
    """ keep an index iff its height is <= the height of every earlier one """
    out = []
    lowest = None
    for i in idx:
        h = points[i][1]
        if lowest is None or h <= lowest:
            out.append(i)
            lowest = h
    return out


def model_gap(points, left, right, dx, dy, tx, ty):
    """ the points inserted in the gap [left, right] ([] when not retained) """
    w = math.fabs(points[right][0] - points[left][0]) / dx
    h = math.fabs(points[right][1] - points[left][1]) / dy
    if not (w > 2.0 * tx and h > ty):
        return []
    n = int(math.ceil(w / (2.0 * tx)))
    step = (right - left) // n
    return [left + k * step for k in range(1, n + 1)]


def model_even(points, reduced, knees, tx, ty, extremes):
    dx, dy = model_ranges(points)
    union = set(int(reduced[k]) for k in knees)
    for a, b in zip(reduced[:-1], reduced[1:]):
        union.update(model_gap(points, int(a), int(b), dx, dy, tx, ty))
    if extremes:
        union.add(0)
        union.add(len(points) - 1)
    return model_filter(points, sorted(union))


def model_even_knees(points, knees, tx, ty, extremes):
    dx, dy = model_ranges(points)
    marks = [0] + [int(k) for k in knees] + [len(points) - 1]
    union = set(int(k) for k in knees)
    for a, b in zip(marks[:-1], marks[1:]):
        union.update(model_gap(points, a, b, dx, dy, tx, ty))
    if extremes:
        union.add(0)
        union.add(len(points) - 1)
    return model_filter(points, sorted(union))


# ------------------------------------------------------------- checking -----

STATS = {'checked': 0, 'failed': 0, 'inserted': 0, 'dropped': 0}


def fail(label, msg, **info):
    STATS['failed'] += 1
    if STATS['failed'] <= 6:
        print('FAIL %s: %s' % (label, msg))
        for k in sorted(info):
            print('     %-9s %s' % (k, info[k]))


def check(label, fn, want, n, **info):
    STATS['checked'] += 1
    try:
        got = fn()
    except Exception as e:
        fail(label, 'raised %s: %s' % (type(e).__name__, e), **info)
        return
    got = np.asarray(got)
    if got.ndim != 1:
        fail(label, 'result is not one-dimensional', **info)
        return
    if got.size and not np.issubdtype(got.dtype, np.integer):
        fail(label, 'indexes are not integers (%s)' % got.dtype, **info)
        return
    got = [int(g) for g in got]
    if any(g < 0 or g >= n for g in got):
        fail(label, 'index outside the curve', got=got, **info)
        return
    if any(b <= a for a, b in zip(got[:-1], got[1:])):
        fail(label, 'result not strictly increasing', got=got, **info)
        return
    if got != want:
        fail(label, 'result is not the documented candidate set', got=got, want=want, **info)


# ----------------------------------------------------------- generators -----

SCALES = [1.0, 1.0, 1.0, 1e-150, 1e-8, 1e8, 1e150]
TXS = [0.001, 0.01, 0.02, 0.05, 0.0625, 0.1, 0.125, 0.2, 0.25, 0.3, 0.6]
TYS = [0.001, 0.01, 0.05, 0.1, 0.125, 0.25, 0.5, 0.9]


def gen_curve(rng, case):
    n = int(rng.choice([2, 3, 4, 5, 8, 17, 33])) if rng.rand() < 0.3 else int(rng.randint(6, 160))
    sampling = rng.randint(3)
    if sampling == 0:
        xs = np.arange(n, dtype=float)
    elif sampling == 1:
        xs = np.arange(n, dtype=float) * 0.25 + float(rng.choice([0.0, -3.0, 1000.0]))
    else:
        xs = np.cumsum(rng.uniform(0.01, 3.0, size=n))
    shape = case % 8
    t = np.arange(n, dtype=float)
    if shape == 0:      # convex knee curve
        ys = 40.0 / (1.0 + 0.3 * t)
    elif shape == 1:    # staircase: plateaus and exact ties
        ys = np.sort(rng.randint(0, 6, size=n))[::-1] * 2.0
    elif shape == 2:    # collinear run (a straight line)
        ys = (n - 1 - t) * 0.5
    elif shape == 3:    # mostly zeros with a head
        ys = np.zeros(n)
        head = max(1, n // 4)
        ys[:head] = np.linspace(8.0, 1.0, head)
    elif shape == 4:    # noisy decreasing
        ys = np.linspace(20, 0, n) + rng.normal(0, 1.0, size=n)
    elif shape == 5:    # arbitrary
        ys = rng.uniform(-5, 5, size=n)
    elif shape == 6:    # few levels, non monotone, many ties
        ys = rng.randint(-2, 3, size=n).astype(float)
    else:               # hump then drop then flat tail
        ys = np.interp(t, [0, 0.2 * n, 0.5 * n, 0.7 * n, n - 1], [4.0, 7.0, 1.0, 1.0, 0.0])
    kind = rng.rand()
    if kind < 0.2:
        pts = np.column_stack((np.arange(n) * int(rng.choice([1, 2, 5])) + int(rng.choice([0, -4, 11])),
                               np.round(ys * 4))).astype(rng.choice([np.int64, np.int32]))
    elif kind < 0.28:
        pts = np.column_stack((xs, ys)).astype(np.float32)
    else:
        pts = np.column_stack((xs * float(rng.choice(SCALES)), ys * float(rng.choice(SCALES))))
    if pts[:, 0].max() == pts[:, 0].min() or pts[:, 1].max() == pts[:, 1].min():
        return None
    return pts


def gen_reduction(rng, pts):
    n = len(pts)
    r = rng.rand()
    if r < 0.15 and n >= 5:
        shifted = pts.astype(float)
        span = shifted[:, 1].max() - shifted[:, 1].min()
        shifted[:, 1] = shifted[:, 1] - shifted[:, 1].min() + span   # positive y for the relative costs
        red, rem = rdp.rdp(shifted, t=float(rng.choice([0.01, 0.05, 0.3])))
        return np.asarray(red).astype(int), rem
    if r < 0.25 and n >= 5:
        red, rem = rdp.rdp_fixed(pts.astype(float), length=int(rng.randint(2, min(n, 12) + 1)))
        return np.asarray(red).astype(int), rem
    if r < 0.33:
        red = np.arange(n)                     # nothing removed
    elif r < 0.4:
        red = np.array([0, n - 1])             # everything removed
    else:
        m = int(rng.randint(0, min(n - 2, 12) + 1))
        inner = np.sort(rng.choice(np.arange(1, n - 1), size=m, replace=False)) if m else np.array([], dtype=int)
        red = np.concatenate(([0], inner, [n - 1])).astype(int)
    return red, rdp.compute_removed_points(pts, red)


def main():
    rng = np.random.RandomState(20140714)
    case = 0
    while case < 420:
        pts = gen_curve(rng, case)
        case += 1
        if pts is None:
            continue
        n = len(pts)
        red, rem = gen_reduction(rng, pts)
        if not np.array_equal(red, np.unique(red)) or red[0] != 0 or red[-1] != n - 1:
            continue
        r = rng.rand()
        if r < 0.1:
            knees = np.array([], dtype=int)
        elif r < 0.2:
            knees = np.arange(len(red))
        else:
            k = int(rng.randint(1, len(red) + 1))
            knees = np.sort(rng.choice(np.arange(len(red)), size=k, replace=False)).astype(int)
        tx = float(rng.choice(TXS)) if rng.rand() < 0.7 else float(rng.uniform(0.002, 0.5))
        ty = float(rng.choice(TYS)) if rng.rand() < 0.7 else float(rng.uniform(0.002, 0.95))
        k = int(rng.randint(1, min(n, 9) + 1))
        marks = np.sort(rng.choice(np.arange(n), size=k, replace=False)).astype(int)
        for extremes in (False, True):
            info = dict(size=n, dtype=pts.dtype, tx=tx, ty=ty, extremes=extremes,
                        x0=pts[0][0], y0=pts[0][1])
            want = model_even(pts, red, knees, tx, ty, extremes)
            base = model_filter(pts, sorted(set([int(red[q]) for q in knees] + ([0, n - 1] if extremes else []))))
            STATS['inserted'] += int(len(set(want) - set(base)) > 0)
            check('add_points_even[%d]' % case,
                  lambda: pp.add_points_even(pts, red, knees, rem, tx=tx, ty=ty, extremes=extremes),
                  want, n, reduced=red.tolist(), knees=knees.tolist(), **info)
            want = model_even_knees(pts, marks, tx, ty, extremes)
            check('add_points_even_knees[%d]' % case,
                  lambda: pp.add_points_even_knees(pts, marks, tx=tx, ty=ty, extremes=extremes),
                  want, n, knees=marks.tolist(), **info)

    # hand-made boundary cases: widths that are exact multiples of 2*tx, heights
    # equal to ty, plateaus, more points requested than a segment holds
    xs = np.arange(17, dtype=float)
    ys = np.array([16, 14, 12, 10, 8, 8, 8, 8, 8, 6, 4, 4, 4, 3, 2, 1, 0], dtype=float)
    for scale_x, scale_y in ((1.0, 1.0), (1e-150, 1e150), (1e150, 1e-150)):
        pts = np.column_stack((xs * scale_x, ys * scale_y))
        for red in ([0, 4, 8, 10, 12, 16], [0, 16], list(range(17)), [0, 1, 2, 8, 15, 16]):
            red = np.array(red)
            rem = rdp.compute_removed_points(pts, red)
            for tx in (0.0625, 0.125, 0.03125, 0.004):
                for ty in (0.125, 0.25, 0.0625, 0.01):
                    for extremes in (False, True):
                        for knees in ([], [1], [0, len(red) - 1], list(range(len(red)))):
                            kn = np.array(knees, dtype=int)
                            check('grid add_points_even',
                                  lambda: pp.add_points_even(pts, red, kn, rem, tx=tx, ty=ty, extremes=extremes),
                                  model_even(pts, red, kn, tx, ty, extremes), 17,
                                  reduced=red.tolist(), knees=knees, tx=tx, ty=ty, extremes=extremes)
        for tx in (0.0625, 0.125, 0.03125, 0.004):
            for ty in (0.125, 0.25, 0.0625, 0.01):
                for extremes in (False, True):
                    for knees in ([4], [0], [16], [4, 8, 12], [0, 8, 16], [7, 8]):
                        kn = np.array(knees, dtype=int)
                        check('grid add_points_even_knees',
                              lambda: pp.add_points_even_knees(pts, kn, tx=tx, ty=ty, extremes=extremes),
                              model_even_knees(pts, kn, tx, ty, extremes), 17,
                              knees=knees, tx=tx, ty=ty, extremes=extremes)

    if STATS['failed']:
        print('C14 VIOLATED: %d of %d checks failed' % (STATS['failed'], STATS['checked']))
        return 1
    print('C14 holds: %d checks passed (%d generated calls had inserted points in the answer)'
          % (STATS['checked'], STATS['inserted']))
    return 0


if __name__ == '__main__':
    rc = main()
    sys.stdout.flush()
    sys.exit(rc)
