#!/usr/bin/env python
"""
C03 property test (deliverable L, property-preserving change).

Property: on every exact two-slope elbow (two straight arms, each >= 3 segments,
integer x spacings in {1..4}, distinct slopes j/8 with |j| <= 64, exactly
representable offsets) the curvature, DFDT, Menger and L-method detectors
(every fit, cost and refinement option) return the corner index, for every
orientation (convex/concave, rising/falling, V-shaped); Kneedle without
smoothing (t=0) does so on every monotone elbow.

Exit 0: property holds on all generated inputs.  Exit 1: violation (printed).
"""
import signal
import sys
import random

signal.alarm(58)  # hard guard against hangs

import numpy as np
import kneeliverse.curvature as curvature
import kneeliverse.dfdt as dfdt
import kneeliverse.menger as menger
import kneeliverse.lmethod as lmethod
import kneeliverse.kneedle as kneedle


OFFSETS = [0.0, 0.5, 1.0, 3.25, 100.0, 4096.0, -7.125, 2.0 ** -4, 2.0 ** -10, 4095.0 + 2.0 ** -8]
SPECIAL = [-8.0, -1.0, -0.125, 0.0, 0.125, 1.0, 8.0, 7.875, -7.875]


def slopes(rng, shape):
    while True:
        if rng.random() < 0.3:
            s1, s2 = rng.choice(SPECIAL), rng.choice(SPECIAL)
        else:
            s1, s2 = rng.randint(-64, 64) / 8.0, rng.randint(-64, 64) / 8.0
        if s1 == s2:
            continue
        mono = s1 * s2 >= 0
        if shape == 'monotone' and not mono:
            continue
        if shape == 'v' and mono:
            continue
        return s1, s2


def elbow(rng, la, lb, s1, s2, spacing='mixed', int_dtype=False):
    n = la + lb
    if spacing == 'mixed':
        dx = [rng.randint(1, 4) for _ in range(n)]
    elif spacing == 'unit':
        dx = [1] * n
    else:  # extreme contrast around the corner
        dx = [rng.choice([1, 4]) for _ in range(n)]
    x = float(rng.choice([0, 1, 5, 100, 4096])) + np.concatenate(([0.0], np.cumsum(dx)))
    y = np.empty_like(x)
    y[0] = rng.choice(OFFSETS)
    for i in range(1, len(x)):
        y[i] = y[i - 1] + (s1 if i <= la else s2) * (x[i] - x[i - 1])
    pts = np.column_stack((x, y))
    if int_dtype:
        pts = pts.astype(np.int64)
    return pts, la


def check(pts, corner, monotone, tag, failures, heavy=True):
    x = pts[:, 0]
    y = pts[:, 1]
    results = {}

    def run(name, fn):
        try:
            r = fn()
        except Exception as e:
            r = 'raised %r' % (e,)
        results[name] = r

    run('curvature.knee', lambda: curvature.knee(pts))
    run('dfdt.knee', lambda: dfdt.knee(pts))
    run('dfdt.get_knee', lambda: dfdt.get_knee(x, y))
    run('menger.knee', lambda: menger.knee(pts))
    for f in lmethod.Fit:
        for c in lmethod.Cost:
            run('lmethod.get_knee[%s,%s]' % (f, c), lambda f=f, c=c: lmethod.get_knee(x, y, f, c)[0])
        if heavy:
            for it in lmethod.Refinement:
                run('lmethod.knee[%s,%s]' % (f, it), lambda f=f, it=it: lmethod.knee(pts, fit=f, it=it))
    if monotone:
        run('kneedle.knee[t=0]', lambda: kneedle.knee(pts, t=0))

    for name, r in results.items():
        ok = (r is not None) and (not isinstance(r, str)) and int(r) == corner
        if not ok:
            failures.append((name, tag, len(pts), corner, r))


def main():
    rng = random.Random(6030)
    failures = []
    count = 0

    # 1. a few hundred small/medium elbows, all orientations, all spacing styles
    for k in range(330):
        shape = ('monotone', 'v', 'any')[k % 3]
        s1, s2 = slopes(rng, shape)
        la = rng.choice([3, 3, 4, 5, rng.randint(3, 25)])
        lb = rng.choice([3, 3, 4, 5, rng.randint(3, 25)])
        spacing = ('mixed', 'unit', 'contrast')[(k // 3) % 3]
        pts, c = elbow(rng, la, lb, s1, s2, spacing)
        check(pts, c, s1 * s2 >= 0, 'slopes=(%s,%s) arms=%d+%d %s' % (s1, s2, la, lb, spacing), failures)
        count += 1

    # 2. integer-typed arrays (integer slopes, spacings and offsets)
    for k in range(30):
        while True:
            s1, s2 = float(rng.randint(-8, 8)), float(rng.randint(-8, 8))
            if s1 != s2:
                break
        la, lb = rng.randint(3, 12), rng.randint(3, 12)
        n = la + lb
        dx = [rng.randint(1, 4) for _ in range(n)]
        x = rng.choice([0, 3, 100]) + np.concatenate(([0], np.cumsum(dx)))
        y = np.empty(len(x), dtype=np.int64)
        y[0] = rng.choice([0, 1, 100, 4096, -7])
        for i in range(1, len(x)):
            y[i] = y[i - 1] + int(s1 if i <= la else s2) * (x[i] - x[i - 1])
        pts = np.column_stack((x, y)).astype(np.int64)
        check(pts, la, s1 * s2 >= 0, 'int64 slopes=(%s,%s) arms=%d+%d' % (s1, s2, la, lb), failures)
        count += 1

    # 3. strongly unbalanced and long arms (L-method refinement options only on a few)
    for k, (la, lb) in enumerate([(3, 400), (400, 3), (250, 250), (3, 1500), (1500, 4), (700, 900)]):
        for shape in ('monotone', 'v'):
            s1, s2 = slopes(rng, shape)
            pts, c = elbow(rng, la, lb, s1, s2)
            heavy = (la + lb) <= 500
            x, y = pts[:, 0], pts[:, 1]
            tag = 'long slopes=(%s,%s) arms=%d+%d' % (s1, s2, la, lb)
            if heavy:
                check(pts, c, s1 * s2 >= 0, tag, failures, heavy=True)
            else:
                # quadratic L-method: only the point-fit scans on the very long ones
                res = {
                    'curvature.knee': curvature.knee(pts),
                    'dfdt.knee': dfdt.knee(pts),
                    'dfdt.get_knee': dfdt.get_knee(x, y),
                    'menger.knee': menger.knee(pts),
                    'lmethod.get_knee[pointfit,rss]': lmethod.get_knee(x, y, lmethod.Fit.point_fit, lmethod.Cost.rss)[0],
                    'lmethod.knee[pointfit,original]': lmethod.knee(pts, it=lmethod.Refinement.original),
                }
                if s1 * s2 >= 0:
                    res['kneedle.knee[t=0]'] = kneedle.knee(pts, t=0)
                for name, r in res.items():
                    if r is None or int(r) != c:
                        failures.append((name, tag, len(pts), c, r))
            count += 1

    # 4. weakest corners: steep arms, slope difference 1/8, widest spacing at the corner
    for s1, s2 in [(7.875, 8.0), (8.0, 7.875), (-7.875, -8.0), (-8.0, -7.875), (0.0, 0.125), (-0.125, 0.0), (-0.125, 0.125)]:
        for la, lb in [(3, 3), (3, 9), (9, 3), (20, 20)]:
            pts, c = elbow(rng, la, lb, s1, s2, 'contrast')
            check(pts, c, s1 * s2 >= 0, 'weak slopes=(%s,%s) arms=%d+%d' % (s1, s2, la, lb), failures)
            count += 1

    if failures:
        print('C03 VIOLATED on %d checks (of %d elbows):' % (len(failures), count))
        for f in failures[:12]:
            print('  %s: %s n=%d corner=%d returned=%r' % f)
        return 1
    print('C03 holds on all %d generated elbows (all detectors / options)' % count)
    return 0


if __name__ == '__main__':
    sys.exit(main())
