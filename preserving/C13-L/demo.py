#!/usr/bin/env python
# Property test for C13.
#
#  * filter_worst_knees returns exactly the greedy running-minimum subsequence
#    (first knee, then each knee whose height is <= the lowest kept so far) and
#    is idempotent.
#  * filter_corner_knees / select_corner_knees split the knees that have both
#    neighbours into IoU < t / IoU >= t (the filter additionally keeps knees at
#    either end of the curve); together they partition the knee list; both are
#    idempotent and order preserving.
#
# Exits 0 when the property holds on all generated inputs, 1 otherwise.
import signal
import sys

signal.alarm(55)  # hard stop if the library hangs

from fractions import Fraction

import numpy as np
import kneeliverse.postprocessing as pp

EPS = 1e-9  # knees whose IoU is this close to t may fall on either side (float rounding)


def iou(points, k):
    """Exact (rational) IoU of the corner and neighbour rectangles of knee k."""
    (x0, y0), (x1, y1), (x2, y2) = [(Fraction(float(p[0])), Fraction(float(p[1]))) for p in points[k - 1:k + 2]]
    ax0, ax1, ay0, ay1 = min(x0, x1), max(x0, x1), min(y2, y1), max(y2, y1)
    bx0, bx1, by0, by1 = min(x0, x2), max(x0, x2), min(y0, y2), max(y0, y2)
    dx = max(Fraction(0), min(ax1, bx1) - max(ax0, bx0))
    dy = max(Fraction(0), min(ay1, by1) - max(ay0, by0))
    inter = dx * dy
    if inter > 0:
        return inter / ((ax1 - ax0) * (ay1 - ay0) + (bx1 - bx0) * (by1 - by0) - inter)
    return Fraction(0)


def greedy_min(points, knees):
    out, h_min = [], None
    for k in knees:
        h = float(points[k][1])
        if h_min is None or h <= h_min:
            out.append(k)
            h_min = h
    return out


def as_list(a):
    return [int(k) for k in a]


def check(points, knees, t, label):
    orig = points.copy()
    n = len(points)
    kl = as_list(knees)
    inner = [k for k in kl if 0 < k < n - 1]
    ious = {k: iou(orig, k) for k in inner}
    problems = []

    # --- worst-knee filter -------------------------------------------------
    want_worst = greedy_min(orig, kl)
    got_worst = as_list(pp.filter_worst_knees(points, knees))
    if got_worst != want_worst:
        problems.append('filter_worst_knees returned %s, expected the greedy running minimum %s'
                        % (got_worst, want_worst))
    else:
        again = as_list(pp.filter_worst_knees(points, np.array(got_worst, dtype=int)))
        if again != got_worst:
            problems.append('filter_worst_knees not idempotent: %s -> %s' % (got_worst, again))

    # --- corner filter / selector -------------------------------------------
    got_filter = as_list(pp.filter_corner_knees(points, knees, t))
    got_select = as_list(pp.select_corner_knees(points, knees, t))
    for k in kl:
        in_f, in_s = k in got_filter, k in got_select
        if k not in ious:
            if not in_f or in_s:
                problems.append('end knee %d must be kept by the filter and never selected (filter %s, select %s)'
                                % (k, in_f, in_s))
            continue
        d = float(ious[k] - Fraction(float(t)))
        if abs(d) <= EPS:
            continue  # boundary within rounding; the partition check below still applies
        if d < 0 and not (in_f and not in_s):
            problems.append('knee %d has IoU %.6g < t but filter %s / select %s' % (k, float(ious[k]), in_f, in_s))
        if d > 0 and not (in_s and not in_f):
            problems.append('knee %d has IoU %.6g >= t but filter %s / select %s' % (k, float(ious[k]), in_f, in_s))
    if sorted(got_filter + got_select) != kl:
        problems.append('filter %s and select %s do not partition the knee list %s' % (got_filter, got_select, kl))
    if got_filter != [k for k in kl if k in got_filter] or got_select != [k for k in kl if k in got_select]:
        problems.append('output is not an order preserving subsequence of the knee list')
    if got_filter:
        again = as_list(pp.filter_corner_knees(points, np.array(got_filter, dtype=int), t))
        if again != got_filter:
            problems.append('filter_corner_knees not idempotent: %s -> %s' % (got_filter, again))
    if got_select:
        again = as_list(pp.select_corner_knees(points, np.array(got_select, dtype=int), t))
        if again != got_select:
            problems.append('select_corner_knees not idempotent: %s -> %s' % (got_select, again))
    if not np.array_equal(points, orig):
        problems.append('the curve was modified by the calls')

    if problems:
        print('C13 VIOLATION (%s), t=%r' % (label, t))
        print('  points:', orig.tolist())
        print('  knees :', kl)
        print('  IoU   :', {k: float(v) for k, v in ious.items()})
        for p in problems:
            print('  -', p)
        return False
    return True


def make_curve(rng, n):
    mode = rng.randint(6)
    if mode == 0:      # decreasing staircase with plateaus, integer valued
        x = np.cumsum(rng.randint(1, 6, size=n)).astype(float)
        y = np.cumsum(rng.choice([0, 0, 1, 2, 5], size=n))[::-1].astype(float)
    elif mode == 1:    # smooth decreasing, coordinates in [0,1]
        x = np.cumsum(rng.rand(n) + 1e-3)
        x = x / x[-1]
        y = np.sort(rng.rand(n))[::-1].copy()
    elif mode == 2:    # few distinct heights, arbitrary order (many ties, bumps)
        x = np.cumsum(rng.randint(1, 4, size=n)).astype(float)
        y = rng.randint(0, 5, size=n).astype(float)
    elif mode == 3:    # decreasing with a flat tail at zero and rescaled axes
        x = np.cumsum(rng.rand(n) + 1e-2) * 2.0 ** rng.randint(-20, 20)
        y = np.sort(rng.rand(n))[::-1].copy()
        y[n - rng.randint(1, n + 1):] = 0.0
        y *= 2.0 ** rng.randint(-20, 20)
    elif mode == 4:    # random walk (non monotone), non negative
        x = np.cumsum(rng.randint(1, 3, size=n)).astype(float)
        y = np.cumsum(rng.choice([0.0, 0.0, 0.5, 1.0, -1.0, -2.5], size=n))
        y = y - y.min()
    else:              # integer dtype curve (counts)
        x = np.cumsum(rng.randint(1, 5, size=n))
        y = np.cumsum(rng.choice([0, 0, 1, 3, 10], size=n))[::-1].copy()
    return np.column_stack((x, y))


def main():
    ok = True

    # directed cases
    pts = np.array([[1, 3], [2, 3], [3, 3], [4, 2.5], [5, 2], [6, 1.5], [7, 1]])
    ok &= check(pts, np.array([1, 2, 3]), .5, 'plateau then slope')
    ok &= check(pts, np.array([0, 1, 2, 3, 4, 5, 6]), .33, 'all points are knees (both ends)')
    pts = np.array([[0, 5], [1, 5], [2, 4], [3, 4], [4, 1], [5, 1], [6, 1], [7, 0], [8, 0]], dtype=float)
    for t in (0.0, 0.25, 0.5, 1.0):
        ok &= check(pts, np.arange(len(pts)), t, 'staircase, ties, t=%r' % t)
    pts = np.array([[0, 2], [1, 0], [2, 3], [3, 0], [4, 0], [5, 1]], dtype=float)
    ok &= check(pts, np.array([1, 2, 3, 4]), 1 / 3, 'zig-zag touching zero')
    ok &= check(pts, np.array([3]), 0.33, 'single knee')

    rng = np.random.RandomState(13)
    for it in range(600):
        n = rng.randint(3, 60) if it % 40 else rng.randint(500, 3000)
        pts = make_curve(rng, n)
        m = rng.randint(1, min(n, 120) + 1)
        knees = np.sort(rng.choice(n, size=m, replace=False))
        if rng.rand() < 0.3:                       # make sure end knees occur often
            knees = np.unique(np.concatenate((knees, [0, n - 1])))
        t = float(rng.choice([0.0, 1.0, 0.5, 0.33, 0.25, 1.0 / 3.0, 0.1, rng.rand(), rng.rand()]))
        ok &= check(pts, knees, t, 'random #%d' % it)
        if not ok:
            break

    if ok:
        print('C13 holds on all checked inputs')
        return 0
    return 1


if __name__ == '__main__':
    sys.exit(main())
