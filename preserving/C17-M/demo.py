#!/usr/bin/env python
"""
Property test for C17: geometric and ranking primitives equal their
geometric definitions.

 * shortest_distance_points(p, a, b): Euclidean distance of every point to
   the closed segment a-b (to the point a when a == b)
 * perpendicular_distance_points / _index / perpendicular_distance: distance
   to the infinite line through the two end points (for a sub-range: the
   distances of exactly that sub-range)
 * rect_overlap: intersection over union (symmetric, in [0, 1], 1 for
   identical non-degenerate rectangles, 0 when disjoint)
 * menger_curvature: reciprocal circumradius (symmetric in its arguments,
   0 for collinear points)
 * rank: the permutation of 0..n-1 that orders the values

All references are evaluated in exact rational arithmetic on the very
floating-point (or integer) numbers that are handed to the library; the
comparison allows for a few rounding errors of the quantities that enter the
computation (a cross product of two vectors u, v can only be as accurate as
eps*|u|*|v|), never for more.

Takes no arguments, exit status 0 = property holds, 1 = violated.
"""

import sys
import math
import signal
import random
import warnings
from fractions import Fraction
from decimal import Decimal, getcontext

import numpy as np

signal.alarm(55)
warnings.simplefilter('ignore')
getcontext().prec = 60

import kneeliverse.linear_fit as lf
import kneeliverse.knee_ranking as kr
import kneeliverse.menger as menger

rng = random.Random(20261003)
EPS = 2.0 ** -52
failures = []
counts = {}


def fail(what, *info):
    failures.append((what, info))
    if len(failures) <= 20:
        print('VIOLATION', what, *info)


def count(what):
    counts[what] = counts.get(what, 0) + 1


def fr(v):
    """exact value of a python/numpy number"""
    if isinstance(v, (int, np.integer)):
        return Fraction(int(v))
    return Fraction(float(v))


def fsqrt(q):
    """square root of a non-negative Fraction, correctly rounded-ish float"""
    if q == 0:
        return 0.0
    d = (Decimal(q.numerator) / Decimal(q.denominator)).sqrt()
    return float(d)


def ffloat(q):
    if q == 0:
        return 0.0
    return float(Decimal(q.numerator) / Decimal(q.denominator))


# --------------------------------------------------------------------------
# generators
# --------------------------------------------------------------------------

SCALES = [1.0, 1.0, 1.0, 1e-3, 1e3, 1e-8, 1e8, 1e-30, 1e30, 1e-100, 1e100,
          1e-140, 1e150]

# squares of numbers below ~1e-154 are subnormal or flushed to zero; a
# length obtained from such squares is only accurate to this absolute amount
UNDERFLOW = 1e-161


def pow2(scale):
    """nearest power of two: grid points times it are exact, and so are
    their differences and the products of two differences"""
    return 2.0 ** round(math.log2(scale))


def coord(scale, kind):
    if kind in ('grid', 'dyadic'):
        scale = pow2(scale) if scale not in (1.0, 1e3, 1e8) else scale
    if kind == 'grid':
        return float(rng.randint(-4, 4)) * scale
    if kind == 'dyadic':
        return rng.randint(-64, 64) / 16.0 * scale
    return rng.uniform(-1.0, 1.0) * scale


def point(scale, kind):
    return (coord(scale, kind), coord(scale, kind))


def point_set(n, a, b, scale, kind):
    """points around / on / beyond the segment a-b"""
    pts = []
    for _ in range(n):
        r = rng.random()
        if r < 0.25:
            pts.append(point(scale, kind))
        elif r < 0.55:
            # on the carrier line (up to rounding), inside and outside
            t = rng.choice([0.0, 1.0, 0.5, -1.0, 2.0, rng.uniform(-2, 3)])
            pts.append((a[0] + t * (b[0] - a[0]), a[1] + t * (b[1] - a[1])))
        elif r < 0.65:
            pts.append(a)
        elif r < 0.75:
            pts.append(b)
        else:
            # very close to one end point
            e = rng.choice([a, b])
            pts.append((e[0] + rng.uniform(-1, 1) * scale * 1e-7,
                        e[1] + rng.uniform(-1, 1) * scale * 1e-7))
    return pts


# --------------------------------------------------------------------------
# distance to a segment
# --------------------------------------------------------------------------

def exact_seg_dist2(p, a, b):
    px, py = fr(p[0]), fr(p[1])
    ax, ay = fr(a[0]), fr(a[1])
    bx, by = fr(b[0]), fr(b[1])
    dx, dy = bx - ax, by - ay
    l2 = dx * dx + dy * dy
    if l2 == 0:
        return (px - ax) ** 2 + (py - ay) ** 2
    t = ((px - ax) * dx + (py - ay) * dy) / l2
    t = max(Fraction(0), min(Fraction(1), t))
    cx, cy = ax + t * dx, ay + t * dy
    return (px - cx) ** 2 + (py - cy) ** 2


def exact_line_dist(p, a, b):
    px, py = fr(p[0]), fr(p[1])
    ax, ay = fr(a[0]), fr(a[1])
    bx, by = fr(b[0]), fr(b[1])
    dx, dy = bx - ax, by - ay
    cr = dx * (py - ay) - dy * (px - ax)
    return fsqrt(cr * cr / (dx * dx + dy * dy))


def reach(p, a, b):
    """magnitude of the vectors that enter the computation"""
    return max(abs(float(p[0]) - float(a[0])), abs(float(p[1]) - float(a[1])),
               abs(float(p[0]) - float(b[0])), abs(float(p[1]) - float(b[1])),
               abs(float(b[0]) - float(a[0])), abs(float(b[1]) - float(a[1])))


def check_shortest(P, a, b, tag):
    out = lf.shortest_distance_points(P, a, b)
    out = np.asarray(out)
    if out.shape != (len(P),):
        fail('shortest_distance_points shape', tag, out.shape)
        return
    for i in range(len(P)):
        ref = fsqrt(exact_seg_dist2(P[i], a, b))
        tol = 64 * EPS * reach(P[i], a, b) + 1e-12 * ref + UNDERFLOW
        if not (abs(float(out[i]) - ref) <= tol):
            fail('shortest_distance_points value', tag, P[i], a, b, float(out[i]), ref)
    count('shortest')


def check_perp(P, a, b, tag):
    out = np.asarray(lf.perpendicular_distance_points(P, a, b))
    if out.shape != (len(P),):
        fail('perpendicular_distance_points shape', tag, out.shape)
        return
    for i in range(len(P)):
        ref = exact_line_dist(P[i], a, b)
        tol = 64 * EPS * reach(P[i], a, b) + 1e-12 * ref
        if not (abs(float(out[i]) - ref) <= tol):
            fail('perpendicular_distance_points value', tag, P[i], a, b, float(out[i]), ref)
    count('perp_points')


def check_perp_index(points, left, right, tag):
    out = np.asarray(lf.perpendicular_distance_index(points, left, right))
    if out.shape != (right - left + 1,):
        fail('perpendicular_distance_index length', tag, out.shape, left, right)
        return
    a, b = points[left], points[right]
    for k, i in enumerate(range(left, right + 1)):
        ref = exact_line_dist(points[i], a, b)
        tol = 64 * EPS * reach(points[i], a, b) + 1e-12 * ref
        if not (abs(float(out[k]) - ref) <= tol):
            fail('perpendicular_distance_index value', tag, i, left, right, float(out[k]), ref)
    count('perp_index')
    if left == 0 and right == len(points) - 1:
        whole = np.asarray(lf.perpendicular_distance(points))
        if whole.shape != out.shape or not np.allclose(whole, out, rtol=1e-12, atol=0.0):
            fail('perpendicular_distance != index(0, n-1)', tag)
        count('perp_whole')


def run_distances():
    for it in range(260):
        scale = rng.choice(SCALES)
        kind = rng.choice(['real', 'real', 'grid', 'dyadic'])
        a = point(scale, kind)
        b = point(scale, kind)
        r = rng.random()
        if r < 0.15:
            b = a                                    # degenerate segment
        elif r < 0.25:
            b = (a[0], b[1])                         # vertical
        elif r < 0.35:
            b = (b[0], a[1])                         # horizontal
        n = rng.randint(1, 8)
        pts = point_set(n, a, b, scale, kind)
        use_int = kind == 'grid' and scale in (1.0, 1e3, 1e8) and rng.random() < 0.7
        if use_int:
            dt = rng.choice([np.int64, np.int32]) if scale < 1e8 else np.int64
            P = np.array([[round(x), round(y)] for x, y in pts], dtype=dt)
            A = np.array([round(a[0]), round(a[1])], dtype=dt)
            B = np.array([round(b[0]), round(b[1])], dtype=dt)
        else:
            P, A, B = np.array(pts, dtype=float), np.array(a, dtype=float), np.array(b, dtype=float)
        tag = (it, scale, kind, P.dtype.name)
        check_shortest(P, A, B, tag)
        if not np.all(A == B):
            check_perp(P, A, B, tag)

    # curves: sub-ranges of a point sequence
    for it in range(120):
        scale = rng.choice(SCALES)
        n = rng.randint(2, 12)
        kind = rng.choice(['real', 'grid', 'plateau', 'line'])
        xs = np.cumsum([rng.choice([1.0, 1.0, 2.0, 0.5]) for _ in range(n)])
        if kind == 'real':
            ys = [rng.uniform(0, 4) for _ in range(n)]
        elif kind == 'grid':
            ys = [float(rng.randint(0, 3)) for _ in range(n)]
        elif kind == 'plateau':
            ys = [3.0] * (n // 2) + [1.0] * (n - n // 2)
        else:
            ys = [2.0 * x + 1.0 for x in xs]
        pts = np.column_stack([xs, ys]) * scale
        if kind in ('grid', 'plateau') and scale == 1.0 and rng.random() < 0.5:
            pts = (pts * 2).astype(np.int64)
        left = rng.randint(0, n - 2)
        right = rng.randint(left + 1, n - 1)
        if rng.random() < 0.4:
            left, right = 0, n - 1
        check_perp_index(pts, left, right, (it, scale, kind, pts.dtype.name))


# --------------------------------------------------------------------------
# rectangles
# --------------------------------------------------------------------------

def exact_iou(amin, amax, bmin, bmax):
    ax0, ay0, ax1, ay1 = fr(amin[0]), fr(amin[1]), fr(amax[0]), fr(amax[1])
    bx0, by0, bx1, by1 = fr(bmin[0]), fr(bmin[1]), fr(bmax[0]), fr(bmax[1])
    dx = min(ax1, bx1) - max(ax0, bx0)
    dy = min(ay1, by1) - max(ay0, by0)
    if dx <= 0 or dy <= 0:
        return Fraction(0), True
    inter = dx * dy
    union = (ax1 - ax0) * (ay1 - ay0) + (bx1 - bx0) * (by1 - by0) - inter
    return inter / union, False


def run_rectangles():
    scales = [1.0, 1.0, 1e-3, 1e3, 1e-30, 1e30, 1e-100, 1e100, 1e-140, 1e140]
    for it in range(500):
        scale = rng.choice(scales)
        kind = rng.choice(['real', 'grid', 'dyadic', 'mixed'])
        if kind == 'mixed':
            # long thin rectangles, crosses, a small rectangle in a big one
            scale = rng.choice([1.0, 1e-3, 1e3, 1e-30, 1e30, 1e-100, 1e100])

        def c():
            if kind == 'mixed':
                return rng.uniform(-1.0, 1.0) * scale * 10.0 ** rng.randint(-6, 6)
            return coord(scale, kind)

        def rectangle():
            x0, x1 = sorted((c(), c()))
            y0, y1 = sorted((c(), c()))
            return [x0, y0], [x1, y1]

        amin, amax = rectangle()
        bmin, bmax = rectangle()
        r = rng.random()
        identical = False
        if r < 0.12:
            bmin, bmax = list(amin), list(amax)
            identical = amin[0] < amax[0] and amin[1] < amax[1]
        elif r < 0.22:                                # B inside A
            bmin = [amin[0] + (amax[0] - amin[0]) * 0.25, amin[1] + (amax[1] - amin[1]) * 0.25]
            bmax = [amin[0] + (amax[0] - amin[0]) * 0.75, amin[1] + (amax[1] - amin[1]) * 0.5]
        elif r < 0.32:                                # touching along an edge
            w = bmax[0] - bmin[0]
            bmin[0] = amax[0]
            bmax[0] = amax[0] + w
        elif r < 0.40:                                # apart on both axes
            bmin = [amax[0] + 0.5 * scale, amax[1] + 0.5 * scale]
            bmax = [amax[0] + 1.5 * scale, amax[1] + 2.5 * scale]
        use_int = kind == 'grid' and scale in (1.0, 1e3) and rng.random() < 0.7
        dt = np.int64 if use_int else float
        conv = (lambda v: np.array([round(c) for c in v], dtype=np.int64)) if use_int \
            else (lambda v: np.array(v, dtype=float))
        amin, amax, bmin, bmax = conv(amin), conv(amax), conv(bmin), conv(bmax)
        tag = (it, scale, kind, str(dt))

        ref, disjoint = exact_iou(amin, amax, bmin, bmax)
        got = kr.rect_overlap(amin, amax, bmin, bmax)
        rev = kr.rect_overlap(bmin, bmax, amin, amax)
        got, rev = float(got), float(rev)
        reff = ffloat(ref)
        if not (0.0 <= got <= 1.0):
            fail('rect_overlap outside [0,1]', tag, got)
        if disjoint and got != 0.0:
            fail('rect_overlap of disjoint rectangles', tag, got)
        if not (abs(got - reff) <= 1e-12 * reff):
            fail('rect_overlap value', tag, amin, amax, bmin, bmax, got, reff)
        if not (abs(got - rev) <= 1e-12 * reff):
            fail('rect_overlap not symmetric', tag, got, rev)
        if identical and not (abs(got - 1.0) <= 1e-12):
            fail('rect_overlap of identical rectangles', tag, got)
        count('rect')


# --------------------------------------------------------------------------
# Menger curvature
# --------------------------------------------------------------------------

def exact_menger(f, g, h):
    x1, y1, x2, y2, x3, y3 = fr(f[0]), fr(f[1]), fr(g[0]), fr(g[1]), fr(h[0]), fr(h[1])
    cr = (x2 - x1) * (y3 - y2) - (y2 - y1) * (x3 - x2)
    s = ((x2 - x1) ** 2 + (y2 - y1) ** 2) * ((x3 - x2) ** 2 + (y3 - y2) ** 2) * ((x1 - x3) ** 2 + (y1 - y3) ** 2)
    # 1/R = 4*area/(abc) = 2*|cross|/(abc)
    kappa = fsqrt(4 * cr * cr / s)
    # accuracy that a floating-point cross product of the side vectors can
    # have: a few eps of the products that are subtracted
    prods = max(abs((x2 - x1) * (y3 - y2)), abs((y2 - y1) * (x3 - x2)),
                abs((x3 - x2) * (y1 - y3)), abs((y3 - y2) * (x1 - x3)),
                abs((x1 - x3) * (y2 - y1)), abs((y1 - y3) * (x2 - x1)))
    tol = fsqrt(4 * prods * prods / s) * 16 * EPS + 1e-12 * kappa
    return kappa, tol, cr == 0


def run_menger():
    # the squared side lengths are multiplied in the reference
    # implementation, keep their product in the floating-point range
    scales = [1.0, 1.0, 1.0, 1e-3, 1e3, 1e-8, 1e8, 1e-20, 1e20, 1e-40, 1e40]
    from itertools import permutations
    for it in range(400):
        scale = rng.choice(scales)
        kind = rng.choice(['real', 'grid', 'dyadic', 'collinear', 'flat', 'curve'])
        if kind == 'collinear':
            a = point(scale, 'grid')
            unit = pow2(scale) if scale not in (1.0, 1e3, 1e8) else scale
            d = (float(rng.randint(-3, 3)) * unit, float(rng.randint(-3, 3)) * unit)
            if d == (0.0, 0.0):
                d = (unit, 2 * unit)
            ts = rng.sample([-3, -2, -1, 0, 1, 2, 3, 4], 3)
            pts = [(a[0] + t * d[0], a[1] + t * d[1]) for t in ts]
        elif kind == 'flat':
            a = point(scale, 'real')
            d = point(scale, 'real')
            ts = rng.sample([-1.0, 0.0, 0.5, 1.0, 2.0], 3)
            pts = [(a[0] + t * d[0], a[1] + t * d[1] * (1 + rng.choice([0, 1e-13, 1e-9, 1e-5]))) for t in ts]
        elif kind == 'curve':
            xs = sorted(rng.sample(range(0, 20), 3))
            pts = [(x * scale, rng.choice([0.0, 1.0, 2.0, rng.uniform(0, 3)]) * scale) for x in xs]
        else:
            pts = [point(scale, kind) for _ in range(3)]
        if len(set(pts)) < 3:
            continue                                  # circumradius undefined
        use_int = kind in ('grid', 'collinear') and scale in (1.0, 1e3, 1e8) and rng.random() < 0.6
        if use_int:
            arr = np.array([[round(x), round(y)] for x, y in pts], dtype=rng.choice([np.int64, np.int32]) if scale < 1e8 else np.int64)
        elif rng.random() < 0.2:
            arr = [list(p) for p in pts]              # plain python lists
        else:
            arr = np.array(pts, dtype=float)
        tag = (it, scale, kind)
        kappa, tol, collinear = exact_menger(arr[0], arr[1], arr[2])
        vals = []
        for i, j, k in permutations(range(3)):
            v = float(menger.menger_curvature(arr[i], arr[j], arr[k]))
            vals.append(v)
            if not (abs(v - kappa) <= tol):
                fail('menger_curvature value', tag, pts, (i, j, k), v, kappa, tol)
            if collinear and kind in ('collinear', 'grid', 'dyadic') and v != 0.0:
                fail('menger_curvature of collinear points', tag, pts, v)
        if not (max(vals) - min(vals) <= 2 * tol):
            fail('menger_curvature not symmetric', tag, pts, vals)
        count('menger')

    # a circle: the curvature of any three points on it is 1/r
    for it in range(60):
        r = 10.0 ** rng.randint(-20, 20)
        c = (rng.uniform(-1, 1) * r, rng.uniform(-1, 1) * r)
        ang = sorted(rng.uniform(0, 2 * math.pi) for _ in range(3))
        if min(ang[1] - ang[0], ang[2] - ang[1]) < 0.05:
            continue
        P = np.array([(c[0] + r * math.cos(t), c[1] + r * math.sin(t)) for t in ang])
        v = menger.menger_curvature(P[0], P[1], P[2])
        if not (abs(v * r - 1.0) <= 1e-9):
            fail('menger_curvature on a circle', r, v)
        count('menger_circle')


# --------------------------------------------------------------------------
# rank
# --------------------------------------------------------------------------

def run_rank():
    for it in range(300):
        n = rng.choice([0, 1, 2, 3, 5, 8, 17, 40, 100])
        kind = rng.choice(['real', 'ties', 'plateau', 'int', 'const', 'extreme', 'sorted', 'reversed'])
        if kind == 'real':
            a = np.array([rng.uniform(-1, 1) for _ in range(n)], dtype=float)
        elif kind == 'ties':
            a = np.array([float(rng.randint(0, 3)) for _ in range(n)], dtype=float)
        elif kind == 'plateau':
            a = np.array([1.0] * (n // 3) + [0.0] * (n // 3) + [1.0] * (n - 2 * (n // 3)), dtype=float)
        elif kind == 'int':
            a = np.array([rng.randint(-5, 5) for _ in range(n)], dtype=np.int64)
        elif kind == 'const':
            a = np.zeros(n)
        elif kind == 'extreme':
            a = np.array([rng.choice([-1, 1]) * 10.0 ** rng.choice([-150, -150, 0, 150, 150]) * rng.choice([1.0, 1.0, 2.0]) for _ in range(n)], dtype=float)
            if n > 2:
                a[0] = 0.0
                a[1] = -0.0
        elif kind == 'sorted':
            a = np.sort(np.array([rng.uniform(-1, 1) for _ in range(n)], dtype=float))
        else:
            a = np.sort(np.array([float(rng.randint(0, 9)) for _ in range(n)], dtype=float))[::-1].copy()
        r = np.asarray(kr.rank(a))
        if r.shape != (n,):
            fail('rank shape', kind, n, r.shape)
            continue
        if sorted(int(v) for v in r) != list(range(n)):
            fail('rank is not a permutation of 0..n-1', kind, a, r)
            continue
        # position rank[i] of value a[i] in the ordered sequence
        ordered = [None] * n
        for i in range(n):
            ordered[int(r[i])] = a[i]
        if any(ordered[i] > ordered[i + 1] for i in range(n - 1)):
            fail('rank does not order the values', kind, a, r)
        count('rank')


def main():
    run_distances()
    run_rectangles()
    run_menger()
    run_rank()
    print('checked:', counts)
    if failures:
        print('%d violation(s)' % len(failures))
        return 1
    print('C17 holds on all generated inputs')
    return 0


if __name__ == '__main__':
    sys.exit(main())
