#!/usr/bin/env python
"""
Property test for C12 (cluster filtering keeps one best-ranked knee per cluster).

For every generated curve, interior knee set (>= 2 knees), linkage, threshold:

 * left / linear / right mode: filter_clusters returns a strictly increasing
   subset of the knees with EXACTLY one member of every cluster, and in every
   multi-member cluster the kept member attains the maximum of
       score(k) = fit(k) * height(k)
   fit    = R2 of the segment first..k (left), k..last-1 (right) or their mean
            (linear); segments of <= 2 points have R2 = 1,
   height = |max cluster height - y[k]| / sum of these over the cluster
            (not normalised when the sum is 0).
 * hull mode: the call completes and returns a strictly increasing subset with
   AT MOST one member per cluster and no member of a cluster whose index span
   [first, last] contains no vertex of the lower convex hull.
 * corner variant: exactly one member per cluster, maximising
       0.5 * (x[k] - x[k-1]) * (y[k] - y[k+1]).

Which of several members with the same (maximal) score is kept is NOT checked:
the statement leaves that open.  All reference values (R2, heights, corner
score, lower hull) are recomputed here without the library; only the linkage
function is taken from the library to define what the clusters are.  The
'maximum score' clause is judged with a small tolerance and only when every
score of the cluster is well defined (the R2 of a constant segment with more
than two points is 0/0).

No arguments.  Exit status 0: property holds, 1: violated (or crash / timeout).
"""
import os
import signal
import sys
import warnings


def _timeout(signum, frame):
    print('TIMEOUT')
    os._exit(1)


signal.signal(signal.SIGALRM, _timeout)
signal.alarm(55)

import numpy as np

warnings.filterwarnings('ignore')

import kneeliverse.clustering as clustering
import kneeliverse.knee_ranking as kr
import kneeliverse.postprocessing as pp

LINKAGES = [clustering.single_linkage, clustering.complete_linkage,
            clustering.centroid_linkage, clustering.average_linkage]
MODES = [kr.ClusterRanking.left, kr.ClusterRanking.linear, kr.ClusterRanking.right,
         kr.ClusterRanking.hull, 'corners']


# ----------------------------------------------------------------------------
# reference model
# ----------------------------------------------------------------------------

def ref_r2(xs, ys):
    """squared Pearson correlation, two pass; nan when undefined"""
    n = len(xs)
    if n <= 2:
        return 1.0
    # work on a rescaled copy so that extreme magnitudes cannot overflow
    xs = np.asarray(xs, dtype=float)
    ys = np.asarray(ys, dtype=float)
    if np.ptp(ys) == 0 or np.ptp(xs) == 0:
        return float('nan')
    xs = (xs - xs[0]) / np.ptp(xs)
    ys = (ys - ys[0]) / np.ptp(ys)
    dx = xs - np.mean(xs)
    dy = ys - np.mean(ys)
    r = float(np.sum(dx * dy)) / (float(np.sqrt(np.sum(dx * dx))) * float(np.sqrt(np.sum(dy * dy))))
    return r * r


def ref_scores(points, members, mode):
    xs, ys = points[:, 0], points[:, 1]
    first, last = int(members[0]), int(members[-1])
    hs = [float(ys[int(k)]) for k in members]
    top = max(hs)
    heights = np.array([abs(top - h) for h in hs])
    total = float(np.sum(heights))
    if total != 0:
        heights = heights / total
    fits = []
    for k in members:
        k = int(k)
        fl = ref_r2(xs[first:k + 1], ys[first:k + 1])
        fr = ref_r2(xs[k:last], ys[k:last])
        if mode is kr.ClusterRanking.left:
            fits.append(fl)
        elif mode is kr.ClusterRanking.right:
            fits.append(fr)
        else:
            fits.append((fl + fr) / 2.0)
    return np.array(fits) * heights


def ref_corner(points, members):
    xs = points[:, 0].astype(float)
    ys = points[:, 1].astype(float)
    # scale-free copy (the argmax does not depend on a positive scale factor)
    sx = np.ptp(xs) or 1.0
    sy = np.ptp(ys) or 1.0
    xs = xs / sx
    ys = ys / sy
    return np.array([0.5 * (xs[k] - xs[k - 1]) * (ys[k] - ys[k + 1]) for k in members])


def ref_lower_hull(points):
    xs = [float(v) for v in points[:, 0]]
    ys = [float(v) for v in points[:, 1]]
    stack = []
    for i in range(len(xs)):
        while len(stack) >= 2:
            a, b = stack[-2], stack[-1]
            turn = (xs[b] - xs[a]) * (ys[i] - ys[a]) - (xs[i] - xs[a]) * (ys[b] - ys[a])
            if turn <= 0:
                stack.pop()
            else:
                break
        stack.append(i)
    return set(stack)


# ----------------------------------------------------------------------------
# the check
# ----------------------------------------------------------------------------

def check(tag, points, knees, linkage, t, mode):
    where = '[%s | %s t=%.4g %s]' % (tag, linkage.__name__, t, mode)
    pts_in, knees_in = points.copy(), knees.copy()
    try:
        if mode == 'corners':
            res = pp.filter_clusters_corners(pts_in, knees_in, linkage, t)
        else:
            res = pp.filter_clusters(pts_in, knees_in, linkage, t, mode)
    except Exception as exc:
        print('VIOLATION %s raised %s: %s' % (where, type(exc).__name__, exc))
        return 1
    errors = []
    res = [int(v) for v in np.asarray(res).ravel()]
    if any(b <= a for a, b in zip(res, res[1:])):
        errors.append('result not strictly increasing: %s' % res)
    if not set(res) <= set(int(k) for k in knees):
        errors.append('result not a subset of the knees: %s' % res)

    labels = np.asarray(linkage(points[knees], t))
    hull = ref_lower_hull(points) if mode is kr.ClusterRanking.hull else None
    for lab in sorted(set(labels.tolist())):
        members = knees[labels == lab]
        inside = set(int(k) for k in members)
        kept = [k for k in res if k in inside]
        if mode is kr.ClusterRanking.hull:
            if len(kept) > 1:
                errors.append('cluster %s: %d members kept' % (members.tolist(), len(kept)))
            if kept and not any(i in hull for i in range(int(members[0]), int(members[-1]) + 1)):
                errors.append('cluster %s has no lower-hull point in its span but %s was kept'
                              % (members.tolist(), kept))
            continue
        if len(kept) != 1:
            errors.append('cluster %s: %d members kept (result %s)' % (members.tolist(), len(kept), res))
            continue
        if mode == 'corners':
            scores = ref_corner(points, members)
        elif len(members) >= 2:
            scores = ref_scores(points, members, mode)
        else:
            continue
        if not np.all(np.isfinite(scores)):
            continue
        mine = scores[members.tolist().index(kept[0])]
        top = float(np.max(scores))
        if mine < top - 1e-9 * max(1.0, abs(top)):
            errors.append('cluster %s: kept %d scores %.12g, but %d scores %.12g'
                          % (members.tolist(), kept[0], mine, int(members[int(np.argmax(scores))]), top))
    for e in errors:
        print('VIOLATION %s %s' % (where, e))
    return len(errors)


# ----------------------------------------------------------------------------
# inputs
# ----------------------------------------------------------------------------

def steps(rng, n, whole):
    out = []
    level = float(rng.integers(300, 900)) if whole else float(rng.uniform(30, 90))
    while len(out) < n:
        out += [level] * int(rng.integers(1, 6))
        drop = float(rng.integers(0, 30)) if whole else float(rng.uniform(0, 4))
        level = max(level - drop, 0.0)
    return np.array(out[:n])


def make_curve(rng, kind, n):
    if kind == 0:     # smooth convex decay
        x = np.cumsum(rng.uniform(0.5, 1.5, n))
        y = 80.0 / (1.0 + 0.25 * x) + 2.0
    elif kind == 1:   # noisy decay
        x = np.cumsum(rng.uniform(0.5, 1.5, n))
        y = 80.0 / (1.0 + 0.25 * x) + rng.normal(0, 1.5, n) + 8.0
    elif kind == 2:   # integer staircase (plateaus, repeated heights)
        x = np.cumsum(rng.integers(1, 4, n)).astype(float)
        y = steps(rng, n, True)
    elif kind == 3:   # float staircase
        x = np.cumsum(rng.uniform(0.5, 1.5, n))
        y = steps(rng, n, False)
    elif kind == 4:   # arbitrary heights, very uneven spacing
        x = np.cumsum(rng.uniform(0.01, 6.0, n))
        y = rng.uniform(0.0, 10.0, n)
    elif kind == 5:   # few levels on a grid: ties, zeros, collinear runs
        x = np.arange(n, dtype=float)
        y = rng.integers(0, 4, n).astype(float)
    elif kind == 6:   # piecewise linear convex, ends at zero
        x = np.arange(n, dtype=float) * 2.0
        nb = min(4, n)
        brk = np.sort(rng.choice(np.arange(n), size=nb, replace=False))
        slopes = np.sort(rng.integers(1, 9, nb + 1))[::-1]
        seg = np.searchsorted(brk, np.arange(n), side='right')
        y = np.cumsum(slopes[seg][::-1])[::-1].astype(float)
        y = y - y.min()
    elif kind == 7:   # concave shoulder followed by a convex tail
        x = np.cumsum(rng.uniform(0.5, 1.5, n))
        u = np.linspace(0, 1, n)
        y = np.where(u < 0.5, 40.0 * (1 - u ** 2), 30.0 * np.exp(-6 * (u - 0.5)))
    elif kind == 8:   # symmetric zig-zag (many exactly equal scores)
        x = np.arange(n, dtype=float)
        y = np.where(np.arange(n) % 2 == 0, 2.0, 1.0)
    else:             # straight line (everything collinear)
        x = np.arange(n, dtype=float) * 0.5
        y = 3.0 * (n - np.arange(n, dtype=float))
    return np.column_stack((x, y))


def rescale(pts, how_x, how_y):
    """extreme but valid magnitudes: the largest value becomes 1e150 ('big'),
    or everything is multiplied by 1e-150 ('tiny')"""
    out = pts.astype(float).copy()
    for col, how in ((0, how_x), (1, how_y)):
        if how == 'big':
            out[:, col] = out[:, col] * (1e150 / np.max(np.abs(out[:, col])))
        else:
            out[:, col] = out[:, col] * 1e-150
    return out


def inputs():
    rng = np.random.default_rng(71212)
    count = 0
    for i in range(300):
        kind = i % 10
        n = int(rng.integers(4, 70))
        if i % 50 == 49:
            n = int(rng.integers(300, 1200))
        pts = make_curve(rng, kind, n)
        scale = ''
        if kind == 2 and i % 20 < 10:
            pts = pts.astype(np.int64)
            scale = 'int64'
        elif i % 7 == 3:
            pts, scale = rescale(pts, 'big', 'big'), 'x,y->1e150'
        elif i % 7 == 4:
            pts, scale = rescale(pts, 'tiny', 'tiny'), 'x,y->1e-150'
        elif i % 7 == 5:
            pts, scale = rescale(pts, 'tiny', 'big'), 'x->1e-150,y->1e150'
        elif i % 7 == 6 and i % 2 == 0:
            pts, scale = rescale(pts, 'big', 'tiny'), 'x->1e150,y->1e-150'
        m = min(int(rng.integers(2, 24)), n - 2)
        pick = rng.random()
        if pick < 0.25:       # a block of adjacent knees
            s = int(rng.integers(1, n - m))
            kn = np.arange(s, s + m)
        elif pick < 0.35 and kind in (2, 3, 5, 8):   # knees of equal height only
            ys = pts[1:-1, 1]
            vals, cnt = np.unique(ys, return_counts=True)
            v = vals[int(np.argmax(cnt))]
            kn = np.flatnonzero(ys == v) + 1
            if len(kn) < 2:
                kn = np.sort(rng.choice(np.arange(1, n - 1), size=m, replace=False))
        else:
            kn = np.sort(rng.choice(np.arange(1, n - 1), size=m, replace=False))
        count += 1
        yield 'in%03d kind%d n%d %s' % (i, kind, n, scale), pts, kn.astype(np.int64), rng


def main():
    grid = [0.005, 0.01, 0.02, 0.05, 0.1, 0.2, 0.35, 0.5, 1.0, 2.0]
    bad = checks = n_in = 0
    for tag, pts, kn, rng in inputs():
        n_in += 1
        for linkage in LINKAGES:
            ts = [float(rng.choice(grid))]
            if len(pts) < 300:
                ts.append(float(rng.uniform(0.004, 0.7)))
            for t in ts:
                for mode in MODES:
                    bad += check(tag, pts, kn, linkage, t, mode)
                    checks += 1
    if bad:
        print('C12 VIOLATED: %d problem(s) in %d checks on %d inputs' % (bad, checks, n_in))
        return 1
    print('C12 holds: %d checks on %d generated inputs' % (checks, n_in))
    return 0


if __name__ == '__main__':
    sys.exit(main())
