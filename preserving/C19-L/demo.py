#!/usr/bin/env python
# C19 property test (L): knee-evaluation scores obey their accounting
# identities.  Checks the property as stated on a few hundred generated
# (curve, K, E, t, strategy) combinations against small independent
# pure-Python oracles.  Exit 0 = property holds, exit 1 = violated.
import itertools
import math
import signal
import sys
import warnings

signal.alarm(55)

import numpy as np
import kneeliverse.evaluation as evaluation
from kneeliverse.evaluation import Strategy

warnings.simplefilter('ignore')

REL = 1e-9
failures = []


def fail(msg):
    failures.append(msg)
    if len(failures) <= 25:
        print('VIOLATION:', msg)


def close(u, v):
    return math.isclose(float(u), float(v), rel_tol=REL, abs_tol=1e-12)


# ----------------------------------------------------------------- oracles
def oracle_cm(points, knees, expected, t):
    xs = [v for v in points[:, 0].tolist()]
    dx = math.fabs(max(xs) - min(xs))
    kx = [points[int(k), 0].item() for k in knees]
    claimed = set()
    tp = 0
    for row in expected.tolist():
        px = row[0]
        best, best_d = None, None
        for j, v in enumerate(kx):
            d = math.fabs(v - px) / dx
            if best_d is None or d < best_d:   # first one on ties
                best, best_d = j, d
        if best_d <= t and best not in claimed:
            claimed.add(best)
            tp += 1
    fn = len(expected) - tp
    fp = len(knees) - tp
    tn = len(points) - tp - fp - fn
    return tp, fp, fn, tn


def oracle_side(nk, ne, s):
    """True when the matching starts from the knees."""
    if s is Strategy.knees:
        return True
    if s is Strategy.expected:
        return False
    if s is Strategy.best:       # the smaller side, expected on ties
        return ne > nk
    return ne < nk               # worst: the larger side, expected on ties


def oracle_errors(points, knees, expected, s, eps=1e-16):
    kp = [tuple(r) for r in points[knees].tolist()]
    ex = [tuple(r) for r in expected.tolist()]
    a, b = (kp, ex) if oracle_side(len(kp), len(ex), s) else (ex, kp)
    abs_e, sq_e, pct_e = [], [], []
    ambiguous = False
    for p in a:
        ds = [math.sqrt((q[0] - p[0]) ** 2 + (q[1] - p[1]) ** 2) for q in b]
        m = min(ds)
        j = ds.index(m)
        # a different candidate that is (almost) as near: the matching is not
        # determined by the statement, skip the value comparison for this case
        for i, d in enumerate(ds):
            if i != j and b[i] != b[j] and d - m <= 1e-9 * max(1.0, m):
                ambiguous = True
        q = b[j]
        for c in (0, 1):
            abs_e.append(math.fabs(p[c] - q[c]))
            sq_e.append((p[c] - q[c]) ** 2)
            pct_e.append(((p[c] - q[c]) / (p[c] + eps)) ** 2)
    n = len(abs_e)
    return (math.fsum(abs_e) / n, math.fsum(sq_e) / n,
            math.sqrt(math.fsum(pct_e) / n), ambiguous)


# ------------------------------------------------------------------ checks
def check_cm(name, points, knees, expected, t, perfect):
    n = len(points)
    cm = evaluation.cm(points, knees, expected, t)
    tp, fp = (int(v) for v in cm[0])
    fn, tn = (int(v) for v in cm[1])
    want = oracle_cm(points, knees, expected, t)
    if (tp, fp, fn, tn) != want:
        fail(f'{name}: cm={[tp, fp, fn, tn]}, greedy one-to-one count gives {list(want)}')
    if tp + fn != len(expected):
        fail(f'{name}: TP+FN={tp + fn} != |E|={len(expected)}')
    if tp + fp != len(knees):
        fail(f'{name}: TP+FP={tp + fp} != |K|={len(knees)}')
    if tp + fp + fn + tn != n:
        fail(f'{name}: entries sum to {tp + fp + fn + tn} != n={n}')
    if min(tp, fp, fn, tn) < 0:
        fail(f'{name}: negative entry in {cm.tolist()}')

    acc = float(evaluation.accuracy(cm))
    f1 = float(evaluation.f1score(cm))
    if not (0.0 <= acc <= 1.0):
        fail(f'{name}: accuracy={acc!r} outside [0,1]')
    if not (0.0 <= f1 <= 1.0):
        fail(f'{name}: f1={f1!r} outside [0,1]')
    scores = [('accuracy', acc), ('f1', f1)]
    if (tp + fp) * (tp + fn) * (tn + fp) * (tn + fn) != 0:
        mcc = float(evaluation.mcc(cm))
        if not (-1.0 - 1e-12 <= mcc <= 1.0 + 1e-12):
            fail(f'{name}: mcc={mcc!r} outside [-1,1] for cm={cm.tolist()}')
        scores.append(('mcc', mcc))
    if perfect:
        if (tp, fp, fn) != (len(knees), 0, 0):
            fail(f'{name}: perfect detection but cm={cm.tolist()}')
        for nm, v in scores:
            if not close(v, 1.0):
                fail(f'{name}: perfect detection but {nm}={v!r}')


def check_metrics(name, points, knees, expected, perfect):
    for s in Strategy:
        mae = float(evaluation.mae(points, knees, expected, s))
        mse = float(evaluation.mse(points, knees, expected, s))
        rmse = float(evaluation.rmse(points, knees, expected, s))
        rmspe = float(evaluation.rmspe(points, knees, expected, s))
        tag = f'{name} s={s}'
        for nm, v in (('mae', mae), ('mse', mse), ('rmse', rmse), ('rmspe', rmspe)):
            if not (v >= 0.0):
                fail(f'{tag}: {nm}={v!r} is not >= 0')
            if perfect and v != 0.0:
                fail(f'{tag}: E is exactly the knee points but {nm}={v!r}')
        if not close(rmse, math.sqrt(mse)):
            fail(f'{tag}: rmse={rmse!r} != sqrt(mse)={math.sqrt(mse)!r}')
        o_mae, o_mse, o_rmspe, ambiguous = oracle_errors(points, knees, expected, s)
        if ambiguous:
            continue
        if not close(mae, o_mae):
            fail(f'{tag}: mae={mae!r}, nearest-neighbour matching gives {o_mae!r}')
        if not close(mse, o_mse):
            fail(f'{tag}: mse={mse!r}, nearest-neighbour matching gives {o_mse!r}')
        if not close(rmspe, o_rmspe):
            fail(f'{tag}: rmspe={rmspe!r}, nearest-neighbour matching gives {o_rmspe!r}')


# -------------------------------------------------------------- generators
def gen_curve(rng, n):
    kind = rng.integers(0, 5)
    if kind == 0:      # integer grid, decreasing integer y with plateaus
        x = np.arange(n, dtype=np.int64) + int(rng.integers(0, 50))
        y = np.sort(rng.integers(0, max(2, n // 2), size=n))[::-1].astype(np.int64)
    elif kind == 1:    # irregular integer steps
        x = np.cumsum(rng.integers(1, 5, size=n)).astype(np.int64)
        y = rng.integers(0, 100, size=n).astype(np.int64)
    elif kind == 2:    # smooth convex decreasing float curve
        x = np.cumsum(rng.uniform(0.1, 2.0, size=n))
        y = 100.0 / (1.0 + x)
    elif kind == 3:    # float, noisy, x may start negative
        x = np.cumsum(rng.uniform(0.01, 1.0, size=n)) - rng.uniform(0, 5)
        y = rng.uniform(0, 10, size=n)
    else:              # float grid with exact midpoints, y with zeros
        x = np.arange(n, dtype=float) * 0.5
        y = np.maximum(0.0, rng.normal(1.0, 2.0, size=n)).round(1)
    return np.column_stack((x, y))


def gen_case(rng, n):
    points = gen_curve(rng, n)
    nk = int(rng.integers(1, max(2, min(n // 2, 12))))
    knees = rng.choice(n, size=nk, replace=False)
    if rng.random() < 0.8:
        knees = np.sort(knees)
    ne_max = max(1, min(n - nk, 12))
    ne = int(rng.integers(1, ne_max + 1))
    mode = rng.integers(0, 5)
    perfect = False
    if mode == 0:       # exactly the knee points (possibly in another order)
        expected = points[knees].copy()
        if rng.random() < 0.5:
            expected = expected[rng.permutation(nk)]
        perfect = True
    elif mode == 1:     # other points of the curve
        expected = points[rng.choice(n, size=ne, replace=False)].copy()
    elif mode == 2:     # points near the knees: several may claim the same knee
        base = points[rng.choice(knees, size=ne)].astype(float)
        width = (points[-1, 0] - points[0, 0]) * rng.choice([0.001, 0.02, 0.2])
        base[:, 0] += rng.uniform(-width, width, size=ne)
        base[:, 1] = np.fabs(base[:, 1] + rng.uniform(-1, 1, size=ne))
        expected = base
    elif mode == 3:     # midpoints between neighbouring curve points (ties in x)
        i = rng.choice(n - 1, size=min(ne, n - 1), replace=False)
        expected = (points[i] + points[i + 1]) / 2.0
    else:               # a mix of knee points and arbitrary curve points
        k_part = points[knees[: max(1, nk // 2)]]
        o_part = points[rng.choice(n, size=ne, replace=False)]
        expected = np.unique(np.vstack((k_part, o_part)), axis=0)
        expected = expected[rng.permutation(len(expected))]
        if len(expected) + nk > n:
            expected = expected[: max(1, n - nk)]
    if points.dtype.kind == 'i' and rng.random() < 0.5:
        expected = expected.astype(float)
    return points, knees, expected, perfect


def main():
    rng = np.random.default_rng(20261003)
    sizes = [3, 4, 5, 6, 8, 10, 15, 20, 30, 50, 80, 120, 200, 400, 1000, 2500]
    tolerances = [0.0, 0.001, 0.01, 0.05, 0.1, 0.25, 0.5, 1.0]
    ncases = 0
    for rep, n in itertools.product(range(24), sizes):
        points, knees, expected, perfect = gen_case(rng, n)
        name = f'case{ncases} n={n} |K|={len(knees)} |E|={len(expected)}'
        ts = list(rng.choice(tolerances, size=2, replace=False)) + [float(rng.uniform(0, 0.3))]
        try:
            for t in ts:
                check_cm(f'{name} t={t}', points, knees, expected, float(t), perfect)
            check_metrics(name, points, knees, expected, perfect)
        except Exception as ex:
            fail(f'{name}: raised {ex!r}')
        ncases += 1

    # larger traces: many knees, scores must stay in range / be 1 when perfect
    for n, nk in ((1000, 50), (2000, 50), (3000, 150)):
        points = gen_curve(rng, n)
        knees = np.sort(rng.choice(n, size=nk, replace=False))
        try:
            check_cm(f'big n={n} |K|={nk} perfect', points, knees, points[knees].copy(), 0.01, True)
            other = points[np.sort(rng.choice(n, size=nk, replace=False))].copy()
            check_cm(f'big n={n} |K|={nk}', points, knees, other, 0.01, False)
            check_metrics(f'big n={n} |K|={nk}', points, knees, other, False)
        except Exception as ex:
            fail(f'big n={n}: raised {ex!r}')
        ncases += 1

    if failures:
        print(f'{len(failures)} violation(s) of C19 in {ncases} cases')
        sys.exit(1)
    print(f'C19 holds on {ncases} generated cases')
    sys.exit(0)


if __name__ == '__main__':
    main()
