#!/usr/bin/env python3
# coding: utf-8
"""
C08 property test (L): the end-to-end pipeline yields valid, ordered knees of
the original curve.

For a few hundred generated performance curves (synthetic families and, when
they can be found next to the package, the bundled traces) and randomly drawn
configurations (5 simplifiers x 5 detectors x 4 linkages x 4 ranking modes x
thresholds) the pipeline

    simplify -> multi-knee on the reduced curve -> worst-knee, corner and
    cluster filters -> index mapping

is executed and the property is checked as stated:

 * the pipeline completes (no exception, no hang),
 * the result is a strictly increasing list of original-curve indices,
 * each of them is a retained simplification point whose coordinates equal
   those of the corresponding reduced-space knee,
 * every filter stage returns a subsequence of its input,
 * from the worst-knee filter onwards the knee heights are non-increasing from
   left to right (exact comparison).

In addition the simplifier output itself is validated (reduced strictly
increasing, first/last point kept, removed table consistent with reduced),
since the mapping relies on it.

Exit status: 0 if the property holds for all cases, 1 otherwise.
"""

import os
import sys
import time
import signal
import warnings

import numpy as np


def _timeout(signum, frame):
    print('FAIL: the pipeline did not terminate within the time limit (hang?)')
    sys.stdout.flush()
    os._exit(1)


signal.signal(signal.SIGALRM, _timeout)
signal.alarm(58)
warnings.simplefilter('ignore')
T0 = time.time()
BUDGET = 40.0   # seconds; stop generating new cases afterwards

import kneeliverse
import kneeliverse.rdp as rdp
import kneeliverse.metrics as metrics
import kneeliverse.dfdt as dfdt
import kneeliverse.menger as menger
import kneeliverse.kneedle as kneedle
import kneeliverse.lmethod as lmethod
import kneeliverse.curvature as curvature
import kneeliverse.clustering as clustering
import kneeliverse.postprocessing as pp
import kneeliverse.knee_ranking as kr


DETECTORS = [('curvature', curvature.multi_knee), ('menger', menger.multi_knee),
             ('dfdt', dfdt.multi_knee), ('kneedle', kneedle.multi_knee),
             ('lmethod', lmethod.multi_knee)]

LINKAGES = [('single', clustering.single_linkage), ('complete', clustering.complete_linkage),
            ('centroid', clustering.centroid_linkage), ('average', clustering.average_linkage)]

RANKINGS = [kr.ClusterRanking.left, kr.ClusterRanking.linear, kr.ClusterRanking.right, kr.ClusterRanking.hull]


def draw_simplifier(rng):
    k = rng.randint(5)
    if k == 0 and rng.rand() < 0.25:
        t = float(rng.choice([0.9, 0.99, 1.0]))
        d = [rdp.Distance.shortest, rdp.Distance.perpendicular][rng.randint(2)]
        return f'rdp(r2,t={t},{d})', lambda p: rdp.rdp(p, t, distance=d, cost=metrics.Metrics.r2)
    if k == 0:
        t = float(rng.choice([0.1, 0.05, 0.01, 0.005]))
        return f'rdp(t={t})', lambda p: rdp.rdp(p, t)
    if k == 1:
        n = int(rng.choice([5, 10, 20, 40]))
        o = [rdp.Order.segment, rdp.Order.area, rdp.Order.triangle][rng.randint(3)]
        return f'rdp_fixed({n},{o})', lambda p: rdp.rdp_fixed(p, n, order=o)
    if k == 2:
        t = float(rng.choice([0.05, 0.01, 0.005]))
        return f'grdp(t={t})', lambda p: rdp.grdp(p, t)
    if k == 3:
        t = float(rng.choice([0.05, 0.01]))
        n = int(rng.choice([5, 10, 25]))
        return f'mp_grdp(t={t},{n})', lambda p: rdp.mp_grdp(p, t, n)
    n = int(rng.choice([5, 10, 20]))
    return f'min_point_rdp({n})', lambda p: rdp.min_point_rdp(p, min_points=n)


def draw_x(rng, n):
    k = rng.randint(4)
    if k == 0:
        return np.arange(1.0, n + 1.0)
    if k == 1:
        return np.cumsum(rng.randint(1, 8, size=n)).astype(float)
    if k == 2:
        return np.cumsum(rng.uniform(0.05, 3.0, size=n))
    return float(rng.choice([1, 16, 4096])) * np.arange(1.0, n + 1.0)


def draw_curve(rng):
    """Generates a performance curve: strictly increasing finite x, y >= 0."""
    n = int(rng.choice([12, 25, 40, 60, 90, 140, 200, 300, 450]))
    x = draw_x(rng, n)
    u = (x - x[0]) / (x[-1] - x[0])
    fam = rng.randint(8)
    if fam == 0:
        name = 'power'
        y = 1.0 / np.power(1.0 + 50.0 * u, rng.uniform(0.4, 2.0))
    elif fam == 1:
        name = 'exp'
        y = np.exp(-u * rng.uniform(2.0, 12.0)) + rng.choice([0.0, 0.02])
    elif fam == 2:
        name = 'working-sets'
        y = np.zeros(n)
        for _ in range(rng.randint(1, 5)):
            y += rng.uniform(0.1, 0.5) / (1.0 + np.exp((u - rng.uniform(0.05, 0.95)) / rng.uniform(0.005, 0.05)))
        y += rng.choice([0.0, 0.05])
    elif fam == 3:
        name = 'staircase'
        steps = np.sort(rng.uniform(0, 1, size=rng.randint(2, 8)))
        y = np.zeros(n)
        for s in steps:
            y += (u < s) * float(rng.randint(1, 5))
    elif fam == 4:
        name = 'piecewise-linear'
        bx = np.concatenate(([0.0], np.sort(rng.uniform(0, 1, size=rng.randint(1, 6))), [1.0]))
        by = np.sort(rng.uniform(0, 1, size=len(bx)))[::-1]
        by[-1] = rng.choice([0.0, by[-1]])
        y = np.interp(u, bx, by)
    elif fam == 5:
        name = 'noisy'
        y = 1.0 / (1.0 + 20.0 * u) + rng.uniform(0.002, 0.05) * rng.rand(n)
    elif fam == 6:
        name = 'bumpy'
        y = np.exp(-4.0 * u) + 0.05 * np.abs(np.sin(rng.uniform(5, 40) * u)) + 0.01 * rng.rand(n)
    else:
        name = 'plateau-ties'
        y = np.round(1.0 / (1.0 + 30.0 * u), int(rng.choice([1, 2, 3])))
    y = np.abs(y) * float(rng.choice([1.0, 1.0, 100.0, 1e-3, 1e-9]))
    if rng.rand() < 0.15:
        # curves stored as integers (counts); must still have some resolution
        y = np.round(y / max(y.max(), 1e-300) * 1000.0)
        pts = np.stack((np.round(x * 16), y), axis=1)
        if np.all(np.diff(pts[:, 0]) > 0):
            if rng.rand() < 0.5:
                return name + '/int-dtype', pts.astype(np.int64)
            return name + '/int-valued', pts
    return name, np.stack((x, y), axis=1)


def bundled_traces():
    rv = []
    base = os.path.dirname(os.path.abspath(kneeliverse.__file__))
    for d in (os.path.join(base, '..', '..', 'traces'), os.path.join(base, '..', 'traces'), 'traces'):
        if os.path.isdir(d):
            for f in sorted(os.listdir(d)):
                if f.endswith('.csv') and 'expected' not in f:
                    try:
                        pts = np.genfromtxt(os.path.join(d, f), delimiter=',')
                    except Exception:
                        continue
                    if pts.ndim == 2 and pts.shape[1] == 2 and np.all(np.isfinite(pts)) and np.all(np.diff(pts[:, 0]) > 0):
                        if len(pts) > 1500:
                            # keep the run time bounded: evenly thinned version of the trace
                            pts = pts[np.unique(np.linspace(0, len(pts) - 1, 1500).astype(int))]
                        rv.append((f'trace:{f}', pts))
            break
    return rv


def is_subsequence(sub, full):
    it = iter(list(full))
    return all(any(s == f for f in it) for s in list(sub))


def check_simplification(points, reduced, removed):
    errors = []
    reduced = np.asarray(reduced)
    if not np.issubdtype(reduced.dtype, np.integer):
        return [f'reduced is not an integer array: {reduced.dtype}']
    if len(reduced) < 2 or reduced[0] != 0 or reduced[-1] != len(points) - 1:
        errors.append(f'reduced does not keep the end points: {reduced}')
    if np.any(np.diff(reduced) <= 0):
        errors.append(f'reduced is not strictly increasing: {reduced}')
    removed = np.asarray(removed)
    expected = np.column_stack((reduced[:-1], np.diff(reduced) - 1))
    if removed.shape != expected.shape or not np.array_equal(removed, expected):
        errors.append(f'removed table is not consistent with reduced: {removed.tolist()} vs {expected.tolist()}')
    return errors


def check_pipeline(points, reduced, removed, multi_knee, linkage, ranking, tc, tk, presorted=True):
    errors = []
    points_reduced = points[reduced]

    knees = multi_knee(points_reduced)
    k_worst = pp.filter_worst_knees(points_reduced, knees)
    k_corner = pp.filter_corner_knees(points_reduced, k_worst, t=tc)
    k_cluster = pp.filter_clusters(points_reduced, k_corner, linkage, tk, ranking)

    stages = [('multi_knee', knees), ('worst', k_worst), ('corner', k_corner), ('cluster', k_cluster)]

    k0 = np.asarray(knees)
    if len(k0) > 0:
        if not np.issubdtype(k0.dtype, np.integer):
            errors.append(f'multi_knee returned non integer knees {k0}')
            return errors
        if np.any(np.diff(k0) <= 0) or k0[0] < 0 or k0[-1] >= len(points_reduced):
            errors.append(f'multi_knee output is not a strictly increasing list of reduced indices: {k0}')
            return errors

    for (na, a), (nb, b) in zip(stages[:-1], stages[1:]):
        if not is_subsequence(b, a):
            errors.append(f'{nb} filter output {list(b)} is not a subsequence of its input {list(a)}')
    for name, k in stages[1:]:
        k = np.asarray(k, dtype=int)
        h = points_reduced[k, 1]
        if np.any(np.diff(h) > 0):
            errors.append(f'heights after the {name} filter are not non-increasing: {h}')
    if errors:
        return errors

    final = np.asarray(k_cluster, dtype=int)
    if presorted:
        mapped = np.asarray(rdp.mapping(k_cluster, reduced, removed))
    else:
        # let mapping order the removed table itself
        mapped = np.asarray(rdp.mapping(k_cluster, reduced, removed, sorted=False))

    if len(mapped) != len(final):
        errors.append(f'{len(final)} knees were mapped to {len(mapped)} indices')
        return errors
    if len(mapped) == 0:
        return errors
    if not np.issubdtype(mapped.dtype, np.integer):
        errors.append(f'mapped knees are not integers: {mapped.dtype}')
        return errors
    if np.any(mapped < 0) or np.any(mapped >= len(points)):
        errors.append(f'mapped knees outside of the original curve (n={len(points)}): {mapped}')
        return errors
    if np.any(np.diff(mapped) <= 0):
        errors.append(f'mapped knees are not strictly increasing: {mapped}')
    if not np.all(np.isin(mapped, reduced)):
        errors.append(f'mapped knees {mapped} are not all retained simplification points (expected {reduced[final]})')
    if not np.array_equal(points[mapped], points_reduced[final]):
        errors.append(f'coordinates of the mapped knees {mapped} differ from those of the reduced-space knees {final}')
    return errors


def main():
    rng = np.random.RandomState(80608)
    failures = 0
    runs = 0
    ncurves = 0

    todo = [draw_curve(rng) for _ in range(900)]
    traces = bundled_traces()
    # interleave the traces with the synthetic curves
    for i, tr in enumerate(traces):
        todo.insert(7 * (i + 1), tr)

    for cname, points in todo:
        if time.time() - T0 > BUDGET:
            break
        ncurves += 1
        sname, simplify = draw_simplifier(rng)
        if len(points) > 700 and ('grdp' in sname or 'min_point' in sname):
            # the global variants are quadratic; use the plain / fixed ones on the big traces
            sname, simplify = 'rdp(t=0.01)', (lambda p: rdp.rdp(p, 0.01))
        label = f'{cname} n={len(points)} / {sname}'
        try:
            reduced, removed = simplify(points)
            errors = check_simplification(points, reduced, removed)
        except Exception as e:
            errors = [f'simplifier raised {type(e).__name__}: {e}']
        for e in errors:
            failures += 1
            print(f'FAIL [{label}]: {e}')
        if errors:
            continue

        # three complete pipeline configurations per simplification
        for _ in range(3):
            dname, multi_knee = DETECTORS[rng.randint(len(DETECTORS))]
            lname, linkage = LINKAGES[rng.randint(len(LINKAGES))]
            ranking = RANKINGS[rng.randint(len(RANKINGS))]
            tc = float(rng.choice([0.1, 0.33, 0.5, 0.8]))
            tk = float(rng.choice([0.01, 0.02, 0.05, 0.1, 0.2, 0.4]))
            presorted = bool(rng.rand() < 0.8)
            runs += 1
            try:
                errors = check_pipeline(points, reduced, removed, multi_knee, linkage, ranking, tc, tk, presorted)
            except Exception as e:  # the pipeline has to complete
                errors = [f'pipeline raised {type(e).__name__}: {e}']
            for e in errors:
                failures += 1
                print(f'FAIL [{label} / {dname} / {lname} / {ranking} / tc={tc} tk={tk}]: {e}')

    elapsed = time.time() - T0
    if failures:
        print(f'{failures} violation(s) of C08 in {runs} pipeline runs on {ncurves} curves ({elapsed:.1f} s)')
        return 1
    print(f'OK: C08 holds for {runs} pipeline runs on {ncurves} curves ({len(traces)} bundled traces found, {elapsed:.1f} s)')
    return 0


if __name__ == '__main__':
    rc = main()
    sys.stdout.flush()
    sys.exit(rc)
