#!/usr/bin/env python
"""
C07 property test (L): reduced-space indices map back to exactly the original
indices.

For every reduction (reduced, removed) produced by any simplifier, or derived
by compute_removed_points from any strictly increasing index set containing
both endpoints, and for every ascending list I of positions in the reduced
curve

    mapping(I, reduced, removed) == reduced[I]

and with sorted=False the same holds for any row order of `removed`;
compute_removed_points reproduces the removed table returned by each
simplifier.

Exit status 0: the property holds on all generated cases; 1: a violation (or
an exception / a hang of the library) was observed.
"""
import itertools
import random
import signal
import sys
import traceback
import warnings


def _timeout(signum, frame):
    print('TIMEOUT: library did not terminate in time')
    sys.exit(1)


signal.signal(signal.SIGALRM, _timeout)
signal.alarm(55)

import numpy as np
import kneeliverse.rdp as rdp
import kneeliverse.metrics as metrics

warnings.simplefilter('ignore')

FAILURES = []
STATS = {'reductions': 0, 'queries': 0}


def fail(msg):
    FAILURES.append(msg)
    if len(FAILURES) <= 8:
        print('VIOLATION:', msg)


def position_lists(k, rng, count):
    """ascending position lists of a reduced curve with k points"""
    if k <= 5:
        for r in range(1, k + 1):
            for comb in itertools.combinations(range(k), r):
                yield list(comb)
    else:
        yield list(range(k))
        yield [k - 1]
        yield [0]
        yield [0, k - 1]
        yield list(range(0, k, 2))
        yield list(range(1, k, 2))
        for _ in range(count):
            r = rng.randint(1, k)
            yield sorted(rng.sample(range(k), r))
    # ascending with repeats (postprocessing.add_points_even builds such lists)
    yield sorted(rng.choice(range(k)) for _ in range(min(k + 2, 8)))
    yield []


def expected_table(reduced):
    reduced = [int(v) for v in reduced]
    return np.array([[a, b - a - 1] for a, b in zip(reduced, reduced[1:])])


def check_reduction(label, points, reduced, removed, rng, count=6):
    STATS['reductions'] += 1
    n = len(points)
    red = np.asarray(reduced)
    ctx = f'{label}: n={n} reduced={red.tolist()}'

    # the reduction itself: strictly increasing, both end points, table matches
    if not (red[0] == 0 and red[-1] == n - 1 and np.all(np.diff(red) > 0)):
        fail(f'{ctx}: not a strictly increasing index set with both endpoints')
        return
    table = expected_table(red)
    again = rdp.compute_removed_points(points, reduced)
    if not (np.array_equal(np.asarray(removed), table) and np.array_equal(again, table)):
        fail(f'{ctx}: removed={np.asarray(removed).tolist()} '
             f'compute_removed_points={np.asarray(again).tolist()} expected={table.tolist()}')
        return

    for I in position_lists(len(red), rng, count):
        STATS['queries'] += 1
        want = red[np.array(I, dtype=int)]
        for form in (np.array(I, dtype=int), list(I)):
            got = rdp.mapping(form, reduced, removed)
            if not np.array_equal(np.asarray(got), want):
                fail(f'{ctx} I={I}: mapping -> {np.asarray(got).tolist()}, expected {want.tolist()}')
                return
        m = len(removed)
        perms = [list(range(m - 1, -1, -1)), list(range(m))]
        p = list(range(m))
        rng.shuffle(p)
        perms.append(p)
        for p in perms:
            got = rdp.mapping(np.array(I, dtype=int), reduced, np.asarray(removed)[p], sorted=False)
            if not np.array_equal(np.asarray(got), want):
                fail(f'{ctx} I={I} rows={p} sorted=False: mapping -> '
                     f'{np.asarray(got).tolist()}, expected {want.tolist()}')
                return

    # querying must not have damaged the reduction
    if not np.array_equal(np.asarray(removed), table):
        fail(f'{ctx}: removed table changed by mapping: {np.asarray(removed).tolist()}')


def curves(rng):
    sizes = (2, 3, 4, 5, 7, 10, 16, 33, 64, 150)
    for n in sizes:
        steps = [rng.choice([0.25, 0.5, 1.0, 1.0, 2.0, 7.0]) for _ in range(n)]
        x = np.cumsum(steps)
        yield f'decay{n}', np.column_stack((x, 200.0 / (1.0 + x)))
        yield f'line{n}', np.column_stack((x, 3.0 * x + 1.0))
        yield f'flat{n}', np.column_stack((x, np.full(n, 4.0)))
        y = np.maximum(2.0, 60.0 - 4.0 * x)
        yield f'hinge{n}', np.column_stack((x, y))
        y = np.array([float(rng.randint(0, 9)) for _ in range(n)])
        yield f'ties{n}', np.column_stack((x, y))
        y = np.cumsum([rng.random() for _ in range(n)])[::-1].copy()
        yield f'walk{n}', np.column_stack((x, y))
        # integer dtype, unit spacing, zeros
        xi = np.arange(n)
        yi = np.array([max(0, (n - i) ** 2 // n - 1) for i in range(n)])
        yield f'int{n}', np.column_stack((xi, yi))


def simplifier_runs(rng, n):
    D, O, M = rdp.Distance, rdp.Order, metrics.Metrics
    runs = []
    for d in D:
        for c in (M.smape, M.rmspe, M.rpd, M.rmsle, M.r2):
            t = 0.95 if c is M.r2 else rng.choice([0.001, 0.01, 0.1])
            runs.append((f'rdp[{d},{c},t={t}]',
                         lambda p, d=d, c=c, t=t: rdp.rdp(p, t=t, distance=d, cost=c)))
    d = rng.choice(list(D))
    o = rng.choice(list(O))
    c = rng.choice([M.smape, M.rmspe, M.rpd])
    t = rng.choice([0.001, 0.01, 0.1])
    length = rng.choice([2, 3, 4, max(2, n // 2), n, n + 3])
    runs.append((f'rdp_fixed[{length},{d},{o}]',
                 lambda p: rdp.rdp_fixed(p, length=length, distance=d, order=o)))
    runs.append((f'grdp[{t},{d},{c},{o}]',
                 lambda p: rdp.grdp(p, t=t, distance=d, cost=c, order=o)))
    mp = rng.choice([2, 3, 5, max(2, n // 3), n + 1])
    runs.append((f'mp_grdp[{t},{mp},{d},{c},{o}]',
                 lambda p: rdp.mp_grdp(p, t=t, min_points=mp, distance=d, cost=c, order=o)))
    runs.append((f'min_point_rdp[{mp}]', lambda p: rdp.min_point_rdp(p, min_points=mp)))
    return runs


def main():
    rng = random.Random(7_2026)

    # part 1a: ALL index subsets containing both endpoints, n <= 7
    for n in range(2, 8):
        pts = np.column_stack((np.arange(n, dtype=float) * 1.5, np.ones(n)))
        for r in range(0, n - 1):
            for inner in itertools.combinations(range(1, n - 1), r):
                reduced = np.array([0] + list(inner) + [n - 1])
                removed = rdp.compute_removed_points(pts, reduced)
                check_reduction('subset', pts, reduced, removed, rng, count=2)

    # part 1b: random subsets of larger curves (array and list form)
    for _ in range(150):
        n = rng.choice([8, 12, 20, 50, 200, 1500])
        pts = np.column_stack((np.arange(n, dtype=float), np.ones(n)))
        dens = rng.choice([0.02, 0.2, 0.5, 0.9])
        inner = [i for i in range(1, n - 1) if rng.random() < dens]
        reduced = [0] + inner + [n - 1]
        if rng.random() < 0.5:
            reduced = np.array(reduced)
        removed = rdp.compute_removed_points(pts, reduced)
        check_reduction('subset', pts, reduced, removed, rng, count=4)

    # part 2: what the simplifiers return
    for name, pts in curves(rng):
        for sname, run in simplifier_runs(rng, len(pts)):
            try:
                reduced, removed = run(pts)
            except Exception:
                fail(f'{sname}({name}): exception\n{traceback.format_exc()}')
                continue
            check_reduction(f'{sname}({name})', pts, reduced, removed, rng, count=3)

    print(f"{STATS['reductions']} reductions, {STATS['queries']} position lists checked, "
          f"{len(FAILURES)} violation(s)")
    if FAILURES:
        print('C07 VIOLATED')
        sys.exit(1)
    print('C07 holds on all generated cases')
    sys.exit(0)


if __name__ == '__main__':
    main()
