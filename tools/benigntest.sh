#!/bin/bash
# usage: tools/benigntest.sh <patch.diff> [PROPS...]   - a behaviour-preserving refactoring: every check must stay silent
D=$(readlink -f "$1"); shift
NAME=$(basename "$D" .diff)
PROPS=${@:-C01 C02 C03 C04 C05 C06 C07 C08 C09 C10 C11 C12 C13 C14 C15 C16 C17 C18 C19 C20}
W=/tmp/mut/benign-$NAME.$$
mkdir -p /tmp/mut; rm -rf "$W"; mkdir -p "$W"
cp -r /repo/src /repo/test /repo/traces "$W"/ 2>/dev/null
find "$W" -name __pycache__ -prune -exec rm -rf {} +
( cd "$W" && patch -p1 -s < "$D" ) || { echo "$NAME: PATCH FAILED"; rm -rf "$W"; exit 3; }
T=$( cd "$W" && PYTHONPATH=$W/src timeout 600 /venv/bin/python -m pytest -q -p no:cacheprovider test 2>&1 | tail -1 )
echo "$NAME: tests: $T"
for P in $PROPS; do
  OUT=$(cd /verif && VERIF_REPO=$W VERIF_SEED=${SEED:-1} ./check $P --tier quick 2>&1); RC=$?
  if [ $RC -ne 0 ]; then echo "$NAME: $P exit $RC"; echo "$OUT" | grep -E "VIOLATION|label=|HARNESS" | cut -c1-400 | head -6; fi
done
echo "$NAME: done"
rm -rf "$W"
