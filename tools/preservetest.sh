#!/bin/bash
# usage: tools/preservetest.sh <name under /tmp/seed/out or /verif/preserving>   (e.g. C05-L)
# A PROPERTY-PRESERVING change written by a sub-agent: a substantial edit after which the property
# still holds (it may change behaviour the property does not constrain).  Confirms in a scratch copy
# that the repository suite passes and that the author's own property test (demo.py) exits 0 with
# and without the change, then runs the quick check of the property and of every property that owns
# a touched file.  Every check must stay silent; an alarm is adjudicated by hand (either the edit
# really breaks a property - then it is archived as a breaking change - or the check over-reaches).
NAME=$1
P=${NAME%%-*}
SRC=/tmp/seed/out/$NAME; [ -d $SRC ] || SRC=/verif/preserving/$NAME
REL="$P"
for f in $(grep '^+++ b/' $SRC/patch.diff | sed 's#+++ b/src/kneeliverse/##'); do
  case $f in
    rdp.py) REL="$REL C01 C04 C05 C06 C07 C08 C14 C20";;
    linear_fit.py) REL="$REL C16 C17 C04 C05 C09 C01 C02 C20";;
    metrics.py) REL="$REL C16 C15 C04 C06 C02 C20";;
    evaluation.py) REL="$REL C15 C19 C06 C04 C20";;
    multi_knee.py) REL="$REL C02 C08 C20";;
    curvature.py|dfdt.py|menger.py|lmethod.py|kneedle.py) REL="$REL C03 C09 C02 C08 C20";;
    postprocessing.py) REL="$REL C13 C14 C12 C08 C20";;
    knee_ranking.py) REL="$REL C17 C12 C13 C08 C20";;
    clustering.py) REL="$REL C11 C12 C08 C20";;
    convex_hull.py) REL="$REL C18 C12 C08 C20";;
    zmethod.py) REL="$REL C10 C20";;
  esac
done
TRY=""
for c in $REL; do case " $TRY " in *" $c "*) ;; *) TRY="$TRY $c";; esac; done
W=/tmp/mut/$NAME.$$
mkdir -p /tmp/mut; rm -rf "$W"; mkdir -p "$W"
cp -r /repo/src /repo/test /repo/traces "$W"/ 2>/dev/null
find "$W" -name __pycache__ -prune -exec rm -rf {} +
( cd "$W" && PYTHONPATH=$W/src timeout 180 /venv/bin/python "$SRC/demo.py" >/dev/null 2>&1 ); D0=$?
( cd "$W" && patch -p1 -s < "$SRC/patch.diff" ) || { echo "$NAME: PATCH FAILED"; rm -rf "$W"; exit 3; }
T=$( cd "$W" && PYTHONPATH=$W/src timeout 600 /venv/bin/python -m pytest -q -p no:cacheprovider test 2>&1 | tail -1 )
( cd "$W" && PYTHONPATH=$W/src timeout 180 /venv/bin/python "$SRC/demo.py" >/dev/null 2>&1 ); D1=$?
echo "$NAME: tests: $T; author's property test: clean exit $D0, changed exit $D1 (want 0 0); checks:$TRY"
ALARMS=""
for C in $TRY; do
  OUT=$(cd /verif && VERIF_REPLAYS=$W/replays VERIF_REPO=$W VERIF_SEED=${SEED:-1} ./check $C --tier quick 2>&1); RC=$?
  if [ $RC -ne 0 ]; then ALARMS="$ALARMS $C"; echo "$NAME: $C exit $RC"; echo "$OUT" | grep -E "VIOLATION|label=|HARNESS" | cut -c1-500 | head -8; fi
done
echo "$NAME: alarms:${ALARMS:- none}"
rm -rf "$W"
