#!/bin/bash
# usage: tools/benignrelated.sh <benign/*.diff>  - like benigntest.sh, but only the checks of the properties owning a touched file
D=$(readlink -f "$1"); NAME=$(basename "$D" .diff)
REL=""
for f in $(grep '^+++ b/' $D | sed 's#+++ b/src/kneeliverse/##'); do
  case $f in
    rdp.py) REL="$REL C01 C04 C05 C06 C07 C08 C14 C20";;
    linear_fit.py) REL="$REL C16 C17 C04 C05 C09 C01 C02 C20";;
    metrics.py) REL="$REL C16 C15 C04 C06 C02 C20";;
    evaluation.py) REL="$REL C15 C19 C06 C04 C20";;
    multi_knee.py) REL="$REL C02 C08 C20";;
    curvature.py|dfdt.py|menger.py|lmethod.py|kneedle.py) REL="$REL C03 C09 C02 C08 C20";;
    postprocessing.py) REL="$REL C13 C14 C12 C08 C20";;
    knee_ranking.py) REL="$REL C17 C12 C13 C08 C20";;
    clustering.py) REL="$REL C11 C12 C08 C20";;
    convex_hull.py) REL="$REL C18 C12 C08 C20";;
    zmethod.py) REL="$REL C10 C20";;
  esac
done
TRY=""
for c in $REL; do case " $TRY " in *" $c "*) ;; *) TRY="$TRY $c";; esac; done
exec $(dirname "$0")/benigntest.sh "$D" $TRY
