#!/bin/bash
# usage: tools/seedauto.sh <name under /tmp/seed/out>
# Confirms + archives a seeded change: first the quick check of its own property; if that does not
# detect it, the checks of the properties that own the files touched by the patch.
NAME=$1
P=${NAME%%-*}
SRC=/tmp/seed/out/$NAME
REL=""
for f in $(grep '^+++ b/' $SRC/patch.diff | sed 's#+++ b/src/kneeliverse/##'); do
  case $f in
    rdp.py) REL="$REL C01 C04 C05 C06 C07 C08 C20";;
    linear_fit.py) REL="$REL C16 C17 C04 C09 C01 C20";;
    metrics.py) REL="$REL C16 C15 C04 C20";;
    evaluation.py) REL="$REL C15 C19 C06 C20";;
    multi_knee.py) REL="$REL C02 C08";;
    curvature.py|dfdt.py|menger.py|lmethod.py|kneedle.py) REL="$REL C03 C09 C02 C08 C20";;
    postprocessing.py) REL="$REL C13 C14 C12 C08 C20";;
    knee_ranking.py) REL="$REL C17 C12 C13 C20";;
    clustering.py) REL="$REL C11 C12 C20";;
    convex_hull.py) REL="$REL C18 C12";;
    zmethod.py) REL="$REL C10 C20";;
  esac
done
OUT=$(/verif/tools/seedkeep.sh $NAME $P 2>&1)
echo "$OUT" | grep -E "want [01]\)|passed|failed" | tr '\n' ' '
if echo "$OUT" | grep -q "detected_by \['"; then echo "$OUT" | grep kept; exit 0; fi
TRY=""
for c in $REL; do case " $TRY $P " in *" $c "*) ;; *) TRY="$TRY $c";; esac; done
echo "  own check ($P) silent; trying:$TRY"
/verif/tools/seedkeep.sh $NAME $P $TRY 2>&1 | grep kept
