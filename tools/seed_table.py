#!/venv/bin/python
"""Write seeded/RESULTS.md from seeded/*/meta.json."""
import json, os, glob
rows = []
for d in sorted(glob.glob('/verif/seeded/*/meta.json')):
    m = json.load(open(d))
    name = os.path.basename(os.path.dirname(d))
    c = m.get('confirmed', {})
    rows.append((name, m.get('property'), (m.get('summary') or '').replace('\n', ' ').replace('|', '/')[:230],
                 (m.get('needs') or '').replace('\n', ' ').replace('|', '/')[:200],
                 ', '.join(c.get('detected_by', [])) or 'MISSED', ', '.join(c.get('labels', [])[:3]),
                 m.get('strengthened', '')))
with open('/verif/seeded/RESULTS.md', 'w') as fh:
    fh.write('# Seeded changes (written independently by sub-agents from the property text only)\n\n')
    fh.write('Each directory holds patch.diff, demo.py (fails with the change, passes without), meta.json and confirm.log.\n')
    fh.write('Confirmed with tools/seedtest.sh: scratch copy of /repo outside /repo and /verif, repository suite passes with the change, demo exit 1 / 0, then the quick check of the property with VERIF_REPO=<copy>.\n\n')
    fh.write('| change | property | what was changed | what it needs to manifest | detected by (quick tier) | first labels | check strengthened because of it |\n|---|---|---|---|---|---|---|\n')
    for r in rows:
        fh.write('| ' + ' | '.join(str(x) for x in r) + ' |\n')
print(len(rows), 'rows;', sum(1 for r in rows if r[4] == 'MISSED'), 'missed')
