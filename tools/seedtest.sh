#!/bin/bash
# usage: tools/seedtest.sh <seed dir containing patch.diff, demo.py> <PROPERTY ...> [-- extra check args]
# Confirms a seeded change (tests pass, demo fails with it / passes without) in a scratch copy outside
# /repo and /verif, runs the given properties' quick checks against the copy, removes the copy.
set -u
SD=$(readlink -f "$1"); shift
NAME=$(basename "$SD")
W=/tmp/mut/$NAME.$$
mkdir -p /tmp/mut; rm -rf "$W"; mkdir -p "$W"
cp -r /repo/src /repo/test /repo/traces "$W"/ 2>/dev/null
cp /repo/pyproject.toml /repo/setup.cfg "$W"/ 2>/dev/null
find "$W" -name __pycache__ -prune -exec rm -rf {} +
( cd "$W" && PYTHONPATH=$W/src timeout 120 /venv/bin/python "$SD/demo.py" >/dev/null 2>&1 ); echo "demo on clean copy: exit $? (want 0)"
( cd "$W" && patch -p1 -s < "$SD/patch.diff" ) || { echo "PATCH FAILED"; rm -rf "$W"; exit 3; }
( cd "$W" && PYTHONPATH=$W/src timeout 600 /venv/bin/python -m pytest -q -p no:cacheprovider test 2>&1 | tail -1 )
( cd "$W" && PYTHONPATH=$W/src timeout 120 /venv/bin/python "$SD/demo.py" >/dev/null 2>&1 ); echo "demo on mutated copy: exit $? (want 1)"
for P in "$@"; do
  for SEED in ${SEEDS:-1}; do
    OUT=$(cd /verif && VERIF_REPO=$W VERIF_SEED=$SEED ./check $P --tier ${TIER:-quick} 2>&1); RC=$?
    echo "$OUT" | grep -v conda | grep -E "VIOLATION|label=|HARNESS|seed=" | cut -c1-260 | head -${LINES_MAX:-8}; echo "  -> $P seed $SEED exit $RC"
  done
done
rm -rf "$W"
