#!/bin/bash
# Re-run every archived seeded change against the check(s) recorded as detecting it; report any that the
# current machinery no longer detects, and keep the shrunk replay cases as regression corpus entries
# (corpus/<ID>/mut-<name>-<n>.json).  usage: tools/seedregress.sh [names...]
cd /verif
NAMES=${@:-$(ls seeded | grep -E '^C[0-9]+-[A-P]$')}
for N in $NAMES; do
  DET=$(/venv/bin/python -c "import json;print(' '.join(json.load(open('/verif/seeded/$N/meta.json')).get('confirmed',{}).get('detected_by',[])))" 2>/dev/null)
  [ -z "$DET" ] && { echo "$N: (recorded as undetected) skip"; continue; }
  RD=/verif/.work/harvest-$N; rm -rf $RD; mkdir -p $RD
  OUT=$(VERIF_REPLAYS=$RD LINES_MAX=2 tools/seedtest.sh seeded/$N $DET 2>&1 | grep -v conda)
  if echo "$OUT" | grep -q "PATCH FAILED"; then echo "$N: patch no longer applies to the current tree (skipped)"; rm -rf $RD; continue; fi
  if echo "$OUT" | grep -q "VIOLATION\|exit 1$"; then
    i=0
    for f in $RD/*.json; do
      [ -f "$f" ] || continue
      [ $(stat -c %s "$f") -gt 20000 ] && continue
      P=$(basename $f | cut -d- -f1); mkdir -p corpus/$P; i=$((i+1))
      /venv/bin/python -c "
import json
o=json.load(open('$f')); json.dump({'from_seeded_change':'$N','label':o['label'],'case':o['case']},open('/verif/corpus/$P/mut-$N-$i.json','w'))"
    done
    echo "$N: still detected by $(echo "$OUT" | grep -o -- '-> C[0-9]* seed [0-9]* exit 1' | sed 's/-> //; s/ seed.*//' | sort -u | tr '\n' ' ') ($i replay case(s) kept)"
  else echo "$N: NOT DETECTED ANY MORE (was: $DET)"; echo "$OUT" | tail -3; fi
  rm -rf $RD
done
