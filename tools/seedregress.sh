#!/bin/bash
# Re-run every archived seeded change against the check(s) recorded as detecting it; report any that
# the current machinery no longer detects.  usage: tools/seedregress.sh [names...]
cd /verif
NAMES=${@:-$(ls seeded | grep -E '^C[0-9]+-[A-H]$')}
for N in $NAMES; do
  DET=$(/venv/bin/python -c "import json;print(' '.join(json.load(open('/verif/seeded/$N/meta.json')).get('confirmed',{}).get('detected_by',[])))" 2>/dev/null)
  [ -z "$DET" ] && { echo "$N: (recorded as undetected) skip"; continue; }
  OUT=$(LINES_MAX=2 tools/seedtest.sh seeded/$N $DET 2>&1 | grep -v conda)
  if echo "$OUT" | grep -q "PATCH FAILED"; then echo "$N: patch no longer applies to the current tree (skipped)"; continue; fi
  if echo "$OUT" | grep -q "VIOLATION"; then echo "$N: still detected by $(echo "$OUT" | grep -o 'VIOLATION property=C[0-9]*' | sort -u | sed 's/VIOLATION property=//' | tr '\n' ' ')"; else echo "$N: NOT DETECTED ANY MORE (was: $DET)"; echo "$OUT" | tail -3; fi
done
