#!/bin/bash
# usage: tools/quiet.sh "<seeds>" [tier] [props...]   - run checks on the unchanged tree, print one line per run
SEEDS=${1:-"1 2 3 4 5"}; TIER=${2:-quick}; shift 2 2>/dev/null
PROPS=${@:-C01 C02 C03 C04 C05 C06 C07 C08 C09 C10 C11 C12 C13 C14 C15 C16 C17 C18 C19 C20}
cd "$(dirname "$0")/.."
for s in $SEEDS; do for p in $PROPS; do
  OUT=$(VERIF_SEED=$s ./check $p --tier $TIER 2>&1); RC=$?
  echo "$OUT" | grep -E "VIOLATION|label=|HARNESS" | cut -c1-300
  echo "$OUT" | grep -E "seed=" | tail -1 | sed "s/$/ exit=$RC/"
done; done
