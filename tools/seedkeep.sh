#!/bin/bash
# usage: tools/seedkeep.sh <name under /tmp/seed/out> <PROPERTY ...>
# Confirms the seeded change with seedtest.sh and archives it as /verif/seeded/<name>/.
set -u
NAME=$1; shift
SRC=/tmp/seed/out/$NAME
DST=/verif/seeded/$NAME
mkdir -p "$DST"
cp "$SRC/patch.diff" "$SRC/demo.py" "$DST"/
LOG=$(/verif/tools/seedtest.sh "$SRC" "$@" 2>&1 | grep -v conda)
echo "$LOG" > "$DST/confirm.log"
echo "$LOG" | grep -E "demo on|passed|failed|exit|VIOLATION" | cut -c1-200
/venv/bin/python - "$SRC/meta.json" "$DST/meta.json" "$DST/confirm.log" "$@" <<'PY' 2>/dev/null
import json, sys, re
src, dst, logf = sys.argv[1:4]; props = sys.argv[4:]
try: meta = json.load(open(src))
except Exception: meta = {}
log = open(logf).read()
meta['breaks_property'] = meta.get('property')
meta['confirmed'] = {
  'tests_pass_with_change': bool(re.search(r'\b98 passed', log)) and 'failed' not in log.split('demo on mutated')[0].split('demo on clean')[-1],
  'demo_exit_clean': int(re.search(r'demo on clean copy: exit (\d+)', log).group(1)),
  'demo_exit_mutated': int(re.search(r'demo on mutated copy: exit (\d+)', log).group(1)),
  'ran': 'tools/seedtest.sh (scratch copy of /repo outside /repo and /verif, patch applied, repository suite, demo.py, then ./check <property> --tier quick with VERIF_REPO=<copy>)',
  'checks_run': props,
  'detected_by': sorted(set(re.findall(r'VIOLATION property=(C\d+)', log))),
  'labels': sorted(set(re.findall(r'label=(\S+)', log)))[:12],
}
json.dump(meta, open(dst, 'w'), indent=1)
print('kept', dst, 'detected_by', meta['confirmed']['detected_by'])
PY
