#!/bin/bash
# usage: tools/harvest.sh <seeded name>...   - run the detecting check(s) of an archived seeded change against a
# scratch copy and keep the shrunk replay cases as regression corpus entries corpus/<ID>/mut-<name>-<n>.json
cd /verif
for N in "$@"; do
  DET=$(/venv/bin/python -c "import json;print(' '.join(json.load(open('/verif/seeded/$N/meta.json')).get('confirmed',{}).get('detected_by',[])))" 2>/dev/null)
  [ -z "$DET" ] && continue
  RD=/verif/.work/harvest-$N; rm -rf $RD; mkdir -p $RD
  VERIF_REPLAYS=$RD tools/seedtest.sh seeded/$N $DET >/dev/null 2>&1
  i=0
  for f in $RD/*.json; do
    [ -f "$f" ] || continue
    P=$(basename $f | cut -d- -f1)
    SZ=$(stat -c %s "$f")
    [ $SZ -gt 20000 ] && continue       # keep the corpus small: only cases that shrank
    mkdir -p corpus/$P; i=$((i+1))
    /venv/bin/python -c "
import json,sys
o=json.load(open('$f')); json.dump({'from_seeded_change':'$N','label':o['label'],'case':o['case']},open('/verif/corpus/$P/mut-$N-$i.json','w'))"
  done
  echo "$N: $i replay case(s) kept"
  rm -rf $RD
done
