#!/venv/bin/python
"""Regenerate MANIFEST.json from the property modules (keeps it valid at all times)."""
import importlib
import json
import os
import subprocess
import sys

HERE = os.path.dirname(os.path.dirname(os.path.abspath(__file__)))
sys.path.insert(0, HERE)
os.environ.setdefault('PYTHONHASHSEED', '0')

ALL = ['C%02d' % i for i in range(1, 21)]
checks, na = [], []
for pid in ALL:
    path = os.path.join(HERE, 'kv', 'props', pid.lower() + '.py')
    if not os.path.exists(path):
        na.append({'property_id': pid, 'reason': 'check not built yet in this session (no technique obstacle; see DESIGN.md section 4)'})
        continue
    src = open(path).read()
    ns = {}
    # read metadata without importing the library
    import ast
    tree = ast.parse(src)
    meta = {}
    for node in tree.body:
        if isinstance(node, ast.Assign) and len(node.targets) == 1 and isinstance(node.targets[0], ast.Name):
            name = node.targets[0].id
            if name in ('ID', 'RULE', 'ASSUMPTIONS', 'LEVEL_TEXT', 'LEVEL_NOTE', 'TECHNIQUE', 'DESIGN_REF'):
                try:
                    meta[name] = ast.literal_eval(node.value)
                except Exception:
                    pass
    checks.append({
        'property_id': pid,
        'quick_cmd': './check %s --tier quick' % pid,
        'thorough_cmd': './check %s --tier thorough' % pid,
        'evidence_file': 'evidence/%s.json' % pid,
        'replay_cmd_template': './check %s --replay {path}' % pid,
        'engine': 'kv',
        'level_claimed': {
            'category': 'exploration',
            'text': meta.get('LEVEL_TEXT', 'Generated-input search against an explicit oracle; finds counter-examples, never proves absence.'),
            'design_ref': meta.get('DESIGN_REF', 'DESIGN.md section 4, ' + pid),
        },
        'level_note': meta.get('LEVEL_NOTE', 'Trusts NumPy, Numba, Hypothesis and the oracle code in kv/props/%s.py; the library is run from /repo/src of the current working tree.' % pid.lower()),
        'technique': meta.get('TECHNIQUE', 'property-based testing (Hypothesis) against an explicit oracle'),
    })

try:
    commits = subprocess.run(['git', '-C', '/repo', 'log', '--format=%H %s', 'ea6f21f..HEAD'],
                             capture_output=True, text=True).stdout.strip().splitlines()
except Exception:
    commits = []

manifest = {
    'version': 1,
    'setup_cmd': "/venv/bin/python -c 'import hypothesis' 2>/dev/null || /venv/bin/pip install -q --no-index --find-links /opt/veriftools/wheels --target /verif/.deps hypothesis; /venv/bin/python -c 'import sys; sys.path.append(\"/verif/.deps\"); import atheris' 2>/dev/null || /venv/bin/pip install -q --no-index --find-links /opt/veriftools/wheels --target /verif/.deps atheris || true",
    'hooks': {
        'guard': 'KNEELIVERSE_VERIF',
        'enable': 'no source hooks are needed: loop counts come from sys.monitoring, the checks import /repo/src of the working tree directly (the guard name is reserved and unused)',
        'baseline_off_cmd': 'cd /repo && /venv/bin/python -m pytest -ra -q -p no:cacheprovider --timeout=900 --continue-on-collection-errors',
        'source_commits': [],
        'add_only': True,
    },
    'engines': [{
        'name': 'kv',
        'path': 'kv/',
        'serves_properties': [c['property_id'] for c in checks],
        'kind_free_text': 'Hypothesis-driven property-based testing with explicit oracles (reference models, validity predicates, metamorphic and differential relations), exhaustive enumeration of small finite sub-domains, deterministic sys.monitoring loop-bound guard, collect-then-shrink bucketing; atheris coverage-guided campaigns in the thorough tier where registered',
    }],
    'checks': checks,
    'notes': 'All checks: ./check <id> --tier quick|thorough, replay with ./check <id> --replay <file>. VERIF_SEED selects the run; VERIF_REPO (default /repo) selects the tree. Fix commits in /repo: ' + '; '.join(commits),
    'not_applicable': na,
}
with open(os.path.join(HERE, 'MANIFEST.json'), 'w') as fh:
    json.dump(manifest, fh, indent=1)
print('checks:', [c['property_id'] for c in checks])
print('not yet claimed:', [n['property_id'] for n in na])
try:
    import jsonschema
    jsonschema.validate(manifest, json.load(open('/root/.vp/MANIFEST.schema.json')))
    print('manifest validates')
except ImportError:
    print('jsonschema not available here')
