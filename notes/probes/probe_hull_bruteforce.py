import numpy as np, sys, collections, itertools
from fractions import Fraction as F
import kneeliverse.convex_hull as ch
ch.ccw=ch._ccw  # simulate NameError fix
def cross(o,a,b): return (a[0]-o[0])*(b[1]-o[1])-(a[1]-o[1])*(b[0]-o[0])
def brute_hull_info(P):
    # P list of int tuples distinct. returns (extreme vertices set, boundary set)
    n=len(P)
    # monotone chain exact
    idx=sorted(range(n),key=lambda i:P[i])
    def half(ids):
        h=[]
        for i in ids:
            while len(h)>=2 and cross(P[h[-2]],P[h[-1]],P[i])<=0: h.pop()
            h.append(i)
        return h
    lo=half(idx); up=half(idx[::-1])
    verts=lo[:-1]+up[:-1]
    V=set(verts)
    # boundary: points on any hull edge
    B=set()
    if len(verts)<=2:
        B=set(range(n)) if all(cross(P[idx[0]],P[idx[-1]],p)==0 for p in P) else None
    else:
        m=len(verts)
        for k in range(m):
            a=P[verts[k]]; b=P[verts[(k+1)%m]]
            for i,p in enumerate(P):
                if cross(a,b,p)==0 and min(a[0],b[0])<=p[0]<=max(a[0],b[0]) and min(a[1],b[1])<=p[1]<=max(a[1],b[1]): B.add(i)
    return verts,V,B
rng=np.random.default_rng(11)
res=collections.Counter(); ex={}
def patched_graham(points):
    stack=[]; sp=ch._sort_points(points)
    if len(sp)>=3: stack+=sp[:3]
    for i in range(3,len(sp)):
        p=sp[i]
        while len(stack)>1 and ch._ccw(stack[-2],stack[-1],p)>=0: stack.pop()
        stack.append(p)
    return np.array([np.where(np.all(points==p,axis=1))[0][0] for p in stack])
for it in range(5000):
    n=int(rng.integers(3,10)); g=int(rng.choice([3,5,20,1000]))
    S=set()
    while len(S)<n: S.add((int(rng.integers(0,g)),int(rng.integers(0,g))))
    P=list(S); rng.shuffle(P); P=[tuple(map(int,p)) for p in P]
    pts=np.array(P,dtype=float)
    verts,V,B=brute_hull_info(P)
    gen = all(cross(P[i],P[j],P[k])!=0 for i,j,k in itertools.combinations(range(n),3))
    for nm,f in (('orig',ch.graham_scan),('patched',patched_graham)):
        try:
            r=f(pts).tolist()
            if not V<=set(r): k='missing-vertex'
            elif not set(r)<=B: k='non-boundary'
            elif len(set(r))!=len(r): k='dup'
            elif gen:
                # clockwise from p0
                p0=min(range(n),key=lambda i:P[i])
                # expected: verts is ccw starting from leftmost-lowest (lo chain start). clockwise = reverse
                s=verts.index(p0); ccw=verts[s:]+verts[:s]; cw=[ccw[0]]+ccw[1:][::-1]
                k='ok-gen' if r==cw else 'order'
            else: k='ok-degen'
        except Exception as e: r=None; k=type(e).__name__
        key=(nm,gen,k); res[key]+=1
        if not k.startswith('ok') and (key not in ex or n<len(ex[key][0])): ex[key]=(P,r,verts)
for k,v in sorted(res.items(),key=str): print(k,v,ex.get(k))
# lower/upper
def lower_brute(P):
    h=[]
    for i in range(len(P)):
        while len(h)>=2 and cross(P[h[-2]],P[h[-1]],P[i])<=0: h.pop()
        h.append(i)
    return h
res=collections.Counter()
for it in range(3000):
    n=int(rng.integers(2,12)); 
    x=np.cumsum(rng.integers(1,4,n)); y=rng.integers(0,int(rng.choice([2,4,30])),n)
    P=[(int(a),int(b)) for a,b in zip(x,y)]
    pts=np.array(P,dtype=float)
    lo=lower_brute(P); up=lower_brute([(a,-b) for a,b in P])
    try: r1=ch.graham_scan_lower(pts).tolist(); r2=ch.graham_scan_upper(pts).tolist()
    except Exception as e: res[type(e).__name__]+=1; continue
    res[('lower',r1==lo)]+=1; res[('upper',r2==up)]+=1
    if r2!=up and 'u' not in ex: ex['u']=(P,r2,up)
    if r1!=lo and 'l' not in ex: ex['l']=(P,r1,lo)
print(res, ex.get('u'), ex.get('l'))
