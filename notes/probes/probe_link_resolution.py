import ast, os, sys, importlib, inspect, builtins, types
import kneeliverse
PK=os.path.dirname(kneeliverse.__file__)
sites=0; bad=[]
for fn in sorted(os.listdir(PK)):
    if not fn.endswith('.py'): continue
    modname='kneeliverse' if fn=='__init__.py' else 'kneeliverse.'+fn[:-3]
    mod=importlib.import_module(modname)
    src=open(os.path.join(PK,fn)).read(); tree=ast.parse(src)
    import symtable
    st=symtable.symtable(src,fn,'exec')
    # map function scopes
    def walk_scope(tab, node_globals):
        for s in tab.get_symbols():
            if s.is_referenced() and (s.is_global() or (tab.get_type()=='module' and not s.is_assigned() and not s.is_imported())) :
                nm=s.get_name()
                yield tab.get_name(), nm
        for c in tab.get_children(): yield from walk_scope(c,node_globals)
    for scope,nm in walk_scope(st,None):
        sites+=1
        if not hasattr(mod,nm) and not hasattr(builtins,nm): bad.append((modname,scope,'NAME',nm))
    # attribute chains rooted at module-level names bound to modules
    class V(ast.NodeVisitor):
        def __init__(s): s.func=None
        def visit_FunctionDef(s,n):
            old=s.func; s.func=n; s.locals={a.arg for a in n.args.args+n.args.kwonlyargs}|{t.id for x in ast.walk(n) for t in ([x] if isinstance(x,ast.Name) and isinstance(x.ctx,ast.Store) else [])}
            s.generic_visit(n); s.func=old
        def chain(s,n):
            parts=[]
            while isinstance(n,ast.Attribute): parts.append(n.attr); n=n.value
            if isinstance(n,ast.Name): return n.id, parts[::-1]
            return None,None
        def visit_Attribute(s,n):
            global sites
            root,parts=s.chain(n)
            if root and not (s.func and root in getattr(s,'locals',())) and hasattr(mod,root):
                obj=getattr(mod,root)
                if isinstance(obj,(types.ModuleType,type)):
                    sites+=1
                    cur=obj
                    for p in parts:
                        if not hasattr(cur,p): bad.append((modname,s.func.name if s.func else '<module>','ATTR',root+'.'+'.'.join(parts),n.lineno)); break
                        cur=getattr(cur,p)
                        if not isinstance(cur,(types.ModuleType,type)): break
            else: s.generic_visit(n)
        def visit_Call(s,n):
            global sites
            tgt=None
            if isinstance(n.func,ast.Name) and not (s.func and n.func.id in getattr(s,'locals',())) and hasattr(mod,n.func.id): tgt=getattr(mod,n.func.id)
            elif isinstance(n.func,ast.Attribute):
                root,parts=s.chain(n.func)
                if root and hasattr(mod,root) and isinstance(getattr(mod,root),types.ModuleType) and not (s.func and root in getattr(s,'locals',())):
                    cur=getattr(mod,root)
                    try:
                        for p in parts: cur=getattr(cur,p)
                        tgt=cur
                    except AttributeError: tgt=None
            if isinstance(tgt,types.FunctionType) and tgt.__module__.startswith(('kneeliverse','uts')) and not any(isinstance(a,ast.Starred) for a in n.args) and not any(k.arg is None for k in n.keywords):
                sites+=1
                try: inspect.signature(tgt).bind(*[0]*len(n.args),**{k.arg:0 for k in n.keywords})
                except TypeError as e: bad.append((modname,s.func.name if s.func else '<module>','ARITY',ast.unparse(n.func),n.lineno,str(e)))
            s.generic_visit(n)
    V().visit(tree)
print(sites)
for b in bad: print(b)
