import numpy as np, sys, collections, warnings, math
import kneeliverse.postprocessing as pp, kneeliverse.rdp as rdp
rng=np.random.default_rng(23)
res=collections.Counter(); ex={}
def runmin(p,idx):
    out=[]; h=None
    for i in idx:
        if h is None or p[i,1]<=h: out.append(i); h=p[i,1]
    return out
def model_even(p,reduced,knees,tx,ty,ext):
    n=len(p); dx=p[:,0].max()-p[:,0].min(); dy=p[:,1].max()-p[:,1].min()
    new=[]
    for i in range(1,len(reduced)):
        l,r=int(reduced[i-1]),int(reduced[i])
        w=abs(p[r,0]-p[l,0])/dx; h=abs(p[r,1]-p[l,1])/dy
        if w>2*tx and h>ty:
            N=int(math.ceil(w/(2*tx))); inc=(r-l)//N
            new+= [l+j*inc for j in range(1,N+1)]
    s=set(int(reduced[k]) for k in knees)|set(new)
    if ext: s|={0,n-1}
    return runmin(p,sorted(s))
def model_knees(p,knees,tx,ty,ext):
    n=len(p); dx=p[:,0].max()-p[:,0].min(); dy=p[:,1].max()-p[:,1].min()
    new=[]; marks=[0]+[int(k) for k in knees]+[n-1]
    for l,r in zip(marks[:-1],marks[1:]):
        w=abs(p[r,0]-p[l,0])/dx; h=abs(p[r,1]-p[l,1])/dy
        if w>2*tx and h>ty:
            N=int(math.ceil(w/(2*tx))); inc=(r-l)//N
            new+= [l+j*inc for j in range(1,N+1)]
    s=set(int(k) for k in knees)|set(new)
    if ext: s|={0,n-1}
    return runmin(p,sorted(s))
for it in range(4000):
    n=int(rng.integers(4,40))
    x=np.cumsum(rng.integers(1,5,n)).astype(float)
    y=np.sort(rng.random(n))[::-1] if rng.random()<0.6 else rng.random(n)
    p=np.column_stack((x,y))
    m=int(rng.integers(0,n-1))
    red=np.array([0]+sorted(rng.choice(np.arange(1,n-1),min(m,n-2),replace=False).tolist())+[n-1])
    rem=rdp.compute_removed_points(p,red)
    nk=int(rng.integers(0,len(red)-1)) if len(red)>2 else 0
    knees=np.sort(rng.choice(np.arange(1,len(red)-1),nk,replace=False)) if nk else np.array([],dtype=int)
    tx,ty=[float(rng.choice([0.01,0.05,0.1,0.2,0.4])) for _ in range(2)]
    for ext in (False,True):
        try:
            r=pp.add_points_even(p,red,knees,rem,tx,ty,ext); k='ok' if list(r)==model_even(p,red,knees,tx,ty,ext) else 'model-mismatch'
        except Exception as e: k=type(e).__name__+str(e)[:50]; r=None
        res[('even',ext,k)]+=1
        if k!='ok' and ('even',ext,k) not in ex: ex[('even',ext,k)]=(p.round(3).tolist(),red.tolist(),knees.tolist(),tx,ty,None if r is None else list(r), model_even(p,red,knees,tx,ty,ext))
        ok=red[knees] if nk else None
        if nk:
            try:
                r=pp.add_points_even_knees(p,ok,tx,ty,ext); k='ok' if list(r)==model_knees(p,ok,tx,ty,ext) else 'model-mismatch'
            except Exception as e: k=type(e).__name__+str(e)[:50]
            res[('knees',ext,k)]+=1
for k,v in sorted(res.items(),key=str): print(k,v,ex.get(k))
