import numpy as np, sys, collections, loopguard
import kneeliverse.rdp as rdp, kneeliverse.metrics as M, kneeliverse.linear_fit as lf, kneeliverse.evaluation as ev
rng=np.random.default_rng(int(sys.argv[1]) if len(sys.argv)>1 else 2)
def curve():
    n=rng.integers(2,16)
    kind=rng.integers(0,5)
    x=np.cumsum(rng.integers(1,5,n)).astype(float)
    if kind==0:
        y=np.empty(n); y[0]=rng.integers(0,30); m=rng.integers(-4,5)
        for i in range(1,n):
            if rng.random()<0.3: m=rng.integers(-4,5)
            y[i]=y[i-1]+m*(x[i]-x[i-1])
        y=y-min(y.min(),0)
        if rng.random()<0.3: y=y-y.min()
    elif kind==1: m=rng.integers(-9,10); y=m*x; y=y-min(y.min(),0)
    elif kind==2: y=np.maximum(0, rng.integers(1,30)-rng.integers(1,4)*x)+0.0
    elif kind==3: y=np.sort(rng.random(n))[::-1]
    else: y=rng.random(n)*10.0**rng.integers(-8,9)
    sc=10.0**rng.integers(-3,4) if rng.random()<0.3 else 1
    return np.column_stack((x*sc,y))
DF={rdp.Distance.shortest:lf.shortest_distance_points, rdp.Distance.perpendicular:lf.perpendicular_distance_points}
def accept(c,t,cost): return (c>=t) if cost is M.Metrics.r2 else (c<t)
def segcost(p,l,r,cost):
    pt=p[l:r+1]
    if len(pt)<=2: return 1.0 if cost is M.Metrics.r2 else 0.0
    return rdp.compute_cost_coef(pt,lf.linear_fit_points(pt),cost)
def tol(p,l,r): return 64*np.finfo(float).eps*max(1.0,np.abs(p[l:r+1]).max())
def explain(p,l,r,kept,t,cost,dist):
    inner=[k for k in kept if l<k<r]
    c=segcost(p,l,r,cost)
    if not inner: return accept(c,t,cost) or r-l<2
    if accept(c,t,cost): return False
    d=DF[dist](p[l:r+1],p[l],p[r]); mx=d[1:-1].max()
    for s in inner:
        if d[s-l]>=mx-tol(p,l,r) and explain(p,l,s,kept,t,cost,dist) and explain(p,s,r,kept,t,cost,dist): return True
    return False
def score(p,l,r,order,dist):
    pt=p[l:r+1]
    d=DF[dist](pt,pt[0],pt[-1])
    if order is rdp.Order.triangle: return 0.5*np.linalg.norm(pt[0]-pt[-1])*d.max()
    if order is rdp.Order.area: return d.sum()
    return lf.linear_fit_residuals_points(pt)
res=collections.Counter(); ex={}
def rec(key,e):
    res[key]+=1
    if key[-1]!='ok' and (key not in ex or len(e[0])<len(ex[key][0])): ex[key]=e
for it in range(1500):
    p=curve(); n=len(p)
    t=float(rng.choice([0.001,0.01,0.1,0.5,0.9,1.0]))
    dist=rdp.Distance.shortest if "unfixed" in sys.argv else list(rdp.Distance)[rng.integers(0,2)]
    for cost in M.Metrics:
        red,rem=rdp.rdp(p,t,dist,cost)
        rec(('C04',cost.value,'ok' if explain(p,0,n-1,list(red),t,cost,dist) else 'unexplained'),(p.tolist(),t,dist.value,red.tolist()))
    for order in rdp.Order:
        prev=None; seq={}
        for k in range(0,n+2):
            red,_=rdp.rdp_fixed(p,k,dist,order); seq[k]=red
            kk='ok'
            if len(red)!=min(max(k,2),n): kk='size'
            elif prev is not None and len(red)==len(prev)+1:
                new=set(red.tolist())-set(prev.tolist())
                if len(new)!=1 or not set(prev.tolist())<=set(red.tolist()): kk='not-nested'
                else:
                    s=new.pop(); j=np.searchsorted(prev,s); l,r=int(prev[j-1]),int(prev[j])
                    d=DF[dist](p[l:r+1],p[l],p[r])
                    if not (l<s<r): kk='not-inside'
                    elif d[s-l]<d[1:-1].max()-tol(p,l,r): kk='not-farthest'
                    else:
                        sc=[(score(p,int(a),int(b),order,dist),int(a),int(b)) for a,b in zip(prev[:-1],prev[1:]) if b-a>=2]
                        mine=score(p,l,r,order,dist); mx=max(v for v,_,_ in sc)
                        if mine<mx-1e-9*max(1.0,abs(mx)): kk='not-max-score'
            elif prev is not None and not np.array_equal(red,prev): kk='changed'
            rec(('C05',order.value,kk),(p.tolist(),k,dist.value,red.tolist(),None if prev is None else prev.tolist()))
            prev=red
        # C06
        for cost in M.Metrics:
            g,_=rdp.grdp(p,t,dist,cost,order)
            exp=None
            for k in range(2,n+1):
                c=ev.compute_global_cost(p,seq[k],cost)
                if accept(c,t,cost): exp=seq[k]; break
            if exp is None: exp=np.arange(n)
            rec(('C06',cost.value,order.value,'ok' if np.array_equal(g,exp) else 'mismatch'),(p.tolist(),t,dist.value,g.tolist(),exp.tolist()))
            mp=int(rng.integers(0,n+3))
            g2,_=rdp.mp_grdp(p,t,mp,dist,cost,order)
            e2=seq[max(len(exp),min(mp,n))] if max(len(exp),min(mp,n))>=2 else seq[2]
            rec(('C06mp',cost.value,order.value,'ok' if np.array_equal(g2,e2) else 'mismatch'),(p.tolist(),t,mp,dist.value,g2.tolist(),e2.tolist()))
for k,v in sorted(res.items(),key=str):
    if k[-1]!='ok': print(k,v,ex.get(k))
print(sum(v for k,v in res.items() if k[-1]=='ok'),'ok')
