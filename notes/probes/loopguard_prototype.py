"""Deterministic loop-iteration guard using sys.monitoring (py3.12)."""
import sys, ast, os, importlib, collections
import kneeliverse
PKG_DIR=os.path.dirname(kneeliverse.__file__)
class LoopBound(Exception): pass
_while_lines={}
for fn in os.listdir(PKG_DIR):
    if fn.endswith('.py'):
        p=os.path.join(PKG_DIR,fn)
        tree=ast.parse(open(p).read())
        _while_lines[p]={n.lineno for n in ast.walk(tree) if isinstance(n,ast.While)}
TOOL=sys.monitoring.DEBUGGER_ID
counts=collections.Counter()
limit=[10**9]
def _line(code,line):
    f=code.co_filename
    wl=_while_lines.get(f)
    if wl is None or line not in wl:
        return sys.monitoring.DISABLE
    counts[(os.path.basename(f),line)]+=1
    if counts[(os.path.basename(f),line)]>limit[0]:
        raise LoopBound(f'{os.path.basename(f)}:{line} > {limit[0]}')
def install():
    sys.monitoring.use_tool_id(TOOL,'loopguard')
    sys.monitoring.register_callback(TOOL,sys.monitoring.events.LINE,_line)
    sys.monitoring.set_events(TOOL,sys.monitoring.events.LINE)
def guarded(bound,f,*a,**k):
    counts.clear(); limit[0]=bound
    sys.monitoring.restart_events()
    try:
        return f(*a,**k)
    finally:
        limit[0]=10**9
