"""C18 - convex-hull routines return the true hull (differential against an exact brute force)."""
import itertools

import numpy as np
from hypothesis import strategies as st

from .. import lib
from ..lib import FAILED, EPS
from ..runner import Sub

ID = 'C18'
TECHNIQUE = 'differential PBT against an exact integer brute-force hull + validity predicate; long curves; atheris in thorough'
LEVEL_TEXT = 'Exploration: Exact domain: integer coordinates whose difference products stay below 2^53. Finds counter-examples (shrunk to a replay file); never proves absence.'
RULE = ('Domain A (exact): integer coordinates < 2^25, optionally x 2^k, so the float orientation '
        'predicate equals the integer one.  chain: x-sorted curves n >= 2 (random small ranges, '
        'plateaus, collinear runs, convex, concave, zig-zag) -> lower/upper chain must EQUAL the '
        'integer monotone-chain hull and satisfy the validity predicate.  planar: distinct point '
        'sets n >= 3 on grids of side 3..2^24 (general position and degenerate) -> graham_scan '
        'includes every extreme vertex, only boundary points, and equals the clockwise vertex '
        'cycle from the lowest-leftmost point in general position.  Domain B (floats): validity '
        'predicate with tolerance 64*eps*scale^2.  Non-trivial: hull with >= 3 vertices and >= 1 '
        'point that is not a vertex.  Distinct by digest of the case.')
ASSUMPTIONS = ['integer reference arithmetic is exact (Python ints)',
               'loop bound 2n+8 for the scan loops']


def cross(o, a, b):
    return (a[0] - o[0]) * (b[1] - o[1]) - (a[1] - o[1]) * (b[0] - o[0])


def chain_ref(P):
    """Lower hull chain of an x-sorted curve, exact (strictly counter-clockwise turns)."""
    h = []
    for i in range(len(P)):
        while len(h) >= 2 and cross(P[h[-2]], P[h[-1]], P[i]) <= 0:
            h.pop()
        h.append(i)
    return h


@st.composite
def chain_cases(draw, tier):
    n = draw(st.integers(2, 14 if tier == 'quick' else 60))
    fam = draw(st.sampled_from(['small', 'small', 'tiny', 'wide', 'convex', 'concave', 'zigzag', 'linear', 'big', 'counter']))
    steps = draw(st.lists(st.integers(1, 3), min_size=n, max_size=n))
    x = list(itertools.accumulate(steps))
    if fam == 'tiny':
        y = draw(st.lists(st.integers(0, 1), min_size=n, max_size=n))
    elif fam == 'small':
        y = draw(st.lists(st.integers(0, 3), min_size=n, max_size=n))
    elif fam == 'wide':
        y = draw(st.lists(st.integers(0, 30), min_size=n, max_size=n))
    elif fam == 'big':
        y = draw(st.lists(st.integers(0, 2 ** 24), min_size=n, max_size=n))
        fx = draw(st.sampled_from([1, 1000, 2 ** 20]))
        x = [v * fx for v in x]
    elif fam == 'convex':
        c = draw(st.integers(0, n))
        y = [(i - c) ** 2 for i in range(n)]
    elif fam == 'concave':
        c = draw(st.integers(0, n))
        y = [n * n - (i - c) ** 2 for i in range(n)]
    elif fam == 'zigzag':
        a = draw(st.integers(1, 5))
        y = [a * (i % 2) + draw(st.integers(0, 1)) for i in range(n)]
    elif fam == 'counter':
        # time stamps with a steep, nearly linear cumulative counter: every coordinate is an integer
        # below 2^53 and every *difference* product is below 2^53, so the predicate written with
        # differences first is exact, while |x|*|dy| is far above 2^53
        x0 = draw(st.sampled_from([1700000000000, 1700000000, 4000000000000]))
        x = [x0 + v for v in x]
        rate = draw(st.integers(100000, 130000))
        y = [0]
        for i in range(1, n):
            rate += draw(st.integers(-40, 40))
            y.append(y[-1] + rate * (x[i] - x[i - 1]))
    else:
        m = draw(st.integers(-3, 3))
        y = [m * v + 50 for v in x]
    k = draw(st.sampled_from([0, 0, -10, -3, 4, 10, -25, -30])) if fam != 'counter' else 0    # powers of two: still exact
    P = [[a, b] for a, b in zip(x, y)]
    if draw(st.integers(0, 7)) == 0:      # an exactly repeated consecutive sample
        j = draw(st.integers(0, n - 1))
        P.insert(j, list(P[j]))
        fam += '+dup'
    return {'kind': 'chain', 'family': fam, 'P': P, 'k': k}


def oracle_chain(case, rec):
    L = lib.lib()
    P = [tuple(p) for p in case['P']]
    n = len(P)
    pts = np.array(P, dtype=float) * (2.0 ** case['k'])
    pts.setflags(write=False)            # like a memory-mapped trace
    rec.tag('chain:' + case['family'])
    for name, f, Q in (('lower', L.convex_hull.graham_scan_lower, P),
                       ('upper', L.convex_hull.graham_scan_upper, [(a, -b) for a, b in P])):
        out = rec.call(2 * n + 8, f, pts, _site='convex_hull.graham_scan_' + name)
        if out is FAILED:
            continue
        out = np.asarray(out)
        if not rec.check(out.ndim == 1 and out.dtype.kind in 'iu' and len(out) >= 2, name + ':shape', repr(out)):
            continue
        h = [int(v) for v in out]
        ref = chain_ref(Q)
        ok = rec.check(h[0] == 0 and h[-1] == n - 1 and all(a < b for a, b in zip(h, h[1:])),
                       name + ':not-a-chain-0..n-1', (h, P))
        if ok:
            # validity predicate, independent of the reference chain
            turns = all(cross(Q[a], Q[b], Q[c]) > 0 for a, b, c in zip(h, h[1:], h[2:]))
            above = all(cross(Q[a], Q[b], Q[i]) >= 0 for a, b in zip(h, h[1:]) for i in range(a, b + 1))
            rec.check(turns, name + ':not-strictly-turning', (h, P))
            rec.check(above, name + ':point-outside-chain', (h, P))
        rec.check(h == ref, name + ':differs-from-bruteforce', 'got %r want %r P=%r' % (h, ref, P))
        if len(ref) >= 3 and len(ref) < n:
            rec.nontrivial = True


@st.composite
def float_chain_cases(draw, tier):
    from .. import strategies as S
    c = draw(S.curves(2, 30 if tier == 'quick' else 120))
    return {'kind': 'fchain', 'family': c['family'], 'pts': c['pts']}


def oracle_float_chain(case, rec):
    L = lib.lib()
    pts = lib.pts_of(case)
    n = len(pts)
    rec.tag('fchain:' + case['family'])
    sx = float(np.max(np.abs(pts[:, 0]))) or 1.0
    sy = float(np.max(np.abs(pts[:, 1]))) or 1.0
    tol = 64 * EPS * sx * sy
    for name, f, sign in (('lower', L.convex_hull.graham_scan_lower, 1.0),
                          ('upper', L.convex_hull.graham_scan_upper, -1.0)):
        out = rec.call(2 * n + 8, f, pts, _site='convex_hull.graham_scan_' + name)
        if out is FAILED:
            continue
        h = [int(v) for v in np.asarray(out)]
        ok = rec.check(len(h) >= 2 and h[0] == 0 and h[-1] == n - 1 and all(a < b for a, b in zip(h, h[1:])),
                       name + ':float:not-a-chain-0..n-1', (h, n))
        if ok:
            Q = pts * np.array([1.0, sign])
            bad = [(a, b, i) for a, b in zip(h, h[1:]) for i in range(a, b + 1)
                   if cross(Q[a], Q[b], Q[i]) < -tol]
            rec.check(not bad, name + ':float:point-outside-chain', (bad[:3], h))
            if 3 <= len(h) < n:
                rec.nontrivial = True


# ------------------------------------------------------------------ planar sets
def brute_hull(P):
    """(vertex cycle counter-clockwise starting at min(P), vertex set, boundary set) - exact."""
    n = len(P)
    idx = sorted(range(n), key=lambda i: P[i])

    def half(ids):
        h = []
        for i in ids:
            while len(h) >= 2 and cross(P[h[-2]], P[h[-1]], P[i]) <= 0:
                h.pop()
            h.append(i)
        return h
    lo = half(idx)
    up = half(idx[::-1])
    verts = lo[:-1] + up[:-1]
    B = set()
    if len(verts) <= 2:
        B = set(range(n))          # fully collinear: every point is on the (degenerate) boundary
    else:
        m = len(verts)
        for k in range(m):
            a, b = P[verts[k]], P[verts[(k + 1) % m]]
            for i, p in enumerate(P):
                if cross(a, b, p) == 0 and min(a[0], b[0]) <= p[0] <= max(a[0], b[0]) \
                        and min(a[1], b[1]) <= p[1] <= max(a[1], b[1]):
                    B.add(i)
    return verts, set(verts), B


@st.composite
def planar_cases(draw, tier):
    g = draw(st.sampled_from([3, 3, 5, 5, 20, 1000, 2 ** 24]))
    n = draw(st.integers(3, min(g * g, 12 if tier == 'quick' else 40)))
    mode = draw(st.sampled_from(['free', 'free', 'free', 'line', 'line+1', 'steep']))
    if mode == 'steep':     # nearly parallel, very steep directions from the pivot (angles closer than an ulp)
        s0 = draw(st.sampled_from([10 ** 9, 10 ** 8, 3 * 10 ** 9]))
        xs_ = draw(st.lists(st.integers(0, 8), min_size=n, max_size=n, unique=True)) if n <= 9 else list(range(n))
        P = [(xv, s0 * xv + draw(st.integers(0, 6))) for xv in xs_]
        P[draw(st.integers(0, len(P) - 1))] = (max(xs_) + draw(st.integers(1, 5)), 0)
        P = list(dict.fromkeys(P))
        if len(P) < 3:
            P = [(0, 0), (1, s0), (5, 0)]
    elif mode == 'free':
        P = draw(st.lists(st.tuples(st.integers(0, g - 1), st.integers(0, g - 1)), min_size=n, max_size=n, unique=True))
    else:
        dx, dy = draw(st.sampled_from([(1, 0), (0, 1), (1, 1), (2, 1), (1, -1), (3, 2)]))
        ts = draw(st.lists(st.integers(0, max(30, 3 * n)), min_size=n, max_size=n, unique=True))
        P = [(100 + t * dx, 100 + t * dy) for t in ts]
        if mode == 'line+1':
            off = draw(st.tuples(st.integers(0, 200), st.integers(0, 200)))
            if off not in P:
                P[draw(st.integers(0, n - 1))] = off
    k = draw(st.sampled_from([0, 0, -10, 4, -25, -30]))
    off = draw(st.sampled_from([0, 0, 0, 3000000, 1700000000]))     # byte counts / time stamps: large offset, unit spacing
    if off and g <= 1000:
        P = [(a + off, b + off // 3) for a, b in P]
        k = 0
        mode += '+offset'
    return {'kind': 'planar', 'mode': mode, 'g': g, 'P': [list(p) for p in P], 'k': k}


def oracle_planar(case, rec):
    L = lib.lib()
    P = [tuple(p) for p in case['P']]
    n = len(P)
    pts = np.array(P, dtype=float) * (2.0 ** case['k'])
    pts.setflags(write=False)
    out = rec.call(4 * n + 8, L.convex_hull.graham_scan, pts, _site='convex_hull.graham_scan')
    verts, V, B = brute_hull(P)
    general = all(cross(P[i], P[j], P[k]) != 0 for i, j, k in itertools.combinations(range(n), 3))
    rec.tag('planar:general' if general else 'planar:degenerate', 'planar:mode=' + case['mode'])
    rec.nontrivial = len(V) >= 3 and len(V) < n
    if out is FAILED:
        return
    out = np.asarray(out)
    if not rec.check(out.ndim == 1 and (out.size == 0 or out.dtype.kind in 'iu'), 'graham:shape', repr(out)):
        return
    r = [int(v) for v in out]
    if not rec.check(all(0 <= v < n for v in r), 'graham:index-out-of-range', (r, n)):
        return
    rec.check(V <= set(r), 'graham:missing-extreme-vertex', 'got %r vertices %r P=%r' % (r, sorted(V), P))
    rec.check(set(r) <= B, 'graham:non-boundary-point', 'got %r boundary %r P=%r' % (r, sorted(B), P))
    if general:
        p0 = min(range(n), key=lambda i: P[i])
        s = verts.index(p0)
        ccw = verts[s:] + verts[:s]
        cw = [ccw[0]] + ccw[1:][::-1]
        rec.check(r == cw, 'graham:not-clockwise-vertex-cycle', 'got %r want %r P=%r' % (r, cw, P))


def examples_planar(tier):
    return [{'kind': 'planar', 'mode': 'free', 'g': 5, 'k': 0,
             'P': [[0, 0], [1, 1], [2, 2], [4, 4], [4, 1]]},
            {'kind': 'planar', 'mode': 'line', 'g': 5, 'k': 0, 'P': [[0, 0], [1, 1], [2, 2], [3, 3]]},
            {'kind': 'planar', 'mode': 'free', 'g': 5, 'k': 0,   # the repository's own test set
             'P': [[0, 3], [1, 1], [2, 2], [4, 4], [0, 0], [1, 2], [3, 1], [3, 3]]}]


@st.composite
def long_chain_cases(draw, tier):
    """More than 1000 points (vectorised pre-filters / fast paths for large curves)."""
    n = draw(st.integers(1001, 2500 if tier == 'quick' else 8000))
    spacing = draw(st.sampled_from(['unit', 'bursty', 'bursty', 'random']))
    shape = draw(st.sampled_from(['convex', 'convex-dec', 'noisy-convex', 'random']))
    xs, x = [], 0
    for i in range(n):
        if spacing == 'unit':
            x += 1
        elif spacing == 'random':
            x += 1 + (i * 7919 % 5)
        else:
            x += 1 if (i // 37) % 3 else 40 + (i % 11)
        xs.append(x)
    c = draw(st.integers(0, n))
    a = draw(st.sampled_from([1, 3, 10]))
    if shape == 'convex':
        ys = [a * (i - c) * (i - c) for i in range(n)]
    elif shape == 'convex-dec':
        ys = [(10 ** 9) // (xx + 50) for xx in xs]
    elif shape == 'noisy-convex':
        ys = [a * (i - c) * (i - c) + (i * 2654435761 % 97) for i in range(n)]
    else:
        ys = [(i * 2654435761) % 1000 for i in range(n)]
    P = [[u, v] for u, v in zip(xs, ys)]
    dup = draw(st.sampled_from([0, 0, 97, 1000]))
    if dup:          # a sample logged twice in a row: still x-sorted, the copy lies on the chain
        P = [q for i, q in enumerate(P) for _ in range(2 if i % dup == dup // 2 else 1)]
    return {'kind': 'chain', 'family': 'long:%s/%s%s' % (spacing, shape, '/dup' if dup else ''), 'P': P, 'k': 0}


SUBS = [
    Sub('long_chain', oracle_chain, strategy=long_chain_cases, budget={'quick': 64, 'thorough': 640}),
    Sub('chain', oracle_chain, strategy=chain_cases, budget={'quick': 8000, 'thorough': 160000}, fuzz={'thorough': 20000}),
    Sub('fchain', oracle_float_chain, strategy=float_chain_cases, budget={'quick': 3200, 'thorough': 48000}),
    Sub('planar', oracle_planar, strategy=planar_cases, budget={'quick': 8000, 'thorough': 160000},
        examples=examples_planar, fuzz={'thorough': 20000}),
]
