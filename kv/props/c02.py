"""C02 - recursive multi-knee detection terminates, is well-formed and self-similar."""
import numpy as np
from hypothesis import strategies as st

from .. import lib, strategies as S
from ..lib import FAILED
from ..runner import Sub

ID = 'C02'
TECHNIQUE = 'PBT + metamorphic self-similarity relation MK(p) = {k} U MK(left) U MK(right) + gate predicate + loop guard'
LEVEL_TEXT = "Exploration: Root-level decomposition and gate on generated curves (n <= 1200 in quick); which knee is right is C03/C09's subject. Finds counter-examples (shrunk to a replay file); never proves absence."
RULE = ('Cases = (valid curve n in 2..60|300, detector in {curvature, dfdt, menger, lmethod, kneedle}, t1 in {0} '
        'or a SMAPE value that occurs on a sub-range of this curve (boundary) or a standard value, t2 in '
        '[detector minimum, +6]).  Oracle: terminates within 4n+16 loop tests; strictly increasing integer '
        'indices in [0, n-2] (>= 1 unless Menger); gate: empty iff n <= t2 or endpoint-line SMAPE (library '
        'primitive, bit-identical) < t1 or the detector reports no knee; otherwise metamorphic decomposition '
        'MK(p) == sorted({k} + MK(p[:k+1]) + (k+1 + MK(p[k+1:]))) with k = detector.knee(p), every side '
        'obtained from the public multi_knee / knee.  Non-trivial: >= 2 knees returned.')
ASSUMPTIONS = ['which knee is right is C03/C09; here only the recursive structure is checked']

DETECTORS = {'curvature': 3, 'dfdt': 3, 'menger': 4, 'lmethod': 4, 'kneedle': 3}


@st.composite
def cases(draw, tier):
    c = draw(S.curves(2, 60 if tier == 'quick' else 300, big_n=160 if tier == 'quick' else 600))
    if draw(st.integers(0, 5)) == 0:
        # small-valued integer curves (counters, percentages): also handed over as an int64 array below
        n = draw(st.integers(2, 40))
        x = draw(S.xs(n, integer=True))
        ys = draw(st.lists(st.integers(0, draw(st.sampled_from([12, 30, 100]))), min_size=n, max_size=n))
        if draw(st.booleans()):
            ys = sorted(ys, reverse=True)
        c = {'family': 'small-int', 'pts': [[float(a), float(b)] for a, b in zip(x, ys)]}
    det = draw(st.sampled_from(sorted(DETECTORS)))
    mode = draw(st.sampled_from(['zero', 'occurring', 'occurring', 'std']))
    if mode == 'zero':
        t1 = 0.0
    elif mode == 'std':
        t1 = draw(st.sampled_from([0.001, 0.01, 0.05, 0.2]))
    else:
        t1 = draw(S.thresholds(c['pts'], 'smape'))
    return {'family': c['family'], 'pts': c['pts'], 'detector': det, 't1': t1,
            't2': DETECTORS[det] + draw(st.integers(0, 6)), 'int_points': draw(st.booleans())}


def oracle(case, rec):
    L = lib.lib()
    pf = lib.pts_of(case)
    p = pf
    if case.get('int_points') and np.all(pf == np.floor(pf)) and float(np.max(np.abs(pf))) < 2 ** 30:
        p = pf.astype(np.int64)          # an integer-typed curve is the same curve (gate values from the float one)
        rec.tag('points:int64')
    n = len(p)
    det = case['detector']
    mod = getattr(L, det)
    t1, t2 = case['t1'], case['t2']
    bound = 4 * n + 16
    rec.tag('family:' + case['family'], 'detector:' + det)

    def mk(arr):
        out = rec.call(bound, mod.multi_knee, arr, t1, t2, _site=det + '.multi_knee')
        if out is FAILED:
            return None
        a = np.asarray(out)
        if not rec.check(a.ndim == 1 and (a.size == 0 or np.all(a == np.floor(a))), 'multi_knee:not-an-index-vector', repr(a)[:100]):
            return None
        return [int(v) for v in a]

    res = mk(p)
    if res is None:
        return
    ok = rec.check(all(a < b for a, b in zip(res, res[1:])), 'multi_knee:not-strictly-increasing', res)
    lo = 0 if det == 'menger' else 1
    ok &= rec.check(all(lo <= k <= n - 2 for k in res), 'multi_knee:index-out-of-range', 'n=%d detector=%s result=%r' % (n, det, res))
    if not ok:
        return
    # gate
    gate_size = n <= t2
    if n > 2:
        with np.errstate(all='ignore'):
            sm = float(L.lf.smape_points(pf, L.lf.linear_fit_points(pf)))
    else:
        sm = None
    straight = sm is not None and sm < t1
    if sm is not None and sm == t1:
        rec.tag('t1-equals-smape')
    if gate_size or straight:
        rec.check(res == [], 'multi_knee:gate-not-respected',
                  'n=%d t2=%d smape=%r t1=%r but result %r' % (n, t2, sm, t1, res))
        rec.tag('gate:closed')
        return
    if n <= 2:
        return
    k = rec.call(bound, mod.knee, p, _site=det + '.knee')
    if k is FAILED:
        return
    if k is None:
        rec.check(res == [], 'multi_knee:knees-without-a-root-knee', res)
        rec.tag('root:none')
        return
    k = int(k)
    if not rec.check(lo <= k <= n - 2, 'knee:root-knee-out-of-range', (k, n)):
        return
    left = mk(p[:k + 1])
    right = mk(p[k + 1:])
    if left is None or right is None:
        return
    want = sorted([k] + left + [k + 1 + v for v in right])
    rec.check(res == want, 'multi_knee:not-self-similar',
              'MK(p)=%r but k=%d, MK(left)=%r, MK(right)=%r -> %r (detector %s t1=%r t2=%d n=%d)' % (res, k, left, right, want, det, t1, t2, n))
    # the same relation unfolded at EVERY depth: a reference recursion written from the statement,
    # using only the detector's single-knee answer and the endpoint-line SMAPE of each range
    if n <= 400:
        ref, work, failed = [], [(0, n)], False
        while work and not failed:
            l, r = work.pop()
            seg = p[l:r]
            if len(seg) <= t2 or len(seg) <= 2:
                continue
            with np.errstate(all='ignore'):
                segf = pf[l:r]
                if float(L.lf.smape_points(segf, L.lf.linear_fit_points(segf))) < t1:
                    continue
            kk = rec.call(bound, mod.knee, seg, _site=det + '.knee')
            if kk is FAILED:
                failed = True
            elif kk is not None:
                kk = int(kk)
                if not (lo <= kk <= len(seg) - 2):
                    rec.fail('knee:out-of-range-on-a-sub-range', (kk, len(seg)))
                    failed = True
                else:
                    ref.append(l + kk)
                    work.append((l, l + kk + 1))
                    work.append((l + kk + 1, r))
        if not failed:
            rec.check(res == sorted(ref), 'multi_knee:differs-from-recursive-reference',
                      'MK(p)=%r reference=%r (detector %s t1=%r t2=%d n=%d)' % (res[:30], sorted(ref)[:30], det, t1, t2, n))
    rec.nontrivial = len(res) >= 2
    rec.tag('knees:%s' % ('1' if len(res) == 1 else '2-4' if len(res) <= 4 else '5+'))


def examples(tier):
    pts = [[float(i + 1), 1.0 / (i + 1)] for i in range(10)]
    return [{'family': 'repo', 'pts': pts, 'detector': d, 't1': 0.001, 't2': DETECTORS[d]} for d in sorted(DETECTORS)]


@st.composite
def long_cases(draw, tier):
    """Long curves / long sub-ranges (sampling or chunking fast paths only show above ~500 points).
    The O(n^2)-per-knee L-method is left to the ordinary sub-check."""
    n = draw(st.integers(513, 1200 if tier == 'quick' else 3000))
    kind = draw(st.sampled_from(['sawtooth', 'spikes', 'knee+ripple', 'smooth', 'steps']))
    x = [float(i) for i in range(n)]
    if kind == 'sawtooth':
        period = draw(st.sampled_from([2, 3, 4, 5, 7]))
        amp = draw(st.sampled_from([0.05, 0.2, 1.0]))
        y = [1.0 + amp * ((i % period) / period) for i in range(n)]
    elif kind == 'spikes':
        y = [1.0] * n
        for _ in range(draw(st.integers(1, 9))):
            y[draw(st.integers(1, n - 2))] = draw(st.sampled_from([1.5, 3.0, 0.2]))
    elif kind == 'knee+ripple':
        kpos = draw(st.integers(10, n // 3))
        y = [10.0 - 9.0 * i / kpos if i < kpos else 1.0 + 0.01 * (i % 2) for i in range(n)]
    elif kind == 'steps':
        levels = draw(st.integers(3, 12))
        y = [float(levels - (i * levels) // n) for i in range(n)]
    else:
        a = draw(st.sampled_from([5.0, 40.0, 200.0]))
        y = [a / (i + a) for i in range(n)]
    return {'family': 'long:' + kind, 'pts': [[a, b] for a, b in zip(x, y)],
            'detector': draw(st.sampled_from(['curvature', 'dfdt', 'menger', 'kneedle'])),
            't1': draw(st.sampled_from([0.0, 0.001, 0.005, 0.01, 0.05])), 't2': draw(st.sampled_from([3, 4, 8]))  + 1}


def deep_cases(tier):
    """Smooth convex knee curves on which curvature / Menger put each tail's knee at its start: the
    decomposition is a chain ~0.46 n deep.  Enumerated (not Hypothesis-driven) so that the
    interpreter's default recursion limit applies, as in user code."""
    for det in ('curvature', 'menger'):
        for n in ((2400, 3000) if tier == 'quick' else (2400, 3000, 5000)):
            for kind in ('hyperbola', 'exp'):
                yield {'family': 'deep:' + kind, 'n': n, 'kindc': kind, 'detector': det, 't1': 0.001, 't2': DETECTORS[det]}


def oracle_deep(case, rec):
    n = case['n']
    x = np.arange(1, n + 1, dtype=float)
    y = 1.0 / x if case['kindc'] == 'hyperbola' else np.exp(-x / (n / 8.0))
    full = dict(case)
    full['pts'] = np.column_stack((x, y)).tolist()
    oracle(full, rec)


SUBS = [Sub('deep', oracle_deep, enumerate=deep_cases, shards=8),
        Sub('multi_knee', oracle, strategy=cases, budget={'quick': 6400, 'thorough': 96000}, examples=examples),
        Sub('long', oracle, strategy=long_cases, budget={'quick': 320, 'thorough': 3200})]
