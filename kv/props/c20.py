"""C20 - public functions are pure, deterministic, layout-independent and fully linked.

(a) dynamic: a call table over the public functions x generated scenarios x {C, F, strided view,
    int64} representations: arguments unchanged, repeated call identical, representations agree.
(b) linkage: the finite domain "every reference site in the package" is enumerated completely
    from the AST/symtable of the current tree and each site is resolved against the live module
    objects (names, attribute chains, intra-package / uts call signatures, local imports).
"""
import ast
import builtins
import copy
import importlib
import importlib.util
import inspect
import math
import os
import symtable
import types

import numpy as np
from hypothesis import strategies as st

from .. import lib, strategies as S
from .. import lib as _lib  # noqa: F401
from ..lib import FAILED
from ..runner import Sub

ID = 'C20'
WARM_EXTRA = True
TECHNIQUE = 'call-table PBT (purity, determinism, layouts, dtypes, aliasing, fresh-process-state differential) + exhaustive enumeration of every reference site (names, attributes, arities)'
LEVEL_TEXT = 'Exploration: All 115 public functions have a call-table entry; ~1 980 reference sites resolved against live module objects; aliases are covered dynamically only. Finds counter-examples (shrunk to a replay file); never proves absence.'
RULE = ('dynamic: case = (public function from the call table, scenario = generated curve n >= 8 with knees, '
        'reduction, expected points, thresholds).  Each case calls the function on deep-copied C-ordered '
        'float64 arguments, checks the arguments are unchanged, calls again (identical result), then with '
        'Fortran-ordered, strided-view and (if all values are integral) int64 representations; index-valued '
        'and structural results must be identical, float-valued results equal to 1e-12 relative.  '
        'Non-trivial: the call returned a non-empty result on >= 8 points.  small: the same oracle on 2..7-point '
        'curves with the smallest option values (limit 3.., t2 2..; only linkage errors incl. UnboundLocalError, '
        'impurity, nondeterminism and representation dependence count; rejecting a short curve with another '
        'exception is tolerated).  linkage: every global-name '
        'load, every attribute chain rooted at a module or class object, every call whose target resolves '
        'to a Python function of kneeliverse or uts (arity via inspect.signature.bind) and every '
        'function-local import, enumerated exhaustively; non-trivial = site that resolves into another '
        'module.  Distinct by (function, scenario digest) resp. by site.')
ASSUMPTIONS = ['float-valued results of different memory layouts may differ in the last bits (BLAS/SIMD paths); '
               'tolerance 1e-12 relative + 1e-13 x the largest argument magnitude (results that are small by cancellation)', 'calls through local aliases are covered only dynamically',
               'rdp.plot_frame (file/GUI side effects) and the legacy evaluation.compute_global_segment_cost '
               '(known finding) are excluded from the dynamic table']

EXCLUDED_DYNAMIC = {'rdp.plot_frame': 'writes image files / needs ./img', 'evaluation.compute_global_segment_cost':
                    'known finding D13 (static label link:ARITY)', 'multi_knee.multi_knee': 'covered through every detector.multi_knee'}


# =========================================================================== (a) dynamic half
class Scn:
    pass


def build_scenario(case, variant):
    """Materialise the scenario of a case in one array representation."""
    L = lib.lib()
    base = np.array(case['pts'], dtype=float)
    bigint = bool(case.get('bigint'))
    if bigint:
        base = base * float(2 ** 31)       # same shape, integral, exactly representable, products > 2^63
    n = len(base)

    def rep(a, integral_ok=True):
        a = np.array(a, dtype=float)
        if variant == 'C':
            return np.ascontiguousarray(a.copy())
        if variant == 'F':
            return np.asfortranarray(a.copy())
        if variant == 'view':
            if a.ndim == 2:
                big = np.full((a.shape[0] * 2 + 1, a.shape[1] + 2), 7.25)
                big[1::2, 1:-1][:a.shape[0]] = a
                return big[1::2, 1:-1][:a.shape[0]]
            big = np.full(a.shape[0] * 3 + 2, 7.25)
            big[1::3][:a.shape[0]] = a
            return big[1::3][:a.shape[0]]
        if variant == 'int64':   # only value arrays whose entries are all integral have an int64 twin
            # ... and only below 2^30: products of larger integers overflow int64 silently inside
            # NumPy (observed in knee_ranking.distances / rect_overlap on the pinned tree; see DESIGN 9.2)
            ok = np.all(a == np.floor(a)) and (a.size == 0 or float(np.max(np.abs(a))) < 2 ** 30 or bigint)
            return a.astype(np.int64) if ok else np.ascontiguousarray(a.copy())
        raise ValueError(variant)
    s = Scn()
    s.n = n
    s.small = bool(case.get('small'))
    s.P = rep(base)
    s.x = s.P[:, 0]
    s.y = s.P[:, 1]
    s.coef = tuple(float(v) for v in L.lf.linear_fit_points(base))
    ck = case.get('opt', {}).get('coef_kind', 'float')
    if ck == 'int_slope':          # a coefficient pair may mix Python ints and floats
        s.coef = (s.coef[0] + 0.5, int(round(s.coef[1])) or 1)
    elif ck == 'int_both':
        s.coef = (int(round(s.coef[0])), int(round(s.coef[1])) or 1)
    s.coef2 = (s.coef[0] + 1.0, s.coef[1] * 0.5 + 0.25)
    s.knees = np.array(case['knees'], dtype=int)
    s.reduced = np.array(case['reduced'], dtype=int)
    s.removed = np.array([[a, b - a - 1] for a, b in zip(case['reduced'], case['reduced'][1:])], dtype=int)
    s.kpos = np.array(case['kpos'], dtype=int)
    s.expected = rep(np.array(case['expected'], dtype=float))
    s.cm = np.array(case['cm'], dtype=int)
    s.t = case['t']
    s.yhat = rep(base[:, 0] * s.coef[1] + s.coef[0] + np.array(case['noise'], dtype=float))
    s.yv = rep(base[:, 1])
    s.rect = [rep(np.array(v, dtype=float)) for v in case['rect']]
    s.tri = rep(np.array(case['tri'], dtype=float))
    s.values = rep(np.array(case['values'], dtype=float))
    s.ts = list(case['ts'])
    s.i = case['i']
    s.L = L
    return s


def _table():
    """'module.function' -> lambda scenario: (args tuple).  Enums/flags are drawn into the case
    through s.opt (a dict)."""
    T = {}
    M = lambda s: getattr(s.L.metrics.Metrics, s.opt['metric'])
    R2 = lambda s: getattr(s.L.metrics.R2, s.opt['r2'])
    D = lambda s: getattr(s.L.rdp.Distance, s.opt['distance'])
    O = lambda s: getattr(s.L.rdp.Order, s.opt['order'])
    CL = lambda s: getattr(s.L.clustering, s.opt['linkage'])
    CR = lambda s: getattr(s.L.knee_ranking.ClusterRanking, s.opt['ranking'])
    ST = lambda s: getattr(s.L.evaluation.Strategy, s.opt['strategy'])
    for f in ('single_linkage', 'complete_linkage', 'centroid_linkage', 'average_linkage'):
        T['clustering.' + f] = lambda s: (s.P, s.t)
    for f in ('graham_scan', 'graham_scan_lower', 'graham_scan_upper'):
        T['convex_hull.' + f] = lambda s: (s.P,)
    for m in ('curvature', 'dfdt', 'menger'):
        T[m + '.knee'] = lambda s: (s.P,)
        T[m + '.multi_knee'] = lambda s: (s.P, s.t * 0.1, (2 + s.i % 4) if s.small else 4)
    T['dfdt.get_knee'] = lambda s: (s.x, s.y)
    T['dfdt.get_knee_gradient'] = lambda s: (s.yv,)
    ev = 'evaluation.'
    T[ev + 'get_neighbourhood_points'] = lambda s: (s.P, s.n - 2, 1, 0.9)
    T[ev + 'get_neighbourhood_fast_points'] = lambda s: (s.P, s.n - 2, 1, 0.9)
    T[ev + 'get_neighbourhood_binary'] = lambda s: (s.x, s.y, s.n - 2, 1, 0.9)
    T[ev + 'get_neighbourhood_fast'] = lambda s: (s.x, s.y, s.n - 2, 1, 0.9)
    T[ev + 'get_neighbourhood'] = lambda s: (s.x, s.y, s.n - 2, 1, 0.9)
    T[ev + 'accuracy_knee'] = lambda s: (s.P, s.knees, 0.9)
    T[ev + 'accuracy_trace'] = lambda s: (s.P, s.knees)
    for f in ('mae', 'mse', 'rmse'):
        T[ev + f] = lambda s: (s.P, s.knees, s.expected, ST(s))
    T[ev + 'rmspe'] = lambda s: (s.P, s.knees, s.expected, ST(s))
    T[ev + 'cm'] = lambda s: (s.P, s.knees, s.expected, s.t)
    for f in ('accuracy', 'f1score', 'mcc'):
        T[ev + f] = lambda s: (s.cm,)
    T[ev + 'compute_global_rmse'] = lambda s: (s.P, s.reduced)
    T[ev + 'mip'] = lambda s: (s.P, s.reduced)
    T[ev + 'compute_cost'] = lambda s: (s.P, np.abs(s.values[:3]), M(s), {})
    T[ev + 'compute_partial_cost'] = lambda s: (s.yv, s.yhat, M(s))
    T[ev + 'compute_global_cost'] = lambda s: (s.P, s.reduced, M(s))
    kr = 'knee_ranking.'
    T[kr + 'distances'] = lambda s: (s.tri[0], s.P)
    T[kr + 'rect_overlap'] = lambda s: tuple(s.rect)
    T[kr + 'rect'] = lambda s: (s.tri[0], s.tri[1])
    T[kr + 'distance_to_similarity'] = lambda s: (s.values,)
    T[kr + 'rank'] = lambda s: (s.values,)
    T[kr + 'slope_ranking'] = lambda s: (s.P, s.knees, 0.8)
    T[kr + 'smooth_ranking'] = lambda s: (s.P, s.knees, CR(s) if s.opt['ranking'] != 'hull' else s.L.knee_ranking.ClusterRanking.linear)
    kn = 'kneedle.'
    T[kn + 'differences'] = lambda s: (s.P, getattr(s.L.kneedle.Direction, s.opt['cd']), getattr(s.L.kneedle.Concavity, s.opt['cc']))
    T[kn + 'knees'] = lambda s: (s.P, s.opt['tau'], 1.0, getattr(s.L.kneedle.PeakDetection, s.opt['peak']))
    T[kn + 'knee'] = lambda s: (s.P, s.opt['tau'])
    T[kn + 'multi_knee'] = lambda s: (s.P, s.t * 0.1, (2 + s.i % 4) if s.small else 4)
    lf = 'linear_fit.'
    for f in ('linear_fit_points', 'linear_hv_residuals_points', 'linear_fit_residuals_points', 'perpendicular_distance'):
        T[lf + f] = lambda s: (s.P,)
    for f in ('linear_fit', 'linear_hv_residuals', 'linear_fit_residuals'):
        T[lf + f] = lambda s: (s.x, s.y)
    T[lf + 'linear_transform_points'] = lambda s: (s.P, s.coef)
    T[lf + 'linear_transform'] = lambda s: (s.x, s.coef)
    T[lf + 'linear_fit_transform_points'] = lambda s: (s.P, s.opt['flag'])
    T[lf + 'linear_fit_transform'] = lambda s: (s.x, s.y, s.opt['flag'])
    T[lf + 'linear_r2_points'] = lambda s: (s.P, s.coef, R2(s))
    T[lf + 'linear_r2'] = lambda s: (s.x, s.y, s.coef, R2(s))
    for f in ('rmspe', 'rmsle', 'smape', 'rpd', 'rmse', 'linear_residuals'):
        T[lf + f + '_points'] = lambda s: (s.P, s.coef)
        T[lf + f] = lambda s: (s.x, s.y, s.coef)
    T[lf + 'r2_points'] = lambda s: (s.P, R2(s))
    T[lf + 'r2'] = lambda s: (s.x, s.y, R2(s))
    T[lf + 'angle'] = lambda s: (s.coef, s.coef2)
    T[lf + 'cross2d'] = lambda s: (s.P, s.expected[0])
    T[lf + 'shortest_distance_points'] = lambda s: (s.P, s.P[0], s.P[-1])
    T[lf + 'perpendicular_distance_points'] = lambda s: (s.P, s.P[0], s.P[-1])
    T[lf + 'perpendicular_distance_index'] = lambda s: (s.P, 1, s.n - 2)
    lm = 'lmethod.'
    FIT = lambda s: getattr(s.L.lmethod.Fit, s.opt['fit'])
    T[lm + 'compute_error'] = lambda s: (s.x, s.y, 2 + s.i % (s.n - 4), float(s.x[-1] - s.x[0]), FIT(s), getattr(s.L.lmethod.Cost, s.opt['lcost']))
    T[lm + 'get_knee'] = lambda s: (s.x, s.y, FIT(s), getattr(s.L.lmethod.Cost, s.opt['lcost']))
    T[lm + 'knee'] = lambda s: (s.P, FIT(s), getattr(s.L.lmethod.Refinement, s.opt['ref']), (3 + s.i % 4) if s.small else (4 + s.i % 8))
    T[lm + 'multi_knee'] = lambda s: (s.P, s.t * 0.1, (3 + s.i % 3) if s.small else 5)
    T['menger.menger_curvature'] = lambda s: (s.tri[0], s.tri[1], s.tri[2])
    for f in ('rmse', 'rmsle', 'rmspe', 'rpd', 'residuals', 'smape'):
        T['metrics.' + f] = lambda s: (s.yv, s.yhat)
    T['metrics.r2'] = lambda s: (s.yv, s.yhat, R2(s))
    pp = 'postprocessing.'
    T[pp + 'filter_corner_knees'] = lambda s: (s.P, s.knees, s.t)
    T[pp + 'select_corner_knees'] = lambda s: (s.P, s.knees, s.t)
    T[pp + 'filter_worst_knees'] = lambda s: (s.P, s.knees)
    T[pp + 'filter_clusters'] = lambda s: (s.P, s.knees, CL(s), s.t, CR(s))
    T[pp + 'filter_clusters_corners'] = lambda s: (s.P, s.knees, CL(s), s.t)
    T[pp + 'add_points_even'] = lambda s: (s.P, s.reduced, s.kpos, s.removed, 0.05, 0.05, s.opt['flag'])
    T[pp + 'add_points_even_knees'] = lambda s: (s.P, s.knees, 0.05, 0.05, s.opt['flag'])
    T[pp + 'triangle_area'] = lambda s: (s.tri,)
    T[pp + 'rank_corners_triangle'] = lambda s: (s.P, s.knees)
    T[pp + 'rank_corners'] = lambda s: (s.P, s.knees)
    r = 'rdp.'
    T[r + 'mapping'] = lambda s: (s.kpos, s.reduced, s.removed, s.opt['flag'])
    T[r + 'compute_cost_coef'] = lambda s: (s.P, s.coef, M(s))
    T[r + 'rdp'] = lambda s: (s.P, s.t, D(s), M(s))
    T[r + 'compute_removed_points'] = lambda s: (s.P, s.reduced)
    T[r + 'order_triangle'] = lambda s: (s.P, 1 + s.i % (s.n - 2), s.L.lf.shortest_distance_points)
    T[r + 'order_area'] = lambda s: (s.P, 1 + s.i % (s.n - 2), s.L.lf.shortest_distance_points)
    T[r + 'order_segment'] = lambda s: (s.P, 1 + s.i % (s.n - 2))
    T[r + 'rdp_fixed'] = lambda s: (s.P, 2 + s.i % s.n, D(s), O(s))
    T[r + 'grdp'] = lambda s: (s.P, s.t, D(s), M(s), O(s))
    T[r + 'mp_grdp'] = lambda s: (s.P, s.t, 2 + s.i % s.n, D(s), M(s), O(s))
    T[r + 'min_point_rdp'] = lambda s: (s.P, s.ts, 2 + s.i % s.n)
    z = 'zmethod.'
    T[z + 'map_index'] = lambda s: (s.x, s.x[s.knees])
    T[z + 'knees2'] = lambda s: (s.P, 0.05, 0.05, getattr(s.L.zmethod.Outlier, s.opt['outlier']))
    T[z + 'knees'] = lambda s: (s.P, 0.1, 0.1, 0.25)
    T[z + 'getPoints'] = lambda s: (s.P, 0.1, 0.1, 0.25)
    return T


TABLE = _table()


def public_functions():
    L = lib.lib()
    out = {}
    for mname in ('clustering', 'convex_hull', 'curvature', 'dfdt', 'evaluation', 'knee_ranking', 'kneedle',
                  'linear_fit', 'lmethod', 'menger', 'metrics', 'multi_knee', 'postprocessing', 'rdp', 'zmethod'):
        mod = getattr(L, mname)
        for k, v in vars(mod).items():
            f = getattr(v, 'py_func', v)
            if isinstance(f, types.FunctionType) and f.__module__ == mod.__name__ and not k.startswith('_'):
                out[mname + '.' + k] = v
    return out


OPTS = {'metric': S.METRICS, 'r2': ['classic', 'adjusted'], 'distance': S.DISTANCES, 'order': S.ORDERS,
        'linkage': ['single_linkage', 'complete_linkage', 'centroid_linkage', 'average_linkage'],
        'ranking': ['left', 'linear', 'right', 'hull'], 'strategy': ['knees', 'expected', 'best', 'worst'],
        'cd': ['Increasing', 'Decreasing'], 'cc': ['Counterclockwise', 'Clockwise'],
        'peak': ['Kneedle', 'ZScore', 'Significant', 'All'], 'tau': [0, 1.0, 2.5],
        'fit': ['point_fit', 'best_fit'], 'lcost': ['rmse', 'rss'], 'ref': ['none', 'original', 'adjusted'],
        'outlier': ['zscore', 'iqr', 'hampel'], 'flag': [False, True], 'coef_kind': ['float', 'float', 'int_slope', 'int_both']}


@st.composite
def dyn_cases(draw, tier, force_integral=False, names=None):
    names = sorted(names or TABLE)
    fn = draw(st.sampled_from(names))
    integral = True if force_integral else draw(st.booleans())
    if integral:
        n = draw(st.integers(8, 24 if tier == 'quick' else 80))
        x = draw(S.xs(n, integer=True))
        ys = draw(st.lists(st.integers(0, 30), min_size=n, max_size=n))
        if draw(st.booleans()):
            ys = sorted(ys, reverse=True)
        if max(ys) == min(ys):
            ys[0] += 3
        pts = [[float(a), float(b)] for a, b in zip(x, ys)]
        fam = 'integral'
    else:
        c = draw(S.curves(8, 24 if tier == 'quick' else 80,
                          families=['noise', 'mono_dec', 'convex', 'concave', 'pwl_rational', 'plateau', 'trace', 'pwl_dyadic'],
                          scales=False))
        pts, fam = c['pts'], c['family']
        n = len(pts)
    k = draw(st.integers(2, min(5, n - 4)))
    knees = sorted(draw(st.lists(st.integers(2, n - 3), min_size=k, max_size=k, unique=True)))
    reduced = draw(S.index_sets(n, min_inner=2))
    kpos = sorted(draw(st.lists(st.integers(1, len(reduced) - 2), min_size=1, max_size=3, unique=True)))
    small = st.integers(0, 12).map(float) if integral else st.floats(0, 12, allow_nan=False).map(lambda v: round(v, 3))
    ne = draw(st.integers(1, 4))
    expected = []
    for _ in range(ne):
        j = draw(st.integers(0, n - 1))
        expected.append([pts[j][0] + draw(st.sampled_from([0.0, 1.0, -1.0, 3.0, 0.5])), pts[j][1] + draw(st.sampled_from([0.0, 1.0, 2.0, 0.25]))])
    rect_lo = [draw(small), draw(small)]
    rect = [rect_lo, [rect_lo[0] + 1 + draw(small), rect_lo[1] + 1 + draw(small)]]
    rect2_lo = [draw(small), draw(small)]
    rect += [rect2_lo, [rect2_lo[0] + 1 + draw(small), rect2_lo[1] + 1 + draw(small)]]
    tri = [[draw(small), draw(small)], [20.0 + draw(small), draw(small)], [40.0 + draw(small), 50.0 + draw(small)]]
    case = {'kind': 'dyn', 'function': fn, 'family': fam, 'pts': pts, 'knees': knees, 'reduced': reduced, 'kpos': kpos,
            'expected': expected, 'cm': [[draw(st.integers(1, 9)), draw(st.integers(0, 9))], [draw(st.integers(0, 9)), draw(st.integers(1, 9))]],
            't': draw(st.sampled_from([0.01, 0.05, 0.125, 0.2, 0.33, 0.5])),
            'noise': [draw(st.sampled_from([0.0, 1.0, 2.0, 0.5])) for _ in range(n)],
            'rect': rect, 'tri': tri, 'values': [draw(small) for _ in range(draw(st.integers(3, 8)))],
            'ts': draw(st.lists(st.sampled_from([0.5, 0.1, 0.01, 0.001, 0.3]), min_size=1, max_size=4)),
            'i': draw(st.integers(0, 1000)),
            'opt': {k_: draw(st.sampled_from(v)) for k_, v in sorted(OPTS.items())}}
    return case


DEFAULTS0 = {}


def prepare(tier):
    """Record every public function's default values before any call is made."""
    for name, f in public_functions().items():
        pyf = getattr(f, 'py_func', f)
        DEFAULTS0[name] = snapshot(list(pyf.__defaults__ or ()))


def snapshot(obj):
    if isinstance(obj, np.ndarray):
        return ('nd', obj.dtype.str, obj.shape, obj.tobytes() if obj.flags.c_contiguous else np.ascontiguousarray(obj).tobytes())
    if isinstance(obj, (list, tuple)):
        return (type(obj).__name__, tuple(snapshot(o) for o in obj))
    if isinstance(obj, dict):
        return None       # caches are documented in/out parameters
    return ('v', repr(obj))


def arg_scale(args):
    """Largest finite magnitude among the numeric array arguments of a call (0 if none)."""
    m = 0.0
    for a in args:
        if isinstance(a, (list, tuple)):
            m = max(m, arg_scale(a))
        elif isinstance(a, np.ndarray) and a.dtype.kind in 'fiu' and a.size:
            with np.errstate(all='ignore'):
                v = np.abs(a.astype(float))
                v = v[np.isfinite(v)]
            if v.size:
                m = max(m, float(v.max()))
    return m


def same(a, b, exact=True, tol=1e-12, floor=0.0):
    """Structural comparison of two results.  Returns None if equal, else a short description.
    `floor` is an absolute allowance for float values (rounding noise of a result that is small
    because the inputs cancel: 1e-13 x the magnitude of the arguments)."""
    if a is None or b is None:
        return None if a is b else 'None vs %r' % (b if a is None else a,)
    if isinstance(a, (tuple, list)) or isinstance(b, (tuple, list)):
        if not isinstance(a, (tuple, list)) or not isinstance(b, (tuple, list)) or len(a) != len(b):
            return 'sequence shape %r vs %r' % (type(a).__name__, type(b).__name__)
        for i, (u, v) in enumerate(zip(a, b)):
            d = same(u, v, exact, tol, floor)
            if d:
                return '[%d] %s' % (i, d)
        return None
    if isinstance(a, dict) or isinstance(b, dict):
        if not (isinstance(a, dict) and isinstance(b, dict)) or sorted(map(str, a)) != sorted(map(str, b)):
            return 'dict keys differ'
        for k in a:
            d = same(a[k], b[k], exact, tol, floor)
            if d:
                return '[%r] %s' % (k, d)
        return None
    try:
        ua = np.asarray(a)
        ub = np.asarray(b)
    except Exception:
        return None if a == b else '%r vs %r' % (a, b)
    if ua.dtype == object or ub.dtype == object:
        return None if repr(a) == repr(b) else 'objects differ'
    if ua.shape != ub.shape:
        return 'shape %r vs %r' % (ua.shape, ub.shape)
    if ua.dtype.kind in 'iub' and ub.dtype.kind in 'iub':
        return None if np.array_equal(ua, ub) else 'integers %r vs %r' % (ua.tolist(), ub.tolist())
    fa = ua.astype(float)
    fb = ub.astype(float)
    if exact:
        return None if np.array_equal(fa, fb, equal_nan=True) else 'values %r vs %r' % (fa.tolist(), fb.tolist())
    nan_a, nan_b = np.isnan(fa), np.isnan(fb)
    if not np.array_equal(nan_a, nan_b):
        return 'nan pattern %r vs %r' % (fa.tolist(), fb.tolist())
    with np.errstate(all='ignore'):
        inf_ok = np.array_equal(np.isinf(fa), np.isinf(fb)) and np.array_equal(np.sign(fa[np.isinf(fa)]), np.sign(fb[np.isinf(fb)]))
        fin = ~(nan_a | np.isinf(fa) | np.isinf(fb))
        close = np.all(np.abs(fa[fin] - fb[fin]) <= tol * np.maximum(np.abs(fa[fin]), np.abs(fb[fin])) + 1e-300 + floor)
    return None if (inf_ok and close) else 'values %r vs %r' % (fa.tolist(), fb.tolist())


def _invoke(rec, fn, fobj, case, variant):
    s = build_scenario(case, variant)
    s.opt = case['opt']
    args = TABLE[fn](s)
    before = [snapshot(a) for a in args]
    r = Rec2()
    out = rec.call(20 * s.n + 700, fobj, *args, _site=fn)
    after = [snapshot(a) for a in args]
    return out, before, after, args


class Rec2:
    pass


# ---- "fresh interpreter state" oracle -------------------------------------------------------------
# The first time a worker evaluates a dynamic case it forks a *template* process that has made no
# library call yet.  For every request the template forks a grandchild, which evaluates exactly one
# call in that pristine state and sends the pickled result back.  Comparing the worker's own result
# (obtained after thousands of earlier calls on other inputs) with the pristine one exposes state
# that leaks between calls: module-level caches, mutable default arguments, shared scratch buffers.
_fresh = {'pid': None}


def _send(fd, obj):
    import pickle
    import struct
    data = pickle.dumps(obj)
    os.write(fd, struct.pack('<Q', len(data)))
    view = memoryview(data)
    while view:
        k = os.write(fd, view[:65536])
        view = view[k:]


def _recv(fd):
    import pickle
    import struct
    head = b''
    while len(head) < 8:
        chunk = os.read(fd, 8 - len(head))
        if not chunk:
            return None
        head += chunk
    n = struct.unpack('<Q', head)[0]
    buf = bytearray()
    while len(buf) < n:
        chunk = os.read(fd, min(65536, n - len(buf)))
        if not chunk:
            return None
        buf += chunk
    return pickle.loads(bytes(buf))


def _fresh_start():
    req_r, req_w = os.pipe()
    res_r, res_w = os.pipe()
    pid = os.fork()
    if pid == 0:                       # template: never calls the library itself
        os.close(req_w)
        os.close(res_r)
        try:
            while True:
                msg = _recv(req_r)
                if msg is None:
                    break
                child = os.fork()
                if child == 0:
                    try:
                        fn, case = msg
                        r = lib.Rec()
                        out, _, _, _ = _invoke(r, fn, public_functions()[fn], case, 'C')
                        _send(res_w, ('failed', [l for l, _ in r.violations]) if out is FAILED else ('ok', out))
                    except BaseException as e:   # noqa
                        try:
                            _send(res_w, ('error', repr(e)))
                        except Exception:
                            pass
                    os._exit(0)
                os.waitpid(child, 0)
        finally:
            os._exit(0)
    os.close(req_r)
    os.close(res_w)
    _fresh.update(pid=pid, req=req_w, res=res_r, owner=os.getpid())


def fresh_result(fn, case):
    if _fresh['pid'] is None or _fresh.get('owner') != os.getpid():
        _fresh_start()
    _send(_fresh['req'], (fn, case))
    return _recv(_fresh['res'])


def oracle_dyn(case, rec):
    fn = case['function']
    funcs = public_functions()
    rec.tag('fn:' + fn)
    if fn not in funcs:
        rec.tag('missing-function:' + fn)   # an API was removed/renamed: not this property's claim
        return
    f = funcs[fn]
    if _fresh['pid'] is None or _fresh.get('owner') != os.getpid():
        _fresh_start()             # before this worker's first library call of the sub-check
    n0 = len(rec.violations)
    out, before, after, args = _invoke(rec, fn, f, case, 'C')
    failed_base = out is FAILED
    base_exc = [l for l, _ in rec.violations[n0:]]
    if failed_base:
        # raising on this scenario is other properties' business unless it is a linkage failure;
        # C20 only asks that the behaviour is the same for every representation and repetition
        link = [l for l in base_exc if l.startswith(('exc:NameError', 'exc:AttributeError', 'exc:UnboundLocalError'))
                or (l.startswith('exc:TypeError') and 'argument' in dict(rec.violations[n0:]).get(l, ''))]
        keep = [(l.replace('exc:', 'link-dyn:', 1), m) for l, m in rec.violations[n0:] if l in link]
        del rec.violations[n0:]
        rec.violations.extend(keep)
        rec.tag('raises:' + fn)
    if before != after:
        idx = [i for i, (a, b) in enumerate(zip(before, after)) if a != b]
        rec.fail('impure:%s' % fn, 'argument(s) %r modified by the call' % idx)
    pyf = getattr(f, 'py_func', f)
    d_after = snapshot(list(pyf.__defaults__ or ()))
    if d_after != DEFAULTS0.get(fn, d_after):
        rec.fail('impure:%s' % fn, 'the default argument values of the function changed (mutable default mutated): %r' % (pyf.__defaults__,))
    # history independence: an unrelated call in between must neither overwrite the first result
    # nor change what the same call returns afterwards (module-level buffers, shared default caches)
    n1 = len(rec.violations)
    snap1 = copy.deepcopy(out) if not failed_base else None
    other = dict(case)
    other['pts'] = [[q[0], case['pts'][len(case['pts']) - 1 - i][1]] for i, q in enumerate(case['pts'])]
    other['t'] = 0.05 if case['t'] != 0.05 else 0.2
    other['reduced'] = [0] + case['reduced'][2:] if len(case['reduced']) > 3 else case['reduced']
    other['kpos'] = [k_ for k_ in case['kpos'] if k_ < len(other['reduced']) - 1] or [min(1, len(other['reduced']) - 2)] if len(other['reduced']) > 2 else case['kpos']
    if len(other['reduced']) > 2:
        _invoke(rec, fn, f, other, 'C')
    del rec.violations[n1:]
    if not failed_base:
        d = same(out, snap1, exact=True)
        if d:
            rec.fail('aliasing:%s' % fn, 'the result of the first call changed after a later, unrelated call: ' + d)
    # the same call in a process that has made no other library call
    fr = fresh_result(fn, case)
    if fr is None or fr[0] == 'error':
        rec.tag('fresh-state-oracle:unavailable')
    elif (fr[0] == 'failed') != failed_base:
        rec.fail('history-dependent:%s' % fn, 'raises in one of {fresh process, long-running process} only')
    elif not failed_base:
        d = same(out, fr[1], exact=True)
        if d:
            rec.fail('history-dependent:%s' % fn, 'result differs from the same call made in a fresh process state: ' + d)
        rec.tag('fresh-state-oracle:compared')
    # determinism - the second call is made after NumPy's small-block free lists were filled with a
    # different value, so that reading uninitialised memory (np.empty used as np.zeros) shows
    n1 = len(rec.violations)
    lib.poison(1e300 if case.get('i', 0) % 2 else -1e300)
    out2, _, _, _ = _invoke(rec, fn, f, case, 'C')
    lib.poison(0.0)
    del rec.violations[n1:]
    if (out2 is FAILED) != failed_base:
        rec.fail('nondeterministic:%s' % fn, 'raises on one of two identical calls')
    elif not failed_base:
        d = same(out, out2, exact=True)
        if d:
            rec.fail('nondeterministic:%s' % fn, d)
    # representations
    integral = all(float(v).is_integer() for p in case['pts'] for v in p) and case['family'] == 'integral'
    for variant in ('F', 'view') + (('int64',) if integral else ()):
        n2 = len(rec.violations)
        o, b, a, vargs = _invoke(rec, fn, f, case, variant)
        msgs = rec.violations[n2:]
        del rec.violations[n2:]
        if b != a:
            rec.fail('impure:%s' % fn, 'argument modified (%s representation)' % variant)
        if (o is FAILED) != failed_base:
            rec.fail('layout:%s:%s' % (variant, fn), 'raises only for one representation: %r' % (msgs[:1],))
        elif not failed_base:
            d = same(out, o, exact=False, floor=1e-13 * arg_scale(vargs))
            if d:
                rec.fail('layout:%s:%s' % (variant, fn), d)
        rec.tag('variant:' + variant)
    if not failed_base:
        try:
            sz = np.asarray(out, dtype=object).size if not isinstance(out, (int, float)) else 1
        except Exception:
            sz = 1
        rec.nontrivial = sz > 0


DTYPE_FOCUS = ['curvature.knee', 'curvature.multi_knee', 'dfdt.knee', 'dfdt.multi_knee', 'menger.knee', 'menger.multi_knee',
               'lmethod.knee', 'lmethod.multi_knee', 'kneedle.knee', 'kneedle.knees', 'kneedle.multi_knee', 'rdp.rdp', 'rdp.grdp',
               'rdp.rdp_fixed', 'rdp.mp_grdp', 'rdp.min_point_rdp', 'zmethod.knees', 'zmethod.knees2',
               'postprocessing.filter_clusters', 'postprocessing.add_points_even', 'postprocessing.filter_corner_knees',
               'evaluation.mae', 'evaluation.mse', 'evaluation.rmspe', 'evaluation.cm', 'evaluation.compute_global_cost',
               'evaluation.mip', 'knee_ranking.smooth_ranking', 'knee_ranking.slope_ranking', 'convex_hull.graham_scan',
               'clustering.average_linkage', 'clustering.centroid_linkage', 'linear_fit.linear_fit_points',
               'linear_fit.shortest_distance_points', 'linear_fit.r2_points', 'evaluation.accuracy_trace']


@st.composite
def dtype_cases(draw, tier):
    """Integer-valued curves through the entry points that take a whole curve: int64 vs float64."""
    case = draw(dyn_cases(tier, force_integral=True, names=[n for n in DTYPE_FOCUS if n in TABLE]))
    case['kind'] = 'dtype'
    case['bigint'] = draw(st.integers(0, 5)) == 0
    return case


def oracle_dtype(case, rec):
    fn = case['function']
    funcs = public_functions()
    rec.tag('dtype-fn:' + fn)
    if fn not in funcs:
        return
    f = funcs[fn]
    n0 = len(rec.violations)
    out, b0, a0, _ = _invoke(rec, fn, f, case, 'C')
    o2, b1, a1, vargs = _invoke(rec, fn, f, case, 'int64')
    del rec.violations[n0:]
    if b0 != a0 or b1 != a1:
        rec.fail('impure:%s' % fn, 'argument modified')
    big = bool(case.get('bigint'))
    # coordinates of 2^31 and more: products exceed int64 inside NumPy (known finding, one label)
    label = 'int64-overflow' if big else 'layout:int64:%s' % fn
    if big:
        rec.tag('dtype:coordinates>=2^31')
    if (out is FAILED) != (o2 is FAILED):
        rec.fail(label, '%s raises only for one of the int64 / float64 representations' % fn)
    elif out is not FAILED:
        d = same(out, o2, exact=False, floor=1e-13 * arg_scale(vargs))
        if d:
            rec.fail(label, '%s: %s' % (fn, d[:300]))
        rec.nontrivial = True


@st.composite
def small_cases(draw, tier):
    """The shortest valid curves (2..7 points) through every table entry whose arguments can be built
    for them, with the smallest documented option values (limit, t2).  Whether a function accepts or
    rejects such an input is other properties' business; here only linkage failures (NameError incl.
    UnboundLocalError, AttributeError, arity TypeError), impurity, nondeterminism and representation
    dependence count."""
    fn = draw(st.sampled_from(sorted(TABLE)))
    n = draw(st.integers(2, 7))
    integral = draw(st.booleans())
    x = draw(S.xs(n, integer=True))
    if integral:
        ys = draw(st.lists(st.integers(0, 30), min_size=n, max_size=n))
    else:
        ys = [round(v, 3) for v in draw(st.lists(st.floats(0, 30, allow_nan=False), min_size=n, max_size=n))]
    shape = draw(st.sampled_from(['any', 'dec', 'inc', 'line']))
    if shape == 'dec':
        ys = sorted(ys, reverse=True)
    elif shape == 'inc':
        ys = sorted(ys)
    elif shape == 'line':
        ys = [float(3 * (x[-1] - a)) for a in x]
    pts = [[float(a), float(b)] for a, b in zip(x, ys)]
    inner = list(range(1, n - 1))
    knees = sorted(draw(st.lists(st.sampled_from(inner), min_size=1, max_size=len(inner), unique=True))) if inner else [0]
    keep = sorted(draw(st.lists(st.sampled_from(inner), max_size=len(inner), unique=True))) if inner else []
    reduced = [0] + keep + [n - 1]
    kpos = sorted(draw(st.lists(st.integers(0, len(reduced) - 1), min_size=1, max_size=2, unique=True)))
    small = st.integers(0, 12).map(float)
    j = draw(st.integers(0, n - 1))
    expected = [[pts[j][0] + draw(st.sampled_from([0.0, 1.0, -1.0])), pts[j][1] + draw(st.sampled_from([0.0, 1.0]))]]
    rect = [[0.0, 0.0], [1.0 + draw(small), 1.0 + draw(small)], [draw(small), draw(small)], [13.0 + draw(small), 13.0 + draw(small)]]
    tri = [[draw(small), draw(small)], [20.0 + draw(small), draw(small)], [40.0 + draw(small), 50.0 + draw(small)]]
    return {'kind': 'small', 'small': True, 'function': fn, 'family': 'integral' if integral or shape == 'line' else 'small-float',
            'pts': pts, 'knees': knees, 'reduced': reduced, 'kpos': kpos, 'expected': expected,
            'cm': [[draw(st.integers(0, 3)), draw(st.integers(0, 3))], [draw(st.integers(0, 3)), draw(st.integers(0, 3))]],
            't': draw(st.sampled_from([0.01, 0.05, 0.125, 0.2, 0.5])), 'noise': [draw(st.sampled_from([0.0, 1.0, 0.5])) for _ in range(n)],
            'rect': rect, 'tri': tri, 'values': [draw(small) for _ in range(draw(st.integers(1, 4)))],
            'ts': draw(st.lists(st.sampled_from([0.5, 0.1, 0.01]), min_size=1, max_size=3)), 'i': draw(st.integers(0, 1000)),
            'opt': {k_: draw(st.sampled_from(v)) for k_, v in sorted(OPTS.items())}}


def oracle_small(case, rec):
    fn = case['function']
    rec.tag('small:n=%d' % len(case['pts']))
    try:
        for variant in ('C', 'int64'):
            s = build_scenario(case, variant)
            s.opt = case['opt']
            TABLE[fn](s)
    except Exception as e:   # the table entry needs a longer curve (e.g. an index i with 2 <= i <= n-3)
        rec.tag('small:arguments-not-constructible')
        return
    oracle_dyn(case, rec)


def uncovered_functions():
    return sorted(set(public_functions()) - set(TABLE) - set(EXCLUDED_DYNAMIC))


# =========================================================================== (b) linkage half
def _scopes(tab, path=()):
    yield tab, path
    for c in tab.get_children():
        yield from _scopes(c, path + (c.get_name(),))


def enumerate_sites(tier=None):
    """Every reference site of every module of the package (complete enumeration)."""
    L = lib.lib()
    sites = []
    for fn in sorted(os.listdir(L.pkg_dir)):
        if not fn.endswith('.py'):
            continue
        modname = 'kneeliverse' if fn == '__init__.py' else 'kneeliverse.' + fn[:-3]
        src = open(os.path.join(L.pkg_dir, fn)).read()
        tree = ast.parse(src)
        st_ = symtable.symtable(src, fn, 'exec')
        short = modname.split('.')[-1]
        # (1) global / free name loads
        seen = set()
        for tab, path in _scopes(st_):
            for sym in tab.get_symbols():
                if not sym.is_referenced():
                    continue
                is_glob = sym.is_global() or (tab.get_type() == 'module')
                if tab.get_type() != 'module' and not sym.is_global():
                    continue
                key = ('.'.join(path) or '<module>', sym.get_name())
                if key in seen:
                    continue
                seen.add(key)
                sites.append({'kind': 'link', 'type': 'NAME', 'module': modname, 'scope': key[0], 'name': sym.get_name(),
                              'label': 'link:NAME:%s.%s:%s' % (short, key[0], sym.get_name())})
        # (2) attribute chains, (3) calls, (4) local imports
        for node in ast.walk(tree):
            for child in ast.iter_child_nodes(node):
                child._parent = node
        funcs = {}
        for node in ast.walk(tree):
            if isinstance(node, (ast.FunctionDef, ast.AsyncFunctionDef, ast.Lambda)):
                loc = set()
                args = node.args
                for a in args.args + args.kwonlyargs + args.posonlyargs:
                    loc.add(a.arg)
                if args.vararg:
                    loc.add(args.vararg.arg)
                if args.kwarg:
                    loc.add(args.kwarg.arg)
                for x in ast.walk(node):
                    if isinstance(x, ast.Name) and isinstance(x.ctx, (ast.Store, ast.Del)):
                        loc.add(x.id)
                    if isinstance(x, (ast.Import, ast.ImportFrom)):
                        for al in x.names:
                            loc.add((al.asname or al.name).split('.')[0])
                funcs[node] = loc

        def owner(node):
            names = []
            locs = set()
            cur = node
            while hasattr(cur, '_parent'):
                cur = cur._parent
                if cur in funcs:
                    locs |= funcs[cur]
                    names.append(getattr(cur, 'name', '<lambda>'))
            return '.'.join(reversed(names)) or '<module>', locs

        def chain(n):
            parts = []
            while isinstance(n, ast.Attribute):
                parts.append(n.attr)
                n = n.value
            if isinstance(n, ast.Name):
                return n.id, parts[::-1]
            return None, None

        for node in ast.walk(tree):
            if isinstance(node, ast.Attribute) and not isinstance(getattr(node, '_parent', None), ast.Attribute):
                root, parts = chain(node)
                scope, locs = owner(node)
                if root and root not in locs:
                    sites.append({'kind': 'link', 'type': 'ATTR', 'module': modname, 'scope': scope, 'root': root,
                                  'parts': parts, 'label': 'link:ATTR:%s.%s:%s' % (short, scope, root + '.' + '.'.join(parts))})
            if isinstance(node, ast.Call):
                scope, locs = owner(node)
                tgt = None
                if isinstance(node.func, ast.Name) and node.func.id not in locs:
                    tgt = (node.func.id, [])
                elif isinstance(node.func, ast.Attribute):
                    root, parts = chain(node.func)
                    if root and root not in locs:
                        tgt = (root, parts)
                if tgt and not any(isinstance(a, ast.Starred) for a in node.args) and not any(k.arg is None for k in node.keywords):
                    sites.append({'kind': 'link', 'type': 'ARITY', 'module': modname, 'scope': scope, 'root': tgt[0],
                                  'parts': tgt[1], 'nargs': len(node.args), 'kw': sorted(k.arg for k in node.keywords),
                                  'label': 'link:ARITY:%s.%s->%s' % (short, scope, '.'.join([tgt[0]] + tgt[1]))})
            if isinstance(node, (ast.Import, ast.ImportFrom)) and hasattr(node, '_parent') and not isinstance(node._parent, ast.Module):
                scope, _ = owner(node)
                names = [node.module] if isinstance(node, ast.ImportFrom) else [a.name for a in node.names]
                for nm in names:
                    sites.append({'kind': 'link', 'type': 'IMPORT', 'module': modname, 'scope': scope, 'name': nm,
                                  'label': 'link:IMPORT:%s.%s:%s' % (short, scope, nm)})
    return sites


def oracle_link(case, rec):
    mod = importlib.import_module(case['module'])
    typ = case['type']
    lab = case['label']
    rec.tag('site:' + typ)
    if typ == 'NAME':
        ok = hasattr(mod, case['name']) or hasattr(builtins, case['name'])
        rec.check(ok, lab, 'name %r used in %s.%s resolves neither in the module nor in builtins' % (case['name'], case['module'], case['scope']))
        return
    if typ == 'IMPORT':
        try:
            ok = importlib.util.find_spec(case['name']) is not None
        except (ImportError, ValueError):
            ok = False
        rec.check(ok, lab, 'function-local import of %r cannot be resolved' % case['name'])
        rec.nontrivial = True
        return
    root = case['root']
    if not hasattr(mod, root):
        if hasattr(builtins, root):
            return
        if typ == 'ATTR':
            # unresolvable root is reported by the NAME site of the same scope
            return
        return
    obj = getattr(mod, root)
    if typ == 'ATTR':
        if not isinstance(obj, (types.ModuleType, type)):
            return
        cur = obj
        for part in case['parts']:
            if not hasattr(cur, part):
                rec.fail(lab, 'attribute %r of %r does not exist (used in %s.%s)' % (part, getattr(cur, '__name__', cur), case['module'], case['scope']))
                return
            cur = getattr(cur, part)
            if not isinstance(cur, (types.ModuleType, type)):
                break
        rec.nontrivial = isinstance(obj, types.ModuleType) and obj.__name__ != case['module']
        return
    # ARITY
    cur = obj
    try:
        for part in case['parts']:
            cur = getattr(cur, part)
    except AttributeError:
        return   # reported by the ATTR site
    tgt = getattr(cur, 'py_func', cur)
    if isinstance(tgt, types.FunctionType) and tgt.__module__.split('.')[0] in ('kneeliverse', 'uts'):
        try:
            inspect.signature(tgt).bind(*[0] * case['nargs'], **{k: 0 for k in case['kw']})
        except TypeError as e:
            rec.fail(lab, 'call with %d positional / %r keyword arguments does not match %s%s: %s' %
                     (case['nargs'], case['kw'], tgt.__qualname__, inspect.signature(tgt), e))
        rec.nontrivial = tgt.__module__ != case['module']
        rec.tag('arity:checked')


def enumerate_dynamic_gaps(tier=None):
    """One pseudo-case listing public functions that have no call-table entry (reported, not failed)."""
    unc = uncovered_functions()
    yield {'kind': 'gaps', 'uncovered': unc, 'excluded': sorted(EXCLUDED_DYNAMIC)}


def oracle_gaps(case, rec):
    for u in case['uncovered']:
        rec.tag('uncovered-public-function:' + u)
    for u in case['excluded']:
        rec.tag('excluded-from-dynamic:' + u)


def examples_dyn(tier):
    return []


SUBS = [
    Sub('dynamic', oracle_dyn, strategy=dyn_cases, budget={'quick': 4800, 'thorough': 96000}),
    Sub('dtype', oracle_dtype, strategy=dtype_cases, budget={'quick': 4800, 'thorough': 96000}),
    Sub('small', oracle_small, strategy=small_cases, budget={'quick': 3200, 'thorough': 48000}),
    Sub('linkage', oracle_link, enumerate=enumerate_sites, exhaustive=True, shards=4),
    Sub('gaps', oracle_gaps, enumerate=enumerate_dynamic_gaps, shards=1),
]
