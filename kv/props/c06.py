"""C06 - global RDP stops at the first refinement whose global cost meets the threshold."""
import numpy as np
from hypothesis import strategies as st

from .. import lib, strategies as S
from ..lib import FAILED
from ..runner import Sub
from .c05 import chain

ID = 'C06'
TECHNIQUE = "differential PBT against the fixed-size chain (C05) and the global cost (C15) with thresholds drawn among the chain's own costs"
LEVEL_TEXT = 'Exploration: First-acceptable refinement, min-points continuation, multi-threshold selection incl. the default threshold list. Finds counter-examples (shrunk to a replay file); never proves absence.'
RULE = ('Case = (performance curve, metric, distance, ordering, threshold drawn among the global costs of the '
        'fixed-size chain S_2..S_n of this very curve so that "first acceptable" differs from "some '
        'acceptable", min_points in 0..n+3, threshold list).  Oracle (differential against the fixed-size '
        'chain, which C05 checks, and the global cost, which C15 checks): k* = min{k >= 2 : '
        'accept(compute_global_cost(points, S_k, metric))}; grdp == S_k* (all indices if none); mp_grdp == '
        'S_max(k*, min(m, n)); min_point_rdp == grdp(t_j) for the largest listed t_j that yields >= m points, '
        'else rdp_fixed(m); removed tables == compute_removed_points.  Non-trivial: 2 < k* < n with a later '
        'S_k also acceptable while an earlier one is not, or the min-points continuation adds points.')
ASSUMPTIONS = ['a NaN global cost makes the comparison undefined: such cases are counted and skipped']


def accept(c, t, metric):
    return (c >= t) if metric == 'r2' else (c < t)


@st.composite
def cases(draw, tier):
    L = lib.lib()
    c = draw(S.curves(2, 26 if tier == 'quick' else 80, big_n=80 if tier == 'quick' else 200))
    p = np.array(c['pts'], dtype=float)
    n = len(p)
    metric = draw(st.sampled_from(S.METRICS))
    distance = draw(st.sampled_from(S.DISTANCES))
    order = draw(st.sampled_from(S.ORDERS))
    # thresholds among the chain's own global costs (computed with library primitives)
    cands = []
    if draw(st.integers(0, 3)) != 0 and n >= 3:
        try:
            with np.errstate(all='ignore'):
                for k in sorted(set(draw(st.lists(st.integers(2, n), min_size=1, max_size=3)))):
                    red, _ = lib.guard.guarded(4 * n + 16, L.rdp.rdp_fixed, p, k, S.distance_of(distance), S.order_of(order))
                    cands.append(float(L.evaluation.compute_global_cost(p, red, S.metric_of(metric))))
        except Exception:
            cands = []
    t = draw(S.thresholds(c['pts'], metric, candidates=cands or None))
    ts = draw(st.lists(S.thresholds(c['pts'], 'smape'), min_size=0, max_size=4))
    return {'family': c['family'], 'pts': c['pts'], 'metric': metric, 'distance': distance, 'order': order,
            't': t, 'min_points': draw(st.integers(0, n + 3)), 'ts': ts, 'default_ts': draw(st.integers(0, 2)) == 0, 'np_int': draw(st.booleans())}


def oracle(case, rec):
    L = lib.lib()
    p = lib.pts_of(case)
    n = len(p)
    metric, t = case['metric'], case['t']
    M = S.metric_of(metric)
    Dn, On = S.distance_of(case['distance']), S.order_of(case['order'])
    rec.tag('family:' + case['family'], 'cfg:%s/%s/%s' % (metric, case['distance'], case['order']))
    nv = len(rec.violations)
    seq = chain(case, rec, p, upto=n)
    if any(seq[k] is None for k in seq):
        del rec.violations[nv:]
        rec.tag('skipped:fixed-size-chain-broken')     # C05/C01 report that
        return

    def gcost(red):
        with np.errstate(all='ignore'):
            return float(L.evaluation.compute_global_cost(p, np.array(red, dtype=int), M))

    costs = {k: gcost(seq[k]) for k in range(2, n + 1)}
    if any(v != v for v in costs.values()):
        rec.tag('nan-global-cost-skipped')
        return
    kstar = next((k for k in range(2, n + 1) if accept(costs[k], t, metric)), None)
    want = seq[kstar] if kstar is not None else list(range(n))
    kk = kstar if kstar is not None else n
    if any(v == t for v in costs.values()):
        rec.tag('threshold-equals-a-chain-cost')

    def as_list(out, label):
        if not (isinstance(out, tuple) and len(out) == 2):
            rec.fail(label + ':shape', repr(out)[:100])
            return None, None
        return [int(v) for v in np.asarray(out[0])], np.asarray(out[1])

    def removed_ok(red, removed, label):
        ref = np.asarray(L.rdp.compute_removed_points(p, np.array(red, dtype=int)))
        rec.check(removed.shape == ref.shape and np.array_equal(removed, ref), label + ':removed-table',
                  (removed.tolist(), ref.tolist()))

    out = rec.call(4 * n + 16, L.rdp.grdp, p, t, Dn, M, On, _site='rdp.grdp')
    if out is not FAILED:
        g, rem = as_list(out, 'grdp')
        if g is not None:
            rec.check(g == want, 'grdp:not-first-acceptable-refinement',
                      'got %d points %r, want S_%s=%r; chain costs %r t=%r metric=%s' %
                      (len(g), g, kstar, want, [costs[k] for k in range(2, min(n, 8) + 1)], t, metric))
            if g == want:
                removed_ok(g, rem, 'grdp')
    m = case['min_points']
    marg = np.int64(m) if case.get('np_int') else m
    out = rec.call(4 * n + 16, L.rdp.mp_grdp, p, t, marg, Dn, M, On, _site='rdp.mp_grdp')
    target = max(kk, min(m, n), 2)
    if out is not FAILED:
        g, rem = as_list(out, 'mp_grdp')
        if g is not None:
            rec.check(g == seq[target], 'mp_grdp:not-S_max(k*,min(m,n))',
                      'got %r want S_%d=%r (k*=%s m=%d n=%d t=%r metric=%s)' % (g, target, seq[target], kstar, m, n, t, metric))
            if g == seq[target]:
                removed_ok(g, rem, 'mp_grdp')
    later_ok = kstar is not None and 2 < kstar < n
    rec.nontrivial = later_ok or (target > kk)
    if later_ok:
        rec.tag('first-differs-from-some')
    if target > kk:
        rec.tag('min-points-continuation')

    # multi-threshold variant (library defaults: shortest distance, SMAPE, segment ordering)
    if case.get('default_ts'):
        ts = [0.01, 0.001, 0.0001]          # the documented default; the call omits the argument
        rec.tag('min_point_rdp:default-thresholds')
        out = rec.call(4 * n + 16, L.rdp.min_point_rdp, p, min_points=m, _site='rdp.min_point_rdp')
    else:
        ts = list(case['ts'])
        out = rec.call(4 * n + 16, L.rdp.min_point_rdp, p, list(ts), m, _site='rdp.min_point_rdp')
    if out is not FAILED:
        g, rem = as_list(out, 'min_point_rdp')
        if g is not None:
            expect = None
            for tj in sorted(ts, reverse=True):
                o2 = rec.call(4 * n + 16, L.rdp.grdp, p, tj, _site='rdp.grdp')
                if o2 is FAILED:
                    return
                r2 = [int(v) for v in np.asarray(o2[0])]
                if len(r2) >= m:
                    expect = r2
                    break
            if expect is None:
                o2 = rec.call(4 * n + 16, L.rdp.rdp_fixed, p, m, _site='rdp.rdp_fixed')
                if o2 is FAILED:
                    return
                expect = [int(v) for v in np.asarray(o2[0])]
                rec.tag('min_point_rdp:fixed-fallback')
            rec.check(g == expect, 'min_point_rdp:wrong-threshold-or-fallback',
                      'got %r want %r ts=%r m=%d' % (g, expect, ts, m))
            if g == expect:
                removed_ok(g, rem, 'min_point_rdp')


SUBS = [Sub('grdp', oracle, strategy=cases, budget={'quick': 3200, 'thorough': 48000})]
