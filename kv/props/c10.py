"""C10 - Z-method knees are valid, height-ordered and mutually separated."""
import math

import numpy as np
from hypothesis import strategies as st

from .. import lib, strategies as S, guard
from ..lib import FAILED
from ..runner import Sub

ID = 'C10'
TECHNIQUE = 'PBT + validity predicate (pairwise separation, ordering) + anchored loop bound + branch probe; atheris campaign in thorough'
LEVEL_TEXT = 'Exploration: Separation/ordering on ~6.4k miss-ratio-like curves per quick run; 50% reach the multi-group branch (measured). Finds counter-examples (shrunk to a replay file); never proves absence.'
RULE = ('Cases = (miss-ratio-like curve: strictly increasing non-negative integer x with steps 1..50, y in [0,1] '
        'from families monotone, noisy, 1-digit plateaus, all-ones, steps, clustered high-curvature points; n in '
        '4..60|400; dx, dy, dz in (0,1] incl. 1.0 and values with x_max*dx < 1; optional x_max / y_range '
        'overrides as demos/zmethod.py passes them).  Oracle: loop bound ceil((3 - min z)/dz) + n + 2 per activation of every while loop; indices '
        'integer, in range, strictly increasing; heights non-increasing; every pair of knees >= max(1, '
        'floor(x_max*dx)) apart in x and >= (y_max - y_min)*dy apart in y (same float expressions as the '
        'statement); getPoints == x[knees].  Non-trivial: >= 2 knees reported.  The share of cases that '
        'reach the multi-group branch is measured with a line probe.')
ASSUMPTIONS = ['min z is taken from uts.zscore.zscore_array(x, uts.gradient.csd(x, y)) as the implementation does']


@st.composite
def cases(draw, tier):
    n = draw(st.one_of(st.integers(4, 16), st.integers(4, 16), st.integers(4, 60 if tier == 'quick' else 400),
                      st.integers(4, 60 if tier == 'quick' else 400), st.integers(60, 200 if tier == 'quick' else 800)))
    fam = draw(st.sampled_from(['mono', 'mono', 'noisy', 'plateau', 'ones', 'steps', 'bursts', 'convex', 'narrow', 'grid']))
    steps = draw(st.lists(st.integers(1, draw(st.sampled_from([1, 3, 50]))), min_size=n - 1, max_size=n - 1))
    unit = draw(st.sampled_from([1, 1, 1, 1, 2 ** 26]))      # cache sizes in objects ... or in bytes (64 MiB steps)
    x = [float(draw(st.integers(0, 20)) * unit)]
    for s in steps:
        x.append(x[-1] + s * unit)
    unit = st.floats(0, 1, allow_nan=False).map(lambda v: v if v >= 1e-6 else 0.0)
    if fam == 'mono':
        y = sorted(draw(st.lists(unit, min_size=n, max_size=n)), reverse=True)
    elif fam == 'noisy':
        y = draw(st.lists(unit, min_size=n, max_size=n))
    elif fam == 'plateau':
        y = sorted([round(v, 1) for v in draw(st.lists(unit, min_size=n, max_size=n))], reverse=True)
    elif fam == 'narrow':    # low-cacheability curve: the whole range is 1e-3 .. 1e-4 wide, small wiggles
        w = draw(st.sampled_from([1e-3, 1e-4]))
        vals = draw(st.lists(st.integers(0, 1000), min_size=n, max_size=n))
        if draw(st.booleans()):
            vals = sorted(vals, reverse=True)
        y = [1.0 - w + w * v / 1000.0 for v in vals]
    elif fam == 'grid':      # decimal grid whose step matches the y band (dy = 0.1 / 0.05)
        step = draw(st.sampled_from([10, 20]))
        vals = draw(st.lists(st.integers(0, step), min_size=n, max_size=n))
        if draw(st.integers(0, 2)):
            vals = sorted(vals, reverse=True)
        vals[0], vals[-1] = step, 0
        y = [v / float(step) for v in vals]
    elif fam == 'ones':
        y = [1.0] * n
    elif fam == 'steps':
        levels = sorted(draw(st.lists(st.integers(0, 10), min_size=2, max_size=5)), reverse=True)
        y = [levels[min(len(levels) - 1, i * len(levels) // n)] / 10.0 for i in range(n)]
    elif fam == 'bursts':   # sharp drops far apart -> several same-round candidate groups
        y = []
        cur = 1.0
        for i in range(n):
            if draw(st.integers(0, 4)) == 0:
                cur = max(0.0, cur - draw(st.sampled_from([0.1, 0.2, 0.3])))
            y.append(cur)
    else:
        a = draw(st.floats(0.5, 20))
        y = [min(1.0, a / (xi - x[0] + a)) for xi in x]
    frac = st.one_of(st.sampled_from([0.01, 0.05, 0.1, 0.25, 0.5, 1.0]), st.floats(0.01, 1.0))
    case = {'family': fam, 'pts': [[a, float(b)] for a, b in zip(x, y)],
            'dx': draw(frac), 'dy': draw(frac), 'dz': draw(st.one_of(st.sampled_from([0.05, 0.1, 0.25, 0.5, 1.0]), st.floats(0.02, 1.0)))}
    if draw(st.integers(0, 3)) == 0:
        case['x_max'] = int(x[-1]) + draw(st.integers(0, 200))
        hi = max(y)
        lo = min(y)
        case['y_range'] = [min(1.0, hi + draw(st.sampled_from([0.0, 0.1]))), max(0.0, lo - draw(st.sampled_from([0.0, 0.1])))]
    return case


_probe = []


def oracle(case, rec):
    L = lib.lib()
    import uts.gradient as grad
    import uts.zscore as uz
    zm = L.zmethod
    if not _probe:
        _probe.append(guard.add_probe(zm.getPoints, 'candidate_outliers = np.empty((0,3))', 'multi-group'))
    p = lib.pts_of(case)
    n = len(p)
    x, y = p[:, 0], p[:, 1]
    dx, dy, dz = case['dx'], case['dy'], case['dz']
    x_max = case.get('x_max')
    y_range = case.get('y_range')
    rec.tag('family:' + case['family'], 'overrides:%s' % (x_max is not None))
    with np.errstate(all='ignore'):
        z = uz.zscore_array(x, grad.csd(x, y))
    minz = float(np.min(z))
    if not math.isfinite(minz):
        rec.tag('nonfinite-zscore-skipped')
        return
    # rounds of the threshold sweep (threshold lowered by dz per round until below the minimum z-score);
    # a while loop nested in that sweep is counted per activation (kv.guard), so the same number also
    # bounds a walk over the (at most n) candidate groups of one round
    bound = int(math.ceil(max(0.0, 3 - minz) / dz)) + n + 2
    out = rec.call(bound, zm.knees, p, dx, dy, dz, x_max, y_range, _site='zmethod.knees')
    hits = guard.probe_hits()
    if hits.get('multi-group'):
        rec.tag('branch:multi-group')
    if out is FAILED:
        return
    a = np.asarray(out)
    if not rec.check(a.ndim == 1 and (a.size == 0 or a.dtype.kind in 'iu'), 'knees:not-an-index-vector', repr(a)[:100]):
        return
    idx = [int(v) for v in a]
    ok = rec.check(all(0 <= k < n for k in idx), 'knees:index-out-of-range', (idx, n))
    ok &= rec.check(all(u < v for u, v in zip(idx, idx[1:])), 'knees:not-strictly-increasing', idx)
    if not ok:
        return
    rec.check(all(y[u] >= y[v] for u, v in zip(idx, idx[1:])), 'knees:heights-increase', [(k, float(y[k])) for k in idx])
    xm = x_max if x_max else n
    if y_range:
        y_hi, y_lo = y_range
    else:
        y_hi, y_lo = float(y.max()), float(y.min())
    x_width = max(1, int(xm * dx))
    y_height = (y_hi - y_lo) * dy
    for i in range(len(idx)):
        for j in range(i + 1, len(idx)):
            u, v = idx[i], idx[j]
            if not abs(x[u] - x[v]) >= x_width:
                rec.fail('knees:closer-than-x-band', 'knees %d,%d x=%r,%r width=%r' % (u, v, x[u], x[v], x_width))
            if not abs(y[u] - y[v]) >= y_height:
                rec.fail('knees:closer-than-y-band', 'knees %d,%d y=%r,%r height=%r' % (u, v, y[u], y[v], y_height))
    pts_out = rec.call(bound, zm.getPoints, p, dx, dy, dz, False, x_max, y_range, _site='zmethod.getPoints')
    if pts_out is not FAILED:
        got = [float(v) for v in np.asarray(pts_out).ravel()]
        rec.check(got == [float(x[k]) for k in idx], 'getPoints:not-x-of-knees', (got, idx))
    rec.nontrivial = len(idx) >= 2
    rec.tag('knees:%s' % (len(idx) if len(idx) < 4 else '4+'))


def examples(tier):
    pts = [[float(i + 1), v] for i, v in enumerate([1, 0.9, 0.5, 0.45, 0.2, 0.19, 0.1, 0.1, 0.05, 0.05])]
    # ... and one very fine z-score step (a valid dz): ~1e5 rounds of the main loop
    return [{'family': 'repo', 'pts': pts, 'dx': 0.05, 'dy': 0.05, 'dz': 0.05},
            {'family': 'repo', 'pts': pts[:6], 'dx': 0.3, 'dy': 0.3, 'dz': 4e-5}]


SUBS = [Sub('zmethod', oracle, strategy=cases, budget={'quick': 6400, 'thorough': 96000}, examples=examples, fuzz={'thorough': 20000})]
