"""C09 - each single-knee detector returns the interior optimum of its stated criterion."""
import math
from fractions import Fraction as F

import numpy as np
from hypothesis import strategies as st

from .. import lib, strategies as S, exact as X
from ..lib import FAILED, EPS
from ..runner import Sub

ID = 'C09'
TECHNIQUE = 'PBT against reference models (exact rational Menger / L-method residual intervals, reference DFDT loop) + loop guard'
LEVEL_TEXT = 'Exploration: Arg-opt decided when unique by interval margin; ties only get structural clauses; L-method exact-minimum clause also on 105-400 point curves. Finds counter-examples (shrunk to a replay file); never proves absence.'
RULE = ('Cases = (valid curve n >= 3, n >= 5 for the L-method; Fit x Cost x Refinement x limit in [4, n+5]).  '
        'Reference models written from the statement, sharing only uts.gradient.cfd/csd and '
        'uts.thresholding.isodata with the implementation: curvature arg-max over the interior; DFDT '
        'reference refinement loop; Menger = reciprocal circumradius in rational arithmetic, interior '
        'arg-max with zero padding; L-method error of every split 2..n-3 from exact rational residuals '
        '(interval with a stated rounding allowance), returned split must be able to be the minimum and '
        'must be it when the minimum is unique by the interval margin, and must be a minimiser (exactly) of '
        "the library's own compute_error; lmethod.knee terminates within 2n+16 loop tests for every "
        'refinement and returns an index in [2, n-3].  Non-trivial: the optimum is unique by margin (the '
        'arg-opt is decided) for >= 2 detectors, or the refinement loop ran >= 2 iterations.')
ASSUMPTIONS = ['uts.gradient.cfd/csd and uts.thresholding.isodata are observation points named by the property',
               'tie cases (optimum not unique within tolerance) only get the structural clauses']

FITS = ['point_fit', 'best_fit']
COSTS = ['rmse', 'rss']
REFS = ['none', 'original', 'adjusted']


@st.composite
def cases(draw, tier):
    c = draw(S.curves(3, 40 if tier == 'quick' else 160))
    n = len(c['pts'])
    return {'family': c['family'], 'pts': c['pts'],
            'fit': draw(st.sampled_from(FITS)), 'cost': draw(st.sampled_from(COSTS)),
            'ref': draw(st.sampled_from(REFS)), 'limit': draw(st.integers(4, n + 5))}


def prefix(vals):
    out = [F(0)]
    for v in vals:
        out.append(out[-1] + v)
    return out


class Sums:
    """Exact prefix sums so that every segment's residual sum of squares is O(1) rational work."""

    def __init__(self, x, y):
        self.x = [F(float(v)) for v in x]
        self.y = [F(float(v)) for v in y]
        self.sx = prefix(self.x)
        self.sy = prefix(self.y)
        self.sxx = prefix([v * v for v in self.x])
        self.sxy = prefix([a * b for a, b in zip(self.x, self.y)])
        self.syy = prefix([v * v for v in self.y])

    def seg(self, l, r):   # inclusive
        g = lambda s: s[r + 1] - s[l]
        return r - l + 1, g(self.sx), g(self.sy), g(self.sxx), g(self.sxy), g(self.syy)

    def rss_line(self, l, r, b, m):
        n, sx, sy, sxx, sxy, syy = self.seg(l, r)
        return syy - 2 * m * sxy - 2 * b * sy + m * m * sxx + 2 * m * b * sx + n * b * b

    def point_fit(self, l, r):
        d = self.x[l] - self.x[r]
        m = (self.y[l] - self.y[r]) / d
        b = self.y[l] - m * self.x[l]
        return b, m

    def best_fit(self, l, r):
        n, sx, sy, sxx, sxy, syy = self.seg(l, r)
        den = n * sxx - sx * sx
        m = (n * sxy - sx * sy) / den
        b = (sy - m * sx) / n
        return b, m

    def allowance(self, l, r, b, m):
        """Generous bound on the float rounding error of a residual sum of squares."""
        n, sx, sy, sxx, sxy, syy = self.seg(l, r)
        return 1e-10 * float(syy + m * m * sxx + n * b * b)


def lmethod_bounds(x, y, fit, cost):
    """For every split i in 2..n-3: (lo, hi) interval that must contain the implementation's error."""
    S_ = Sums(x, y)
    n = len(x)
    length = F(float(x[-1])) - F(float(x[0]))
    out = {}
    for i in range(2, n - 2):
        lr = float((S_.x[i] - S_.x[0]) / length)
        rr = float((S_.x[n - 1] - S_.x[i]) / length)
        f = S_.point_fit if fit == 'point_fit' else S_.best_fit
        bl, ml = f(0, i)
        br, mr = f(i, n - 1)
        rl = float(S_.rss_line(0, i, bl, ml))
        rR = float(S_.rss_line(i, n - 1, br, mr))
        dl = S_.allowance(0, i, bl, ml)
        dr = S_.allowance(i, n - 1, br, mr)

        def err(a, b_):
            a, b_ = max(a, 0.0), max(b_, 0.0)
            if cost == 'rmse':
                return lr * math.sqrt(a * lr) + rr * math.sqrt(rr * b_)
            return a * lr + b_ * rr
        lo = err(rl - dl, rR - dr)
        hi = err(rl + dl, rR + dr)
        # np.polyfit obtains the residual from an SVD least-squares solve: its relative accuracy is
        # cond(V)*eps, not a few ulp (observed 1.6e-9 at y ~ 1e15) -> wider allowance for best_fit
        rel = 1e-9 if fit == 'point_fit' else 1e-6
        out[i] = (lo * (1 - rel) - 1e-300, hi * (1 + rel) + 1e-300)
    return out


def isodata_ref(a, eps=1e-6, max_iter=100):
    """uts.thresholding.isodata, step by step, plus a flag: 'unstable' when a value lies within rounding
    noise of a threshold it is classified against (or the convergence test is that close to eps), so
    that another summation order of the class means may send the iteration to another fixed point."""
    a = np.asarray(a, dtype=float)
    if a.size == 0:
        return 0.0, False
    noise = 64 * EPS * float(np.max(np.abs(a))) if a.size else 0.0
    t = float(np.mean(a))
    unstable = False
    for _ in range(max_iter):
        if np.any(np.abs(a - t) <= noise):
            unstable = True
        lm, rm = a <= t, a > t
        if not np.any(lm) or not np.any(rm):
            break
        new = (float(np.mean(a[lm])) + float(np.mean(a[rm]))) / 2.0
        if abs(abs(new - t) - eps) <= noise:
            unstable = True
        if abs(new - t) < eps:
            t = new
            break
        t = new
    return float(t), unstable


def menger_ref(p, i):
    a, b, c = X.pt(p[i - 1]), X.pt(p[i]), X.pt(p[i + 1])
    cr = abs(X.cross(a, b, c))
    prod = X.d2(a, b) * X.d2(b, c) * X.d2(c, a)
    return 2.0 * float(cr) / X.fsqrt(prod)


def oracle(case, rec):
    L = lib.lib()
    import uts.gradient as grad
    import uts.thresholding as thresh
    p = lib.pts_of(case)
    n = len(p)
    x, y = p[:, 0], p[:, 1]
    rec.tag('family:' + case['family'])
    decided = 0

    def interior(name, k, lo=1, hi=None):
        hi = n - 2 if hi is None else hi
        try:
            ki = int(k)
            ok = (k is not None) and lo <= ki <= hi and float(k) == ki
        except (TypeError, ValueError):
            ok = False
        rec.check(ok, name + ':not-an-interior-index', '%s returned %r, n=%d' % (name, k, n))
        return ok

    # ---------------- curvature
    k = rec.call(8, L.curvature.knee, p, _site='curvature.knee')
    if k is not FAILED and interior('curvature', k):
        g1, g2 = grad.cfd(x, y), grad.csd(x, y)
        with np.errstate(all='ignore'):
            kap = np.abs(g2) / ((1.0 + g1 ** 2.0) ** 1.5)
        inner = kap[1:-1]
        if np.all(np.isfinite(inner)):
            mx = float(inner.max())
            # rounding-noise allowance of kappa_i, from the conditioning of the second divided difference
            # (each quotient (y_j+1 - y_j)/h carries an absolute error ~ eps*(|y_j+1|+|y_j|)/h): an
            # implementation that evaluates the same formula in another order may rank values that differ
            # by less than this either way (all-collinear curves: every kappa is pure noise)
            ay = np.abs(y)
            h = np.diff(x)
            with np.errstate(all='ignore'):
                q = (ay[1:] + ay[:-1]) / h
                e2 = 2.0 * (q[1:] + q[:-1]) / (x[2:] - x[:-2])
                tol = np.zeros(n)
                tol[1:-1] = 16 * lib.EPS * e2 / ((1.0 + g1[1:-1] ** 2.0) ** 1.5) + 1e-12 * inner
            if not np.all(np.isfinite(tol)):
                tol = np.zeros(n)
            bar = float(np.max(inner - tol[1:-1]))
            rec.check(kap[int(k)] + tol[int(k)] >= bar, 'curvature:not-the-interior-maximum',
                      'k=%d kappa=%r (+-%r) max=%r at %d' % (k, float(kap[int(k)]), float(tol[int(k)]), mx, int(np.argmax(inner)) + 1))
            srt = np.sort(inner)
            if len(srt) >= 2 and srt[-2] < mx * (1 - 1e-6) and mx > 4 * float(np.max(tol)):
                decided += 1
        else:
            rec.tag('curvature:nonfinite')

    # ---------------- DFDT (reference refinement loop, tie-tolerant)
    k = rec.call(n + 4, L.dfdt.knee, p, _site='dfdt.knee')
    if k is not FAILED and interior('dfdt', k):
        g = grad.cfd(x, y)
        knee = cutoff = 0
        last = -1
        tie = not np.all(np.isfinite(g))
        iters = 0
        while last < knee and (n - cutoff) > 2 and not tie:
            last = knee
            tail = g[cutoff:]
            t, unstable = isodata_ref(tail)
            if unstable:
                tie = True
                break
            diff = np.absolute(tail - t)[1:-1]
            j = int(np.argmin(diff))
            srt = np.sort(diff)
            if len(srt) >= 2 and srt[1] <= srt[0] + 1e-12 * max(abs(t), float(np.max(np.abs(tail))), 1e-300):
                tie = True
                break
            knee = j + 1 + cutoff
            cutoff = int(math.ceil(knee / 2.0))
            iters += 1
        if tie:
            rec.tag('dfdt:tie')
        else:
            rec.check(int(k) == knee, 'dfdt:differs-from-reference-loop', 'got %r want %r (iterations %d)' % (k, knee, iters))
            decided += 1
            if iters >= 2:
                rec.tag('dfdt:refined')

    # ---------------- Menger
    k = rec.call(8, L.menger.knee, p, _site='menger.knee')
    if k is not FAILED and interior('menger', k, 0, n - 2):
        ref = [0.0] + [menger_ref(p, i) for i in range(1, n - 1)] + [0.0]
        mx = max(ref)
        scale = float(np.max(np.abs(p))) or 1.0
        # conditioning of the cross product: absolute error of kappa_i ~ eps*scale*(l1+l2)/(l1*l2*l3)
        tols = [0.0] * n
        for i in range(1, n - 1):
            l1 = math.hypot(*(p[i] - p[i - 1])); l2 = math.hypot(*(p[i + 1] - p[i])); l3 = math.hypot(*(p[i + 1] - p[i - 1]))
            tols[i] = 1e-9 * ref[i] + 128 * EPS * (scale * (l1 + l2) + l1 * l2) / (l1 * l2 * l3)
        tmax = max(tols)
        rec.check(ref[int(k)] >= mx - tols[int(k)] - tmax, 'menger:not-the-maximum',
                  'k=%d kappa=%r max=%r at %d' % (k, ref[int(k)], mx, ref.index(mx)))
        srt = sorted(ref)
        if srt[-2] < mx - 4 * tmax - 1e-6 * mx:
            rec.check(int(k) == ref.index(mx), 'menger:not-the-unique-maximum', 'k=%d argmax=%d' % (k, ref.index(mx)))
            decided += 1

    # ---------------- L-method
    if n >= 5:
        lm = L.lmethod
        fit, cost = case['fit'], case['cost']
        Fit, Cost = getattr(lm.Fit, fit), getattr(lm.Cost, cost)
        rec.tag('lmethod:%s/%s/%s' % (fit, cost, case['ref']))
        out = rec.call(8, lm.get_knee, x, y, Fit, Cost, _site='lmethod.get_knee')
        if out is not FAILED and rec.check(isinstance(out, tuple) and len(out) == 3, 'lmethod.get_knee:shape', repr(out)[:80]):
            k = out[0]
            if interior('lmethod.get_knee', k, 2, n - 3):
                k = int(k)
                bounds = lmethod_bounds(x, y, fit, cost)
                length = x[-1] - x[0]
                errs = {}
                bad = False
                for i in range(2, n - 2):
                    e = rec.call(8, lm.compute_error, x, y, i, length, Fit, Cost, _site='lmethod.compute_error')
                    if e is FAILED:
                        bad = True
                        break
                    errs[i] = float(e[0])
                    lo, hi = bounds[i]
                    if not (lo <= errs[i] <= hi):
                        rec.fail('lmethod.compute_error:outside-reference-interval',
                                 'split %d impl=%r ref=[%r,%r] fit=%s cost=%s' % (i, errs[i], lo, hi, fit, cost))
                        bad = True
                        break
                if not bad:
                    best_hi = min(hi for lo, hi in bounds.values())
                    rec.check(bounds[k][0] <= best_hi, 'lmethod.get_knee:not-a-minimiser',
                              'k=%d interval=%r but some split has error <= %r' % (k, bounds[k], best_hi))
                    cands = [i for i, (lo, hi) in bounds.items() if lo <= best_hi]
                    if len(cands) == 1:
                        decided += 1
                    # any minimiser of the library's own compute_error is "the" minimiser the statement
                    # speaks of (which of several exactly tied splits is returned is left open)
                    mn = min(errs.values())
                    first = min(i for i, v in errs.items() if v == mn)
                    rec.check(errs[k] == mn, 'lmethod.get_knee:not-a-minimum-of-compute_error',
                              'k=%d error %r but split %d has error %r' % (k, errs[k], first, mn))
        Ref = getattr(lm.Refinement, case['ref'])
        kk = rec.call(2 * n + 16, lm.knee, p, Fit, Ref, case['limit'], _site='lmethod.knee')
        if kk is not FAILED and interior('lmethod.knee', kk, 2, n - 3):
            pk = lib.guard.last_peak()
            its = max(pk.values()) if pk else 0
            if its >= 3:
                rec.tag('lmethod.knee:refined')
                rec.nontrivial = True
            if case['ref'] == 'none':
                o2 = rec.call(8, lm.get_knee, x, y, Fit, _site='lmethod.get_knee')
                if o2 is not FAILED:
                    rec.check(int(kk) == int(o2[0]), 'lmethod.knee:none-differs-from-get_knee', (kk, o2[0]))
    if decided >= 2:
        rec.nontrivial = True
    rec.tag('decided:%d' % decided)


@st.composite
def refine_cases(draw, tier):
    c = draw(S.curves(5, 30 if tier == 'quick' else 120,
                      families=['quant', 'quant', 'plateau', 'steps', 'mono_dec', 'noise', 'pwl_dyadic', 'convex', 'trace'],
                      scales=False, big_n=100 if tier == 'quick' else 300))
    n = len(c['pts'])
    return {'family': c['family'], 'pts': c['pts'], 'fit': draw(st.sampled_from(FITS)),
            'ref': draw(st.sampled_from(['original', 'original', 'adjusted'])),
            'limit': draw(st.one_of(st.sampled_from([4, 5, 10]), st.integers(4, n + 5)))}


def oracle_refine(case, rec):
    """Termination of the iterative refinement (cheap, so it gets a large budget)."""
    L = lib.lib()
    lm = L.lmethod
    p = lib.pts_of(case)
    n = len(p)
    rec.tag('refine:%s/%s' % (case['fit'], case['ref']), 'family:' + case['family'])
    k = rec.call(2 * n + 16, lm.knee, p, getattr(lm.Fit, case['fit']), getattr(lm.Refinement, case['ref']),
                 case['limit'], _site='lmethod.knee')
    if k is FAILED:
        rec.nontrivial = True
        return
    try:
        ok = 2 <= int(k) <= n - 3
    except (TypeError, ValueError):
        ok = False
    rec.check(ok, 'lmethod.knee:not-an-interior-index', 'returned %r, n=%d' % (k, n))
    pk = lib.guard.last_peak()
    its = max(pk.values()) if pk else 0
    rec.tag('refine-iterations:%s' % ('1-2' if its <= 3 else '3-4' if its <= 5 else '5+'))
    rec.nontrivial = its >= 4


def examples(tier):
    # a noisy curve on which Refinement.original cycled between two knees on the pinned tree
    pts = [[0, 9.1], [1, 7.2], [2, 7.9], [3, 5.1], [4, 5.6], [5, 3.2], [6, 3.9], [7, 2.8], [8, 3.1], [9, 2.7]]
    return [{'family': 'noisy', 'pts': [[float(a), float(b)] for a, b in pts], 'fit': f, 'cost': 'rmse',
             'ref': 'original', 'limit': lim} for f in FITS for lim in (4, 5, 10)]


@st.composite
def lmethod_long_cases(draw, tier):
    n = draw(st.integers(105, 400 if tier == 'quick' else 1200))
    kind = draw(st.sampled_from(['cliff', 'cliff', 'cliff', 'hyperbola', 'noisy', 'two-knees']))
    x = [float(i) for i in range(n)]
    if kind == 'cliff':       # plateau, sharp drop, flat tail: the error profile has an early local minimum
        p1 = draw(st.integers(20, max(21, n - 30)))
        w = draw(st.integers(1, 8))
        hi, lo = draw(st.sampled_from([(100.0, 1.0), (10.0, 0.0), (1.0, 0.5)]))
        y = [hi - 0.001 * i if i < p1 else (max(lo, hi - (hi - lo) * (i - p1) / w)) - 0.0005 * i * (lo > 0) for i in range(n)]
        y = [max(v, 0.0) for v in y]
    elif kind == 'hyperbola':
        a = draw(st.sampled_from([2.0, 15.0, 80.0]))
        y = [a / (i + a) for i in range(n)]
    elif kind == 'two-knees':
        k1 = draw(st.integers(5, n // 3)); k2 = draw(st.integers(n // 2, n - 10))
        y = [30.0 - 15.0 * i / k1 if i < k1 else (15.0 - 10.0 * (i - k1) / (k2 - k1) if i < k2 else 5.0 - 4.0 * (i - k2) / (n - k2)) for i in range(n)]
    else:
        vals = draw(st.lists(st.integers(0, 50), min_size=n, max_size=n))
        y = [float(v) for v in sorted(vals, reverse=True)]
    return {'family': 'lmethod-long:' + kind, 'pts': [[a, b] for a, b in zip(x, y)],
            'fit': draw(st.sampled_from(FITS)), 'cost': draw(st.sampled_from(COSTS))}


def oracle_lmethod_long(case, rec):
    """get_knee must return a minimiser (exact comparison) of the library's own compute_error over ALL splits
    2..n-3 (exact comparison; compute_error itself is validated on short curves by `detectors`)."""
    L = lib.lib()
    lm = L.lmethod
    p = lib.pts_of(case)
    n = len(p)
    x, y = p[:, 0].copy(), p[:, 1].copy()
    Fit, Cost = getattr(lm.Fit, case['fit']), getattr(lm.Cost, case['cost'])
    rec.tag(case['family'], 'lmethod-long:%s/%s' % (case['fit'], case['cost']))
    out = rec.call(8, lm.get_knee, x, y, Fit, Cost, _site='lmethod.get_knee')
    if out is FAILED or not rec.check(isinstance(out, tuple) and len(out) == 3, 'lmethod.get_knee:shape', repr(out)[:80]):
        return
    try:
        k = int(out[0])
    except (TypeError, ValueError):
        rec.fail('lmethod.get_knee:not-an-interior-index', repr(out[0]))
        return
    if not rec.check(2 <= k <= n - 3, 'lmethod.get_knee:not-an-interior-index', (k, n)):
        return
    length = x[-1] - x[0]
    errs = []
    for i in range(2, n - 2):
        e = rec.call(8, lm.compute_error, x, y, i, length, Fit, Cost, _site='lmethod.compute_error')
        if e is FAILED:
            return
        errs.append(float(e[0]))
    if any(v != v for v in errs):
        rec.tag('lmethod-long:nan-error-skipped')
        return
    mn = min(errs)
    first = 2 + errs.index(mn)
    rec.check(errs[k - 2] == mn, 'lmethod.get_knee:not-a-minimum-of-compute_error',
              'returned %d (error %r) but split %d has error %r; n=%d fit=%s cost=%s' % (k, errs[k - 2], first, mn, n, case['fit'], case['cost']))
    rec.nontrivial = sorted(errs)[1] > mn


SUBS = [Sub('detectors', oracle, strategy=cases, budget={'quick': 6400, 'thorough': 64000}, examples=examples),
        Sub('lmethod_long', oracle_lmethod_long, strategy=lmethod_long_cases, budget={'quick': 960, 'thorough': 9600}),
        Sub('refine', oracle_refine, strategy=refine_cases, budget={'quick': 48000, 'thorough': 640000})]
