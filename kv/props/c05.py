"""C05 - fixed-size simplification is an exact-size, nested greedy refinement."""
import numpy as np
from hypothesis import strategies as st

from .. import lib, strategies as S
from ..lib import FAILED, EPS
from ..runner import Sub
from .c04 import dist_fn

ID = 'C05'
TECHNIQUE = 'model-based PBT over the history k = 0..n+1 (complete chain) + single refinement steps on larger curves'
LEVEL_TEXT = 'Exploration: Size, nesting, farthest-point and max-score clauses checked at every chain step; chains are complete only for n <= 30|100. Finds counter-examples (shrunk to a replay file); never proves absence.'
RULE = ('Case = (performance curve, distance, ordering); the history is the complete chain rdp_fixed(k) for '
        'k = 0, 1, ..., n+1 on that curve, checked step by step: |S_k| = min(max(k,2), n); S_k subset of '
        'S_{k+1} with exactly one new index s; s strictly inside a segment (l, r) of S_k; s is a farthest '
        'interior point of that segment up to 64*eps*scale (by the library distance primitive AND by distances '
        'computed from the geometric definition); the segment score '
        '(triangle = 1/2*|chord|*max d, area = sum d, segment = endpoint-fit residual) recomputed from the '
        'segment alone is maximal among segments of S_k with interior points (1e-9 relative; for Order.segment '
        'also with residual sums computed from the definition, independent of the library).  Non-trivial: a '
        'chain step in which >= 2 splittable segments compete.  Distinct by digest of (curve, distance, order).')
ASSUMPTIONS = ['distance and residual primitives are validated independently by C16/C17']


@st.composite
def cases(draw, tier):
    c = draw(S.curves(2, 30 if tier == 'quick' else 100, big_n=70 if tier == 'quick' else 200))
    return {'family': c['family'], 'pts': c['pts'], 'distance': draw(st.sampled_from(S.DISTANCES)),
            'order': draw(st.sampled_from(S.ORDERS)), 'np_int': draw(st.booleans())}


def seg_score(p, l, r, order, D):
    L = lib.lib()
    pt = p[l:r + 1]
    with np.errstate(all='ignore'):
        if order == 'segment':
            return float(L.lf.linear_fit_residuals_points(pt))
        d = np.asarray(D(pt, pt[0], pt[-1]), dtype=float)
        if order == 'triangle':
            return float(0.5 * np.linalg.norm(pt[0] - pt[-1]) * d.max())
        return float(np.sum(d))


def segment_score_ref(p, a, b):
    """Order.segment's score written from its definition - the sum of squared residuals of the line
    through the segment's end points - evaluated relative to the first point (no cancellation), and
    the forward error bound of a plain evaluation y - (m*x + b) of the same quantity."""
    x = p[a:b + 1, 0].astype(float)
    y = p[a:b + 1, 1].astype(float)
    m = (y[-1] - y[0]) / (x[-1] - x[0])
    r = (y - y[0]) - m * (x - x[0])
    e = 8 * EPS * (np.abs(y) + np.abs(m * x) + abs(y[0] - m * x[0]))
    return float(np.sum(r * r)), float(4 * np.sum(2 * np.abs(r) * e + e * e))


def segment_order_ref(rec, p, prev, l, r, k):
    """'that segment attains the maximal ordering score' for Order.segment, with scores that do not
    come from the library: violated only if another splittable segment's score exceeds the split
    segment's by more than both rounding allowances."""
    with np.errstate(all='ignore'):
        mine, am = segment_score_ref(p, l, r)
        best = None
        for a, b in zip(prev[:-1], prev[1:]):
            if b - a >= 2 and (a, b) != (l, r):
                v, av = segment_score_ref(p, a, b)
                if v == v and av == av and (best is None or v - av > best[0] - best[1]):
                    best = (v, av, a, b)
    if best is None or mine != mine or am != am:
        return
    v, av, a, b = best
    rec.check(mine + am >= v - av - 1e-9 * v, 'fixed:segment-not-max-residual-score',
              'k=%d split segment [%d,%d] has endpoint-line residual %r (+-%r) but retained segment [%d,%d] has %r (+-%r)'
              % (k, l, r, mine, am, a, b, v, av))


def geometric_farthest(rec, p, l, r, s, kind, k):
    """The statement's clause itself - no interior point of the split segment is farther from its chord
    than the new index, by more than rounding noise - with distances computed from the geometric
    definition, not by the library primitive the simplifier uses."""
    g = lib.ref_distances(p, l, r, kind)
    if not np.all(np.isfinite(g)):
        rec.tag('geometric-distance:not-finite')
        return
    mx = float(np.max(g[1:-1]))
    noise = 4 * lib.chord_noise(p, l, r) + 1e-12 * mx + EPS
    rec.check(g[s - l] >= mx - noise, 'fixed:new-index-not-farthest-geometrically',
              'k=%d segment [%d,%d] (%s distance) new index %d at distance %r but index %d is at %r'
              % (k, l, r, kind, s, float(g[s - l]), l + 1 + int(np.argmax(g[1:-1])), mx))


def chain(case, rec, p, upto=None):
    """rdp_fixed(k) for k = 0..n+1 as lists of ints (None where the call failed / is malformed)."""
    L = lib.lib()
    n = len(p)
    out = {}
    for k in range(0, (n + 2) if upto is None else upto + 1):
        karg = np.int64(k) if case.get('np_int') else k
        r = rec.call(4 * n + 16, L.rdp.rdp_fixed, p, karg, S.distance_of(case['distance']), S.order_of(case['order']),
                     _site='rdp.rdp_fixed')
        if r is FAILED:
            out[k] = None
            continue
        red = np.asarray(r[0])
        lst = [int(v) for v in red]
        good = len(lst) >= 2 and lst[0] == 0 and lst[-1] == n - 1 and all(a < b for a, b in zip(lst, lst[1:]))
        if not good:
            rec.fail('fixed:malformed', 'k=%d -> %r' % (k, lst))
            out[k] = None
        else:
            out[k] = lst
    return out


def oracle(case, rec):
    p = lib.pts_of(case)
    n = len(p)
    D = dist_fn(case['distance'])
    order = case['order']
    rec.tag('family:' + case['family'], 'cfg:%s/%s' % (case['distance'], order))
    seq = chain(case, rec, p)
    prev = None
    competed = 0
    for k in range(0, n + 2):
        cur = seq[k]
        if cur is None:
            prev = None
            continue
        want = min(max(k, 2), n)
        if not rec.check(len(cur) == want, 'fixed:size', 'k=%d n=%d returned %d indices %r' % (k, n, len(cur), cur)):
            prev = None
            continue
        if k >= n:
            rec.check(cur == list(range(n)), 'fixed:not-all-points-when-k>=n', (k, cur))
        if prev is not None and len(cur) == len(prev):
            rec.check(cur == prev, 'fixed:changed-without-growing', (k, prev, cur))
        elif prev is not None:
            new = sorted(set(cur) - set(prev))
            if not rec.check(len(cur) == len(prev) + 1 and len(new) == 1 and set(prev) <= set(cur), 'fixed:not-nested',
                             'k=%d S_k-1=%r S_k=%r' % (k, prev, cur)):
                prev = cur
                continue
            s = new[0]
            j = int(np.searchsorted(prev, s))
            l, r = prev[j - 1], prev[j]
            if rec.check(l < s < r, 'fixed:new-index-not-inside-a-segment', (s, l, r)):
                with np.errstate(all='ignore'):
                    d = np.asarray(D(p[l:r + 1], p[l], p[r]), dtype=float)
                noise = lib.chord_noise(p, l, r) + 1e-12 * float(np.max(d[1:-1])) + EPS   # EPS: the library's own absolute "all on the chord" guard
                rec.check(d[s - l] >= float(np.max(d[1:-1])) - noise, 'fixed:new-index-not-farthest',
                          'k=%d segment [%d,%d] new %d d=%r max=%r' % (k, l, r, s, float(d[s - l]), float(np.max(d[1:-1]))))
                geometric_farthest(rec, p, l, r, s, case['distance'], k)
                if order == 'segment':
                    segment_order_ref(rec, p, prev, l, r, k)
                scores = [(seg_score(p, a, b, order, D), a, b) for a, b in zip(prev[:-1], prev[1:]) if b - a >= 2]
                mine = seg_score(p, l, r, order, D)
                finite = [v for v, _, _ in scores if v == v]
                if finite and mine == mine:
                    mx = max(finite)
                    rec.check(mine >= mx - 1e-9 * max(abs(mx), 1e-300) - 1e-300, 'fixed:segment-not-max-score',
                              'k=%d order=%s split segment [%d,%d] score %r but best is %r: %r' % (k, order, l, r, mine, mx, scores[:6]))
                    if len(scores) >= 2:
                        competed += 1
                        if sorted(finite)[-2] < mx * (1 - 1e-6):
                            rec.count('steps:decided-competition')
                else:
                    rec.tag('nan-score')
        prev = cur
    rec.count('chain-steps', n + 2)
    rec.nontrivial = competed >= 1


@st.composite
def step_cases(draw, tier):
    """One refinement step k -> k+1 on a larger curve (the full chain costs ~n^2 library calls)."""
    c = draw(S.curves(60, 200 if tier == 'quick' else 500, families=['noise', 'mono_dec', 'convex', 'trace', 'plateau', 'pwl_rational', 'offset', 'quant']))
    n = len(c['pts'])
    return {'family': c['family'], 'pts': c['pts'], 'distance': draw(st.sampled_from(S.DISTANCES)),
            'order': draw(st.sampled_from(S.ORDERS)), 'k': draw(st.integers(2, n))}


def oracle_step(case, rec):
    L = lib.lib()
    p = lib.pts_of(case)
    n = len(p)
    D = dist_fn(case['distance'])
    order = case['order']
    k = case['k']
    rec.tag('step:family:' + case['family'], 'step:k>%d' % (32 * (k // 32)))
    sets = []
    for kk in (k, k + 1):
        r = rec.call(4 * n + 16, L.rdp.rdp_fixed, p, kk, S.distance_of(case['distance']), S.order_of(order), _site='rdp.rdp_fixed')
        if r is FAILED:
            return
        lst = [int(v) for v in np.asarray(r[0])]
        if not rec.check(len(lst) >= 2 and lst[0] == 0 and lst[-1] == n - 1 and all(a < b for a, b in zip(lst, lst[1:])), 'fixed:malformed', (kk, lst[:20])):
            return
        if not rec.check(len(lst) == min(max(kk, 2), n), 'fixed:size', 'k=%d n=%d returned %d indices' % (kk, n, len(lst))):
            return
        sets.append(lst)
    prev, cur = sets
    if len(cur) == len(prev):
        rec.check(cur == prev, 'fixed:changed-without-growing', (k,))
        return
    new = sorted(set(cur) - set(prev))
    if not rec.check(len(new) == 1 and set(prev) <= set(cur), 'fixed:not-nested', 'k=%d new=%r' % (k, new[:5])):
        return
    s = new[0]
    j = int(np.searchsorted(prev, s))
    l, r = prev[j - 1], prev[j]
    if not rec.check(l < s < r, 'fixed:new-index-not-inside-a-segment', (s, l, r)):
        return
    with np.errstate(all='ignore'):
        d = np.asarray(D(p[l:r + 1], p[l], p[r]), dtype=float)
    noise = lib.chord_noise(p, l, r) + 1e-12 * float(np.max(d[1:-1])) + EPS   # EPS: the library's own absolute "all on the chord" guard
    rec.check(d[s - l] >= float(np.max(d[1:-1])) - noise, 'fixed:new-index-not-farthest', 'k=%d segment [%d,%d] new %d' % (k, l, r, s))
    geometric_farthest(rec, p, l, r, s, case['distance'], k)
    if order == 'segment':
        segment_order_ref(rec, p, prev, l, r, k)
    scores = [(seg_score(p, a, b, order, D), a, b) for a, b in zip(prev[:-1], prev[1:]) if b - a >= 2]
    mine = seg_score(p, l, r, order, D)
    finite = [v for v, _, _ in scores if v == v]
    if finite and mine == mine:
        mx = max(finite)
        rec.check(mine >= mx - 1e-9 * max(abs(mx), 1e-300) - 1e-300, 'fixed:segment-not-max-score',
                  'k=%d order=%s split segment [%d,%d] score %r but best is %r (%d open segments)' % (k, order, l, r, mine, mx, len(scores)))
        rec.nontrivial = len(scores) >= 2
        if len(scores) > 32:
            rec.tag('step:>32-open-segments')


SUBS = [Sub('chain', oracle, strategy=cases, budget={'quick': 3200, 'thorough': 48000}),
        Sub('step', oracle_step, strategy=step_cases, budget={'quick': 1600, 'thorough': 24000})]
