"""C04 - threshold RDP keeps a segment only if it fits and splits only where it must."""
import numpy as np
from hypothesis import strategies as st

from .. import lib, strategies as S
from ..lib import FAILED, EPS
from ..runner import Sub
from .c01 import well_formed

ID = 'C04'
TECHNIQUE = 'PBT + recursive validity predicate (memoised) over the returned index set using independently validated cost/distance primitives'
LEVEL_TEXT = 'Exploration: Accept/reject and farthest-point clauses are checked on every retained segment and every split of ~9.6k cases (+ 17k-40k point curves). Finds counter-examples (shrunk to a replay file); never proves absence.'
RULE = ('Cases = (performance curve x 5 metrics x 2 distances x boundary-aware threshold: with probability ~1/2 '
        't equals the cost of an actual sub-range of the curve).  Oracle = validity predicate over the returned '
        'index set K using the library primitives on the same sub-arrays (bit-identical floats): explain(l, r) '
        'holds iff K has no interior index and the segment is accepted (cost < t, R2 >= t, or <= 2 points), or '
        'the segment is rejected and some retained s in (l, r) is a farthest interior point up to rounding '
        'noise 64*eps*scale with explain(l, s) and explain(s, r).  Non-trivial: >= 1 split and >= 1 accepted '
        'segment with interior points.  Distinct by digest of the case.')
ASSUMPTIONS = ['cost primitive = linear_fit.<metric>_points(pt, lf.linear_fit_points(pt)) and the distance '
               'primitives are validated independently by C16/C17; rdp.compute_cost_coef must agree bit-for-bit']


@st.composite
def cases(draw, tier):
    c = draw(S.curves(2, 40 if tier == 'quick' else 200, big_n=160 if tier == 'quick' else 600))
    metric = draw(st.sampled_from(S.METRICS))
    return {'family': c['family'], 'pts': c['pts'], 'metric': metric,
            'distance': draw(st.sampled_from(S.DISTANCES)), 't': draw(S.thresholds(c['pts'], metric))}


# the endpoint-line cost of a segment, from the linear-fit wrappers that C16 checks against the
# textbook definitions (not through rdp.compute_cost_coef, whose dispatch is itself under test)
WRAPPERS = {'r2': lambda L: L.lf.linear_r2_points, 'rmspe': lambda L: L.lf.rmspe_points,
            'rmsle': lambda L: L.lf.rmsle_points, 'smape': lambda L: L.lf.smape_points,
            'rpd': lambda L: L.lf.rpd_points}


def dist_fn(name):
    L = lib.lib()
    return L.lf.shortest_distance_points if name == 'shortest' else L.lf.perpendicular_distance_points


def accept(c, t, metric):
    return (c >= t) if metric == 'r2' else (c < t)


def oracle(case, rec, pts=None):
    L = lib.lib()
    p = lib.pts_of(case) if pts is None else pts
    n = len(p)
    metric, t = case['metric'], case['t']
    M = S.metric_of(metric)
    D = dist_fn(case['distance'])
    rec.tag('family:' + case['family'], 'cfg:%s/%s' % (metric, case['distance']))
    out = rec.call(4 * n + 16, L.rdp.rdp, p, t, S.distance_of(case['distance']), M, _site='rdp.rdp')
    if out is FAILED or not well_formed(rec, out, n, 'c01:'):
        return
    K = [int(v) for v in out[0]]
    Kset = set(K)
    stats = {'splits': 0, 'accepted_inner': 0, 'boundary': 0}
    cost_cache = {}

    def cost(l, r):
        if (l, r) not in cost_cache:
            pt = p[l:r + 1]
            if len(pt) <= 2:
                cost_cache[(l, r)] = 1.0 if metric == 'r2' else 0.0
            else:
                with np.errstate(all='ignore'):
                    coef = L.lf.linear_fit_points(pt)
                    c = float(WRAPPERS[metric](L)(pt, coef))
                    via = float(L.rdp.compute_cost_coef(pt, coef, M))
                # the simplifier decides with compute_cost_coef; it must be the endpoint-line cost of
                # the stated metric up to rounding (a different evaluation order is not a violation,
                # a different quantity is)
                if c == via or (c != c and via != via) or abs(c - via) <= 1e-9 * max(abs(c), abs(via)):
                    c = via
                else:
                    rec.fail('cost:compute_cost_coef-differs-from-endpoint-line-%s' % metric,
                             'segment [%d,%d]: compute_cost_coef=%r, linear_fit wrapper=%r' % (l, r, via, c))
                cost_cache[(l, r)] = c
        return cost_cache[(l, r)]

    why = []

    memo = {}

    def explain(l, r, depth=0):
        # explain(l, r) depends only on (l, r) for the fixed index set K: memoised, so a wrong K
        # costs O(|K|^2) sub-problems instead of an exponential backtracking search
        if (l, r) not in memo:
            memo[(l, r)] = explain_(l, r, depth)
        return memo[(l, r)]

    import bisect

    def explain_(l, r, depth=0):
        inner = K[bisect.bisect_right(K, l):bisect.bisect_left(K, r)]
        c = cost(l, r)
        if c == t:
            stats['boundary'] += 1
        if c != c:
            # NaN cost (e.g. RMSLE of a prediction that rounding pushed below -1 at magnitudes of
            # 1e15): the comparison with t is undefined, either decision is accepted
            stats['nan'] = stats.get('nan', 0) + 1
        if not inner:
            ok = r - l < 2 or accept(c, t, metric) or c != c
            if not ok:
                why.append('segment [%d,%d] retained with cost %r on the rejecting side of t=%r' % (l, r, c, t))
            elif r - l >= 2:
                stats['accepted_inner'] += 1
            return ok
        if accept(c, t, metric) and not (c != c):
            why.append('range [%d,%d] has cost %r on the accepting side of t=%r but was split at %r' % (l, r, c, t, inner))
            return False
        with np.errstate(all='ignore'):
            d = np.asarray(D(p[l:r + 1], p[l], p[r]), dtype=float)
        mx = float(np.max(d[1:-1]))
        noise = lib.chord_noise(p, l, r) + 1e-12 * mx
        cands = [s for s in inner if d[s - l] >= mx - noise]
        if not cands:
            why.append('range [%d,%d]: no retained index is a farthest interior point (max %r, retained %r)' %
                       (l, r, mx, [(s, float(d[s - l])) for s in inner]))
            return False
        for s in cands:
            mark = len(why)
            if explain(l, s, depth + 1) and explain(s, r, depth + 1):
                stats['splits'] += 1
                return True
            if len(cands) > 1:
                del why[mark + 3:]
        return False

    ok = explain(0, n - 1)
    if not ok:
        first = why[0] if why else 'unexplained'
        kind = 'kept-unfit-segment' if 'retained with cost' in first else \
            'split-of-fitting-range' if 'accepting side' in first else 'split-not-at-farthest-point'
        rec.fail('rdp:' + kind, '%s; K=%r t=%r metric=%s distance=%s' % (first, K, t, metric, case['distance']))
    rec.nontrivial = stats['splits'] >= 1 and stats['accepted_inner'] >= 1
    if stats['boundary']:
        rec.tag('threshold-equals-a-cost')
    if stats.get('nan'):
        rec.tag('nan-cost-undecided')
    rec.tag('depth:%s' % ('0' if stats['splits'] == 0 else '1-3' if stats['splits'] <= 3 else '4+'))


@st.composite
def huge_cases(draw, tier):
    """Long curves (block-wise / cached fast paths only show above ~16k points)."""
    from .c01 import smooth_curve  # noqa: F401
    n = draw(st.sampled_from([17000, 20000, 33000, 40000] if tier == 'quick' else [17000, 20000, 33000, 40000, 70000]))
    metric = draw(st.sampled_from(S.METRICS))
    t = draw(st.sampled_from([0.3, 0.5, 0.7, 0.9] if metric != 'r2' else [0.5, 0.8, 0.9]))
    return {'family': 'huge', 'n': n, 'curve': draw(st.sampled_from(['hyperbola', 'exp', 'sqrt'])),
            'a': draw(st.sampled_from([3.0, 20.0, 100.0])), 'ripple': draw(st.integers(0, 2)),
            'metric': metric, 'distance': draw(st.sampled_from(S.DISTANCES)), 't': t}


def oracle_huge(case, rec):
    from .c01 import smooth_curve
    case = dict(case)
    case['pts'] = smooth_curve(case['n'], case['curve'], case['a'], case['ripple'])
    oracle(case, rec, pts=case['pts'])


SUBS = [Sub('rdp', oracle, strategy=cases, budget={'quick': 9600, 'thorough': 160000}),
        Sub('huge', oracle_huge, strategy=huge_cases, budget={'quick': 48, 'thorough': 480})]
