"""C01 - every simplifier terminates (loop bound linear in n) with a well-formed reduction."""
import numpy as np
from hypothesis import strategies as st

from .. import lib, strategies as S
from ..lib import FAILED
from ..runner import Sub

ID = 'C01'
TECHNIQUE = 'PBT (Hypothesis, 16 shards) + validity predicate + deterministic loop-bound guard (sys.monitoring)'
LEVEL_TEXT = 'Exploration: Termination within a linear loop bound and well-formedness of (reduced, removed) are decided on ~10k generated (curve, simplifier, configuration) cases per quick run incl. 4k-20k point curves and magnitudes 1e-300..1e300; exploration only, absence is not established. Finds counter-examples (shrunk to a replay file); never proves absence.'
RULE = ('Cases = (performance curve from 13 constructive families incl. exact/near collinear runs, '
        'zeros, plateaus, magnitudes 1e-9..1e15; simplifier in {rdp, grdp, rdp_fixed, mp_grdp, '
        'min_point_rdp}; Distance x Metrics x Order; boundary-aware threshold; length/min_points '
        'in 0..n+3).  Non-trivial: n >= 3 and (>= 1 interior index retained and >= 1 dropped, or '
        'the curve contains an exactly collinear triple or a zero y).  Distinct by digest of the '
        'whole case.')
ASSUMPTIONS = ['RuntimeWarnings of the numeric kernels are not failures',
               'loop bound 4n+16 executions of any while header per function invocation']

SIMPLIFIERS = ['rdp', 'grdp', 'rdp_fixed', 'mp_grdp', 'min_point_rdp']


@st.composite
def cases(draw, tier):
    max_n = 40 if tier == 'quick' else 160
    c = draw(S.curves(2, max_n, big_n=200 if tier == 'quick' else 600))
    n = len(c['pts'])
    simp = draw(st.sampled_from(SIMPLIFIERS))
    case = {'family': c['family'], 'pts': c['pts'], 'simplifier': simp}
    if simp in ('rdp', 'grdp', 'mp_grdp'):
        case['metric'] = draw(st.sampled_from(S.METRICS))
        case['t'] = draw(S.thresholds(c['pts'], case['metric']))
    if simp != 'min_point_rdp':
        case['distance'] = draw(st.sampled_from(S.DISTANCES))
    if simp in ('grdp', 'rdp_fixed', 'mp_grdp'):
        case['order'] = draw(st.sampled_from(S.ORDERS))
    if simp in ('rdp_fixed', 'mp_grdp', 'min_point_rdp'):
        case['length'] = draw(st.integers(0, n + 3))
    if simp == 'min_point_rdp':
        case['ts'] = draw(st.lists(S.thresholds(c['pts'], 'smape'), min_size=1, max_size=4))
    case['np_int'] = draw(st.booleans())
    case['int_points'] = draw(st.booleans())
    if simp == 'min_point_rdp' and draw(st.integers(0, 7)) == 0:
        case['ts'] = []          # no threshold listed: the fixed-size result for min_points
    return case


def call_simplifier(case, rec, pts=None):
    """Invoke the simplifier named in the case under the loop guard; returns (reduced, removed)
    or FAILED."""
    L = lib.lib()
    p = lib.pts_of(case) if pts is None else pts
    n = len(p)
    bound = 4 * n + 16
    simp = case['simplifier']
    length = case.get('length')
    if length is not None and case.get('np_int'):
        length = np.int64(length)        # sizes often arrive as NumPy integers (np.sum(mask), rng.integers, ...)
    if simp == 'rdp':
        return rec.call(bound, L.rdp.rdp, p, case['t'], S.distance_of(case['distance']),
                        S.metric_of(case['metric']), _site='rdp.rdp')
    if simp == 'grdp':
        return rec.call(bound, L.rdp.grdp, p, case['t'], S.distance_of(case['distance']),
                        S.metric_of(case['metric']), S.order_of(case['order']), _site='rdp.grdp')
    if simp == 'rdp_fixed':
        return rec.call(bound, L.rdp.rdp_fixed, p, length, S.distance_of(case['distance']),
                        S.order_of(case['order']), _site='rdp.rdp_fixed')
    if simp == 'mp_grdp':
        return rec.call(bound, L.rdp.mp_grdp, p, case['t'], length,
                        S.distance_of(case['distance']), S.metric_of(case['metric']),
                        S.order_of(case['order']), _site='rdp.mp_grdp')
    return rec.call(bound, L.rdp.min_point_rdp, p, list(case['ts']), length,
                    _site='rdp.min_point_rdp')


def well_formed(rec, out, n, prefix=''):
    """The structural clauses of C01 on a (reduced, removed) pair.  Returns True if all hold."""
    if not rec.check(isinstance(out, tuple) and len(out) == 2, prefix + 'shape:not-a-pair', repr(out)[:200]):
        return False
    reduced, removed = out
    reduced = np.asarray(reduced)
    removed = np.asarray(removed)
    ok = rec.check(reduced.ndim == 1 and len(reduced) >= 1 and
                   np.all(np.asarray(reduced, dtype=float) == np.floor(np.asarray(reduced, dtype=float))),
                   prefix + 'reduced:not-integer-vector', repr(reduced)[:200])
    if not ok:
        return False
    r = [int(v) for v in reduced]
    ok &= rec.check(all(a < b for a, b in zip(r, r[1:])), prefix + 'reduced:not-strictly-increasing', r)
    ok &= rec.check(r[0] == 0, prefix + 'reduced:first-not-0', r)
    ok &= rec.check(r[-1] == n - 1, prefix + 'reduced:last-not-n-1', (r, n))
    if not ok:
        return False
    want = [[a, b - a - 1] for a, b in zip(r, r[1:])]
    if len(want) == 0:
        ok &= rec.check(removed.size == 0, prefix + 'removed:rows', (removed.tolist(), want))
    else:
        good = removed.ndim == 2 and removed.shape == (len(want), 2) and \
            [[int(a), int(b)] for a, b in removed.tolist()] == want and \
            np.all(removed == np.asarray(want))
        ok &= rec.check(good, prefix + 'removed:rows', (removed.tolist(), want))
        if good:
            ok &= rec.check(len(r) + int(sum(b for _, b in want)) == n, prefix + 'removed:count', (r, n))
    return ok


def has_special(p):
    """Exactly collinear triple or a zero y (the classes in which the hang/duplicate defects live)."""
    if np.any(p[:, 1] == 0):
        return True
    for i in range(len(p) - 2):
        a, b, c = p[i], p[i + 1], p[i + 2]
        if (b[0] - a[0]) * (c[1] - a[1]) == (c[0] - a[0]) * (b[1] - a[1]):
            return True
    return False


def oracle(case, rec):
    p = lib.pts_of(case)
    if case.get('int_points') and np.all(p == np.floor(p)) and float(np.max(np.abs(p))) < 2 ** 30:
        p = p.astype(np.int64)           # an integer-typed curve is the same curve
        p.setflags(write=False)
        rec.tag('points:int64')
    n = len(p)
    rec.tag('family:' + case['family'], 'simplifier:' + case['simplifier'])
    if 'metric' in case:
        rec.tag('cfg:%s/%s/%s' % (case['simplifier'], case.get('distance'), case['metric']))
    if 'order' in case:
        rec.tag('order:%s/%s' % (case['simplifier'], case['order']))
    out = call_simplifier(case, rec, p)
    if out is FAILED:
        rec.nontrivial = n >= 3
        return
    if well_formed(rec, out, n):
        k = len(out[0])
        rec.nontrivial = n >= 3 and ((2 < k < n) or has_special(p))
        rec.tag('kept:' + ('2' if k == 2 else 'all' if k == n else 'some'))
    else:
        rec.nontrivial = n >= 3


def examples(tier):
    out = []
    for pts in S.REPO_CURVES:
        pts = [[float(a), float(b)] for a, b in pts]
        for simp in SIMPLIFIERS:
            for dist in S.DISTANCES:
                out.append({'family': 'repo', 'pts': pts, 'simplifier': simp, 'metric': 'smape',
                            't': 0.01, 'distance': dist, 'order': 'segment', 'length': 3,
                            'ts': [0.01, 0.001, 0.0001]})
    return out


def smooth_curve(n, kind, a, noise_seed):
    """Deterministic long miss-ratio-like curve (the case stores only its parameters)."""
    x = np.arange(1, n + 1, dtype=float)
    if kind == 'hyperbola':
        y = a / (x + a)
    elif kind == 'exp':
        y = np.exp(-x / (a * n / 50.0))
    elif kind == 'steps':
        y = np.floor((1.0 - x / n) * a) / a
    else:
        y = 1.0 / np.sqrt(x / a + 1.0)
    if noise_seed:
        # cheap deterministic ripple (no RNG): breaks monotonicity a little
        y = y + 1e-3 * np.sin(x * (0.37 + 0.01 * noise_seed)) * y
        y = np.maximum(y, 0.0)
    return np.column_stack((x, y))


@st.composite
def huge_cases(draw, tier):
    """Long traces (fast paths, windowing, chunking only show above a few thousand points)."""
    base = draw(st.sampled_from([4096, 8192, 16384, 5000, 9001]))
    n = base + draw(st.sampled_from([0, 1, 1, 2, 17])) if draw(st.booleans()) else draw(st.integers(4097, 20000 if tier == 'quick' else 60000))
    simp = draw(st.sampled_from(['rdp', 'rdp', 'rdp', 'grdp', 'rdp_fixed', 'mp_grdp', 'min_point_rdp']))
    case = {'family': 'huge', 'n': n, 'curve': draw(st.sampled_from(['hyperbola', 'exp', 'steps', 'sqrt'])),
            'a': draw(st.sampled_from([3.0, 20.0, 100.0])), 'ripple': draw(st.integers(0, 3)), 'simplifier': simp,
            'metric': draw(st.sampled_from(S.METRICS)), 'distance': draw(st.sampled_from(S.DISTANCES)),
            'order': draw(st.sampled_from(S.ORDERS)), 'length': draw(st.integers(2, 12)), 'ts': [0.1, 0.05]}
    case['t'] = draw(st.sampled_from([0.9, 0.99] if case['metric'] == 'r2' else [0.01, 0.05, 0.2]))
    if simp in ('grdp', 'mp_grdp'):     # keep the global variants cheap: coarse thresholds only
        case['t'] = 0.5 if case['metric'] == 'r2' else 0.3
    return case


def oracle_huge(case, rec):
    p = smooth_curve(case['n'], case['curve'], case['a'], case['ripple'])
    n = len(p)
    rec.tag('huge:' + case['simplifier'], 'huge:n>%d' % (4096 * (n // 4096)))
    out = call_simplifier(case, rec, p)
    rec.nontrivial = True
    if out is FAILED:
        return
    well_formed(rec, out, n)


@st.composite
def extreme_cases(draw, tier):
    """Huge / tiny magnitudes far beyond the ordinary generator: only termination and
    well-formedness are claimed there (C01's quantifier names them explicitly)."""
    c = draw(S.curves(2, 24, scales=False, families=['noise', 'mono_dec', 'convex', 'pwl_dyadic', 'plateau', 'flat', 'steps', 'quant']))
    case = draw(cases(tier))
    case['pts'] = c['pts']
    case['family'] = 'extreme'
    n = len(c['pts'])
    case['length'] = min(case.get('length', 3), n + 3)
    case['kx'] = draw(st.sampled_from([-170, -165, -150, -100, -30, 0, 0, 20, 100, 150]))
    case['ky'] = draw(st.sampled_from([-300, -200, -165, -100, 0, 0, 100, 160, 250, 300]))
    return case


def oracle_extreme(case, rec):
    p = np.array(case['pts'], dtype=float)
    with np.errstate(all='ignore'):
        p = p * np.array([10.0 ** case['kx'], 10.0 ** case['ky']])
    n = len(p)
    ok = np.all(np.isfinite(p)) and np.all(np.diff(p[:, 0]) > 0)
    if not ok:
        rec.tag('extreme:not-representable-skipped')
        return
    rec.tag('extreme:kx=%d' % case['kx'], 'extreme:ky=%d' % case['ky'], 'simplifier:' + case['simplifier'])
    out = call_simplifier(case, rec, p)
    rec.nontrivial = n >= 3
    if out is FAILED:
        return
    well_formed(rec, out, n)


SUBS = [Sub('simplify', oracle, strategy=cases, budget={'quick': 6400, 'thorough': 120000},
            examples=examples),
        Sub('huge', oracle_huge, strategy=huge_cases, budget={'quick': 96, 'thorough': 960}),
        Sub('extreme', oracle_extreme, strategy=extreme_cases, budget={'quick': 3200, 'thorough': 48000})]
