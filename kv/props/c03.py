"""C03 - every single-knee detector finds the corner of an exact two-slope elbow."""
import itertools

import numpy as np
from hypothesis import strategies as st

from .. import lib
from ..lib import FAILED
from ..runner import Sub

ID = 'C03'
TECHNIQUE = 'known-answer PBT on exact two-slope elbows + exhaustive enumeration of all 16 512 slope pairs at short arms'
LEVEL_TEXT = 'Exploration: Every detector variant must return the corner index; arm lengths are sampled (<= 300 quick, <= 600 thorough), the slope lattice is complete. Finds counter-examples (shrunk to a replay file); never proves absence.'
RULE = ('elbow = two straight arms (a, b >= 3 segments), integer spacings in {1..4}, ordered pair of distinct '
        'slopes j/8 (|j| <= 64), x0 integer in [0,4096], y0 multiple of 1/8 in [-4096,4096]: every '
        'coordinate is exactly representable.  Known answer: corner index a for curvature, DFDT, Menger, '
        'L-method get_knee (Fit x Cost) and knee (Fit x Refinement x limit); Kneedle(t=0) on monotone '
        'elbows.  sampled: arms up to 40|400 segments, random spacing patterns; lattice: ALL 16 512 '
        'ordered slope pairs enumerated at short arms (exhaustive sub-domain).  Every case is '
        'non-trivial (known answer); distinct by (a, b, spacings, slope pair, offsets).')
ASSUMPTIONS = ['arm lengths are sampled up to the stated bound, not exhausted']

FITS = ['point_fit', 'best_fit']
COSTS = ['rmse', 'rss']
REFS = ['none', 'original', 'adjusted']


def build(case):
    a, b = case['a'], case['b']
    sp = case['spacings']
    j1, j2 = case['slopes']
    x = [float(case['x0'])]
    y = [case['y0'] / 8.0]
    for i, s in enumerate(sp):
        m = j1 if i < a else j2
        x.append(x[-1] + s)
        y.append(y[-1] + m * s / 8.0)
    return np.column_stack((np.array(x), np.array(y)))


def orientation(j1, j2):
    shape = 'convex' if j2 > j1 else 'concave'
    if j1 < 0 < j2 or j2 < 0 < j1:
        d = 'V'
    elif j1 >= 0 and j2 >= 0:
        d = 'rising'
    else:
        d = 'falling'
    return shape + '/' + d


@st.composite
def sampled(draw, tier):
    hi = 40 if tier == 'quick' else 400
    arm = st.one_of(st.integers(3, 8), st.integers(3, 8), st.integers(3, 8), st.integers(3, hi), st.integers(3, hi),
                    st.integers(hi, 300 if tier == 'quick' else 600))
    a, b = draw(arm), draw(arm)
    mode = draw(st.sampled_from(['unit', 'const', 'free', 'free']))
    if mode == 'unit':
        sp = [1] * (a + b)
    elif mode == 'const':
        sp = [draw(st.integers(1, 4))] * (a + b)
    else:
        sp = draw(st.lists(st.integers(1, 4), min_size=a + b, max_size=a + b))
    j1 = draw(st.integers(-64, 64))
    j2 = draw(st.integers(-64, 64).filter(lambda v: v != j1))
    return {'kind': 'sampled', 'a': a, 'b': b, 'spacings': sp, 'slopes': [j1, j2],
            'x0': draw(st.integers(0, 4096)), 'y0': draw(st.integers(-32768, 32768)),
            'limit': draw(st.integers(4, a + b + 6)),
            'fit': draw(st.sampled_from(FITS)), 'cost': draw(st.sampled_from(COSTS)),
            'ref': draw(st.sampled_from(REFS)), 'all_variants': draw(st.integers(0, 4)) == 0 and a + b <= 60,
            'int64': draw(st.booleans())}


def lattice(tier):
    """Every ordered pair of distinct slopes j/8, |j| <= 64, at short arms - complete enumeration."""
    arms = [(3, 3)] if tier == 'quick' else [(3, 3), (3, 5), (5, 3), (4, 4)]
    patterns = {
        (3, 3): [[1] * 6] if tier == 'quick' else [[1] * 6, [1, 2, 3, 4, 3, 2], [4, 1, 1, 1, 1, 4]],
        (3, 5): [[1] * 8, [2, 1, 3, 1, 4, 1, 2, 3]],
        (5, 3): [[1] * 8, [3, 2, 1, 4, 1, 1, 2, 1]],
        (4, 4): [[1] * 8, [1, 4, 1, 4, 1, 4, 1, 4]],
    }
    for (a, b) in arms:
        for sp in patterns[(a, b)]:
            for j1 in range(-64, 65):
                for j2 in range(-64, 65):
                    if j1 != j2:
                        yield {'kind': 'lattice', 'a': a, 'b': b, 'spacings': sp, 'slopes': [j1, j2],
                               'x0': 0, 'y0': 0, 'limit': 10, 'all_variants': True}


def oracle(case, rec):
    L = lib.lib()
    pts = build(case)
    if case.get('int64') and np.all(pts == np.floor(pts)) and float(np.max(np.abs(pts))) < 2 ** 30:
        pts = pts.astype(np.int64)      # an integer-typed elbow is the same elbow
        rec.tag('dtype:int64')
    a = case['a']
    n = len(pts)
    x, y = pts[:, 0], pts[:, 1]
    j1, j2 = case['slopes']
    rec.tag('orientation:' + orientation(j1, j2))
    rec.nontrivial = True
    lm = L.lmethod

    def expect(name, got):
        if got is FAILED:
            return
        try:
            ok = got is not None and int(got) == a
        except (TypeError, ValueError):
            ok = False
        rec.check(ok, 'corner:' + name, '%s returned %r, corner is %d (a=%d b=%d slopes=%d/8,%d/8 spacings=%r x0=%r y0=%r/8)' %
                  (name, got, a, a, case['b'], j1, j2, case['spacings'][:12], case['x0'], case['y0']))

    expect('curvature', rec.call(8, L.curvature.knee, pts, _site='curvature.knee'))
    expect('dfdt', rec.call(n + 4, L.dfdt.knee, pts, _site='dfdt.knee'))
    expect('menger', rec.call(8, L.menger.knee, pts, _site='menger.knee'))
    if case.get('all_variants'):
        combos_g = list(itertools.product(FITS, COSTS))
        combos_k = list(itertools.product(FITS, REFS))
        limits = sorted({4, 10, case['limit']})
    else:
        combos_g = [(case['fit'], case['cost'])]
        combos_k = [(case['fit'], case['ref'])]
        limits = [case['limit']]
    for fit, cost in combos_g:
        out = rec.call(8, lm.get_knee, x, y, getattr(lm.Fit, fit), getattr(lm.Cost, cost), _site='lmethod.get_knee')
        if out is not FAILED:
            if rec.check(isinstance(out, tuple) and len(out) == 3, 'corner:lmethod.get_knee:shape', repr(out)[:100]):
                expect('lmethod.get_knee/%s/%s' % (fit, cost), out[0])
    for fit, ref in combos_k:
        for limit in limits:
            out = rec.call(2 * n + 16, lm.knee, pts, getattr(lm.Fit, fit), getattr(lm.Refinement, ref), limit,
                           _site='lmethod.knee')
            expect('lmethod.knee/%s/%s' % (fit, ref), out)
    if j1 * j2 >= 0:   # monotone elbow: slopes of equal sign or one zero
        rec.tag('kneedle:monotone')
        expect('kneedle', rec.call(8, L.kneedle.knee, pts, 0, _site='kneedle.knee'))


SUBS = [
    Sub('sampled', oracle, strategy=sampled, budget={'quick': 4800, 'thorough': 64000}),
    Sub('lattice', oracle, enumerate=lattice, exhaustive=True),
]
