"""C12 - cluster filtering keeps one best-ranked knee per cluster."""
import itertools
import math
from fractions import Fraction as F

import numpy as np
from hypothesis import strategies as st

from .. import lib, strategies as S
from ..lib import FAILED
from ..runner import Sub

ID = 'C12'
TECHNIQUE = 'PBT + per-cluster arg-max validity predicate + independent rational score model'
LEVEL_TEXT = 'Exploration: One member per cluster, arg-max of smooth_ranking (exact), score model on well-conditioned clusters, hull and corner variants. Finds counter-examples (shrunk to a replay file); never proves absence.'
RULE = ('Cases = (valid curve n >= 4; interior knee subset of 2..12 knees incl. adjacent indices and knees on '
        'plateaus; linkage x threshold x ranking mode in {left, linear, right, hull} + corner variant).  Oracle: '
        'output strictly increasing subset of the knees; non-hull: exactly one member of every cluster (clusters '
        'recomputed with the linkage, which C11 checks) and in every multi-member cluster the chosen member '
        'attains the maximum of knee_ranking.smooth_ranking (exact float comparison, clusters with a NaN score '
        'are excluded from this clause only); smooth_ranking itself is compared with an independent rational '
        'Pearson-r^2 x relative-height model on well-conditioned clusters (1e-6 relative); hull: completes, <= 1 '
        'member per cluster, none from a cluster whose index span has no lower-hull vertex (hull routine checked '
        'by C18); corner variant: one per cluster maximising 1/2 (x1-x0)(y1-y2).  Non-trivial: >= 1 cluster '
        'with >= 2 members whose scores differ.')
ASSUMPTIONS = ['clusters are recomputed with the library linkage functions (validated by C11)',
               'lower hull vertices come from convex_hull.graham_scan_lower (validated by C18)']

LINKS = ['single_linkage', 'complete_linkage', 'centroid_linkage', 'average_linkage']
MODES = ['left', 'linear', 'right', 'hull']


@st.composite
def cases(draw, tier):
    c = draw(S.curves(4, 40 if tier == 'quick' else 200,
                      families=['mono_dec', 'mono_dec', 'convex', 'noise', 'plateau', 'quant', 'steps', 'pwl_dyadic',
                                'pwl_rational', 'trace', 'concave', 'repo'],
                      big_n=120 if tier == 'quick' else 400))
    n = len(c['pts'])
    k = draw(st.integers(2, min(12, n - 2)))
    mode = draw(st.sampled_from(['spread', 'adjacent', 'adjacent']))
    if mode == 'adjacent':   # runs of neighbouring indices -> multi-member clusters
        start = draw(st.integers(1, max(1, n - 1 - k)))
        knees = list(range(start, min(n - 1, start + k)))
        extra = draw(st.lists(st.integers(1, n - 2), max_size=3))
        knees = sorted(set(knees + extra))
    else:
        knees = sorted(draw(st.lists(st.integers(1, n - 2), min_size=k, max_size=k, unique=True)))
    if len(knees) < 2:
        knees = [1, n - 2] if n - 2 > 1 else [1, 2]
    return {'family': c['family'], 'pts': c['pts'], 'knees': knees, 'linkage': draw(st.sampled_from(LINKS)),
            't': draw(st.sampled_from([0.01, 0.05, 0.1, 0.2, 0.3, 0.5, 0.8])), 'mode': draw(st.sampled_from(MODES)),
            'int_points': draw(st.booleans()),
            # designed ranking scores for the selection-rule sub-test (see oracle): base values and the
            # relative gap between the best and the second best member of a cluster
            'stub_vals': draw(st.lists(st.integers(1, 97), min_size=12, max_size=12)),
            'stub_gap': draw(st.sampled_from([0.0, 1e-15, 1e-12, 1e-10, 1e-8, 1e-7, 1e-6, 1e-5, 1e-4, 1e-2])),
            'stub_best': draw(st.integers(0, 11)), 'stub_second': draw(st.integers(0, 11))}


def pearson_r2(xs, ys):
    """Exact rational squared Pearson correlation; None if undefined (zero variance)."""
    n = len(xs)
    if n <= 2:
        return F(1), True
    X = [F(float(v)) for v in xs]
    Y = [F(float(v)) for v in ys]
    mx, my = sum(X) / n, sum(Y) / n
    sxx = sum((a - mx) ** 2 for a in X)
    syy = sum((b - my) ** 2 for b in Y)
    sxy = sum((a - mx) * (b - my) for a, b in zip(X, Y))
    if sxx == 0 or syy == 0:
        return None, False
    well = float(syy) >= 1e-6 * float(sum(b * b for b in Y)) and float(sxx) >= 1e-6 * float(sum(a * a for a in X))
    return sxy * sxy / (sxx * syy), well


def model_scores(p, cluster, mode):
    p = np.asarray(p, dtype=float)
    x, y = p[:, 0], p[:, 1]
    j, last = cluster[0], cluster[-1]
    peak = max(float(y[k]) for k in cluster)
    fits, w, well_all = [], [], True
    for k in cluster:
        left, wl = pearson_r2(x[j:k + 1], y[j:k + 1])
        right, wr = pearson_r2(x[k:last], y[k:last])
        if mode == 'left':
            f, well = left, wl
        elif mode == 'right':
            f, well = right, wr
        else:
            f = None if left is None or right is None else (left + right) / 2
            well = wl and wr
        fits.append(f)
        well_all &= well
        w.append(math.fabs(peak - float(y[k])))
    tot = math.fsum(w)
    if tot != 0:
        w = [v / tot for v in w]
    return [None if f is None else float(f) * v for f, v in zip(fits, w)], well_all


def oracle(case, rec):
    L = lib.lib()
    pp, kr = L.postprocessing, L.knee_ranking
    p = lib.pts_of(case)
    if case.get('int_points') and np.all(p == np.floor(p)) and float(np.max(np.abs(p))) < 2 ** 30:
        p = p.astype(np.int64)
        rec.tag('points:int64')
    n = len(p)
    knees = np.array(case['knees'], dtype=int)
    link = getattr(L.clustering, case['linkage'])
    t = case['t']
    mode = case['mode']
    rec.tag('family:' + case['family'], 'mode:' + mode, 'linkage:' + case['linkage'])
    labels = rec.call(8, link, p[knees], t, _site='clustering.' + case['linkage'])
    if labels is FAILED:
        return
    labels = [int(v) for v in np.asarray(labels)]
    clusters = [[int(k) for k, _ in g] for _, g in itertools.groupby(zip(case['knees'], labels), key=lambda kv: kv[1])]
    rec.tag('clusters:multi' if any(len(c) > 1 for c in clusters) else 'clusters:singletons')

    def subset(out, label):
        a = np.asarray(out)
        if not rec.check(a.ndim == 1 and (a.size == 0 or a.dtype.kind in 'iu'), label + ':not-int-vector', repr(a)[:100]):
            return None
        r = [int(v) for v in a]
        ok = rec.check(all(a_ < b for a_, b in zip(r, r[1:])), label + ':not-strictly-increasing', r)
        ok &= rec.check(set(r) <= set(case['knees']), label + ':not-a-subset-of-the-knees', (r, case['knees']))
        return r if ok else None

    lib.poison(-1e300)
    out = rec.call(4 * n + 16, pp.filter_clusters, p, knees, link, t, getattr(kr.ClusterRanking, mode), _site='pp.filter_clusters')
    if out is not FAILED:
        # the same call after a different heap poison must give the same answer
        lib.poison(1e300)
        again = rec.call(4 * n + 16, pp.filter_clusters, p, knees, link, t, getattr(kr.ClusterRanking, mode), _site='pp.filter_clusters')
        lib.poison(0.0)
        if again is not FAILED:
            rec.check(np.array_equal(np.asarray(out), np.asarray(again)), 'clusters:not-deterministic',
                      'two identical calls returned %r and %r' % (np.asarray(out).tolist(), np.asarray(again).tolist()))
        r = subset(out, 'clusters')
        if r is not None and mode != 'hull':
            per = [[k for k in r if k in set(c)] for c in clusters]
            if rec.check(all(len(m) == 1 for m in per), 'clusters:not-exactly-one-member-per-cluster',
                         'result %r clusters %r' % (r, clusters)):
                for c, (chosen,) in zip(clusters, per):
                    if len(c) < 2:
                        continue
                    sc = rec.call(8, kr.smooth_ranking, p, np.array(c, dtype=int), getattr(kr.ClusterRanking, mode), _site='kr.smooth_ranking')
                    if sc is FAILED:
                        continue
                    sc = np.asarray(sc, dtype=float)
                    if not rec.check(sc.shape == (len(c),), 'smooth_ranking:shape', sc.shape):
                        continue
                    if np.any(np.isnan(sc)):
                        # undefined only if a fit the SELECTED mode needs is undefined (constant segment of
                        # >= 3 points); a NaN where the model says every such fit is well defined is a wrong score
                        ref0, well0 = model_scores(p, c, mode)
                        if well0 and all(v is not None for v in ref0):
                            rec.fail('smooth_ranking:nan-score-although-every-fit-of-the-mode-is-defined',
                                     'cluster %r mode=%s impl %r model %r' % (c, mode, sc.tolist(), ref0))
                        rec.tag('nan-score-cluster')
                        continue
                    rec.check(sc[c.index(chosen)] == sc.max(), 'clusters:chosen-member-not-max-score',
                              'cluster %r scores %r chosen %d mode=%s' % (c, sc.tolist(), chosen, mode))
                    if sc.max() > sc.min():
                        rec.nontrivial = True
                    ref, well = model_scores(p, c, mode)
                    if well and all(v is not None for v in ref):
                        scale = max(max(abs(v) for v in ref), 1e-300)
                        bad = [i for i in range(len(c)) if abs(ref[i] - sc[i]) > 1e-6 * scale + 1e-12]
                        rec.check(not bad, 'smooth_ranking:differs-from-fit-times-height-model',
                                  'cluster %r mode=%s impl %r model %r' % (c, mode, sc.tolist(), ref))
                        rec.tag('score-model:checked')
                    else:
                        rec.tag('score-model:ill-conditioned-skipped')
        elif r is not None:
            hull = rec.call(2 * n + 8, L.convex_hull.graham_scan_lower, p, _site='convex_hull.graham_scan_lower')
            if hull is not FAILED:
                hull = set(int(v) for v in np.asarray(hull))
                for c in clusters:
                    got = [k for k in r if k in set(c)]
                    rec.check(len(got) <= 1, 'hull:more-than-one-member-per-cluster', (got, c))
                    has = any(c[0] <= h <= c[-1] for h in hull)
                    if not has:
                        rec.check(not got, 'hull:member-from-cluster-without-hull-point', (got, c, sorted(hull)))
                    elif len(c) > 1:
                        rec.nontrivial = True
    # the selection rule by itself: the ranking function is replaced by a test double that returns
    # designed scores (best and second best member a chosen relative gap apart, from 1e-15 to 1e-2),
    # so that "keeps a member attaining the maximum" is also exercised on near-ties that generated
    # curves practically never contain.  Judged only for clusters the double was actually asked about.
    if mode != 'hull' and 'stub_vals' in case and any(len(c) > 1 for c in clusters):
        asked = []

        def double(points_, cluster_, method_):
            m = len(cluster_)
            vals = [case['stub_vals'][(i * 5 + m) % 12] / 100.0 for i in range(m)]
            b, s2 = case['stub_best'] % m, case['stub_second'] % m
            vals[b] = 0.99
            if s2 != b:
                vals[s2] = 0.99 * (1.0 - case['stub_gap'])
            asked.append(([int(v) for v in cluster_], vals))
            return np.array(vals, dtype=float)
        orig = kr.smooth_ranking
        kr.smooth_ranking = double
        try:
            out2 = rec.call(4 * n + 16, pp.filter_clusters, p, knees, link, t, getattr(kr.ClusterRanking, mode), _site='pp.filter_clusters')
        finally:
            kr.smooth_ranking = orig
        if out2 is not FAILED and asked:
            kept = set(int(v) for v in np.asarray(out2))
            for c, vals in asked:
                got = [k for k in c if k in kept]
                if len(got) == 1:
                    v = vals[c.index(got[0])]
                    rec.check(v == max(vals), 'clusters:kept-member-not-max-of-designed-scores',
                              'cluster %r designed scores %r kept %d (score %r, gap %r)' % (c, vals, got[0], v, case['stub_gap']))
            rec.tag('selection-double:used')
        elif out2 is not FAILED:
            rec.tag('selection-double:not-called')
    # corner variant
    out = rec.call(4 * n + 16, pp.filter_clusters_corners, p, knees, link, t, _site='pp.filter_clusters_corners')
    if out is not FAILED:
        r = subset(out, 'corners')
        if r is not None:
            per = [[k for k in r if k in set(c)] for c in clusters]
            if rec.check(all(len(m) == 1 for m in per), 'corners:not-exactly-one-member-per-cluster', (r, clusters)):
                for c, (chosen,) in zip(clusters, per):
                    sc = [0.5 * ((p[k, 0] - p[k - 1, 0]) * (p[k, 1] - p[k + 1, 1])) for k in c]
                    if any(v != v for v in sc):
                        continue
                    rec.check(sc[c.index(chosen)] == max(sc), 'corners:chosen-member-not-max-triangle',
                              'cluster %r scores %r chosen %d' % (c, sc, chosen))


SUBS = [Sub('filter_clusters', oracle, strategy=cases, budget={'quick': 8000, 'thorough': 120000})]
