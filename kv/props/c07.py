"""C07 - reduced-space indices map back to exactly the original indices."""
import itertools

import numpy as np
from hypothesis import strategies as st

from .. import lib, strategies as S
from ..lib import FAILED
from ..runner import Sub
from .c01 import call_simplifier, SIMPLIFIERS

ID = 'C07'
TECHNIQUE = 'exhaustive enumeration of all (index set, position list) pairs for n <= 10|12 + PBT on simplifier outputs, row permutations and position dtypes'
LEVEL_TEXT = 'Exploration: Round trip mapping(I) == reduced[I]; complete for small n, sampled up to n = 1000. Finds counter-examples (shrunk to a replay file); never proves absence.'
RULE = ('exhaustive: for n = 2..10 (quick) / 2..12 (thorough) EVERY index set containing 0 and n-1 x EVERY '
        'ascending position list I (all subsets of positions) -> mapping(I, reduced, removed) == reduced[I]; '
        'with sorted=False for reversed / rotated / (<= 4 rows: all) row permutations of removed; '
        'compute_removed_points == definitional table.  sampled: n <= 500.  simplifiers: reductions produced '
        'by all five simplifiers on generated curves (incl. rdp.rdp\'s float-typed table).  Non-trivial: I '
        'non-empty, not all positions, >= 1 dropped point before a queried position.  Distinct by digest of '
        '(n, set) resp. the case; (set, I) pairs are counted in histogram[pairs].')
ASSUMPTIONS = []


def definitional(reduced):
    return [[a, b - a - 1] for a, b in zip(reduced, reduced[1:])]


def check_set(rec, n, reduced, position_lists, perms='some', idx_dtype='int64', flag_kind='bool'):
    L = lib.lib()
    red = np.array(reduced, dtype=int)
    pts = np.column_stack((np.arange(n, dtype=float), np.zeros(n)))
    removed = rec.call(8, L.rdp.compute_removed_points, pts, red, _site='rdp.compute_removed_points')
    if removed is FAILED:
        return
    removed = np.asarray(removed)
    want = definitional(reduced)
    if not rec.check(removed.tolist() == want if want else removed.size == 0, 'removed:not-definitional', (removed.tolist(), want)):
        return
    variants = [('sorted', removed, True)]
    m = len(want)
    if m >= 2:
        if perms == 'all' and m <= 4:
            for pm in itertools.permutations(range(m)):
                variants.append(('perm', removed[list(pm)], False))
        else:
            variants.append(('reversed', removed[::-1], False))
            variants.append(('rotated', np.roll(removed, 1, axis=0), False))
    else:
        variants.append(('unsorted-flag', removed, False))
    nontriv = False
    pairs = 0
    for I in position_lists:
        exp = [reduced[i] for i in I]
        for name, rem, flag in variants:
            if m == 0:
                continue
            if idx_dtype == 'list':
                Iarg = list(I)
            else:
                dt = np.dtype(idx_dtype)
                # a position list may be held in any integer type that can represent the positions
                Iarg = np.array(I, dtype=dt if (not I or max(I) <= np.iinfo(dt).max) else np.int64)
            # the `sorted` flag may be any truth value (np.bool_ from a comparison, 0/1)
            farg = flag if flag_kind == 'bool' else (np.bool_(flag) if flag_kind == 'numpy' else int(flag))
            out = rec.call(4 * n + 16, L.rdp.mapping, Iarg, red, rem, farg, _site='rdp.mapping')
            if out is FAILED:
                return
            got = [int(v) for v in np.asarray(out)]
            if got != exp:
                rec.fail('mapping:%s' % ('sorted' if flag else 'unsorted'),
                         'reduced=%r I=%r removed=%r -> %r, want %r' % (reduced, I, rem.tolist(), got, exp))
                return
        pairs += 1
        if I and len(I) < len(reduced) and any(reduced[i] > i for i in I):
            nontriv = True
    rec.count('pairs', pairs)
    rec.nontrivial = nontriv


def enum_sets(tier):
    top = 10 if tier == 'quick' else 12
    for n in range(2, top + 1):
        inner = list(range(1, n - 1))
        for k in range(len(inner) + 1):
            for comb in itertools.combinations(inner, k):
                yield {'kind': 'exhaustive', 'n': n, 'reduced': [0] + list(comb) + [n - 1]}


def oracle_exhaustive(case, rec):
    reduced = case['reduced']
    m = len(reduced)
    lists = [list(c) for k in range(m + 1) for c in itertools.combinations(range(m), k)]
    rec.tag('n=%d' % case['n'])
    check_set(rec, case['n'], reduced, lists, perms='all')


@st.composite
def sampled(draw, tier):
    n = draw(st.one_of(st.integers(2, 60), st.integers(2, 1000 if tier == 'thorough' else 500)))
    reduced = draw(S.index_sets(n))
    m = len(reduced)
    I = sorted(draw(st.lists(st.integers(0, m - 1), max_size=12)))     # ascending, repeats allowed (add_points_even passes pairs)
    if draw(st.booleans()):
        I = sorted(set(I))
    return {'kind': 'sampled', 'n': n, 'reduced': reduced, 'I': I,
            'dtype': draw(st.sampled_from(['int64', 'int64', 'int32', 'int16', 'uint16', 'uint8', 'int8', 'list'])),
            'flag_kind': draw(st.sampled_from(['bool', 'bool', 'numpy', 'int']))}


def oracle_sampled(case, rec):
    rec.tag('sampled')
    rec.tag('positions:' + case.get('dtype', 'int64'))
    check_set(rec, case['n'], case['reduced'], [case['I'], list(range(len(case['reduced'])))], idx_dtype=case.get('dtype', 'int64'), flag_kind=case.get('flag_kind', 'bool'))


@st.composite
def simplifier_cases(draw, tier):
    from .c01 import cases as c01_cases
    case = draw(c01_cases(tier))
    case['kind'] = 'simplifier'
    case['Ibits'] = draw(st.lists(st.booleans(), min_size=len(case['pts']), max_size=len(case['pts'])))
    return case


def oracle_simplifier(case, rec):
    L = lib.lib()
    p = lib.pts_of(case)
    n = len(p)
    rec.tag('simplifier:' + case['simplifier'])
    nv = len(rec.violations)
    out = call_simplifier(case, rec, p)
    if out is FAILED or not (isinstance(out, tuple) and len(out) == 2):
        del rec.violations[nv:]          # C01's business
        rec.tag('skipped:simplifier-failed')
        return
    reduced, removed = np.asarray(out[0]), np.asarray(out[1])
    r = [int(v) for v in reduced]
    wellformed = len(r) >= 2 and r[0] == 0 and r[-1] == n - 1 and all(a < b for a, b in zip(r, r[1:]))
    if len(r) < 2:
        rec.tag('skipped:malformed-reduction')
        return
    ref = rec.call(8, L.rdp.compute_removed_points, p, reduced, _site='rdp.compute_removed_points')
    if ref is FAILED:
        return
    ref = np.asarray(ref)
    if wellformed:
        want = definitional(r)
        rec.check(ref.tolist() == want, 'removed:not-definitional', (ref.tolist(), want))
    else:
        # a malformed reduction is C01's finding, but the statement quantifies over EVERY reduction a
        # simplifier produces: its table must still be the one compute_removed_points derives and
        # mapping must still translate positions to reduced[I]
        rec.tag('malformed-reduction:still-checked')
    rec.check(removed.shape == ref.shape and np.array_equal(removed.astype(float), ref.astype(float)),
              'removed:simplifier-table-differs-from-compute_removed_points', (removed.tolist(), ref.tolist()))
    I = [i for i in range(len(r)) if case['Ibits'][i % len(case['Ibits'])]]
    for name, idx in (('subset', I), ('all', list(range(len(r))))):
        o = rec.call(4 * n + 16, L.rdp.mapping, np.array(idx, dtype=int), reduced, removed, _site='rdp.mapping')
        if o is FAILED:
            return
        got = [int(v) for v in np.asarray(o)]
        rec.check(got == [r[i] for i in idx], 'mapping:simplifier-table', 'reduced=%r removed=%r I=%r -> %r' % (r, removed.tolist(), idx, got))
    rec.nontrivial = bool(I) and len(I) < len(r) and any(r[i] > i for i in I)


SUBS = [
    Sub('exhaustive', oracle_exhaustive, enumerate=enum_sets, exhaustive=True),
    Sub('sampled', oracle_sampled, strategy=sampled, budget={'quick': 3200, 'thorough': 100000}),
    Sub('simplifier', oracle_simplifier, strategy=simplifier_cases, budget={'quick': 3200, 'thorough': 64000}),
]
