"""C08 - the end-to-end pipeline yields valid, ordered knees of the original curve."""
import numpy as np
from hypothesis import strategies as st

from .. import lib, strategies as S
from ..lib import FAILED
from ..runner import Sub
from .c01 import call_simplifier, SIMPLIFIERS, cases as c01_cases

ID = 'C08'
TECHNIQUE = 'PBT over the parameterised demo pipeline + per-stage subsequence/height invariants + coordinate round trip'
LEVEL_TEXT = 'Exploration: Completion and stage invariants on ~6.4k pipelines per quick run incl. bundled traces and integer-typed curves. Finds counter-examples (shrunk to a replay file); never proves absence.'
RULE = ('Case = the demos\' pipeline, parameterised: (performance curve n >= 2 incl. the bundled traces; simplifier '
        'with its configuration (5); detector (5) with t1; corner threshold; linkage (4) x cluster threshold x '
        'ranking mode (4)).  Oracle: every stage completes under the loop guard; multi_knee -> worst-knee -> '
        'corner -> cluster filter each return an order-preserving subsequence of their input; from the worst-knee '
        'filter on heights are non-increasing; out = mapping(knees, reduced, removed) is strictly increasing, a '
        'subset of the retained indices, and points[out[i]] == points[reduced][knees[i]] coordinate-wise.  '
        'Non-trivial: >= 2 knees survive to the mapping stage and the reduction dropped >= 1 point before a '
        'surviving knee.  Distinct by digest of the case.')
ASSUMPTIONS = ['Menger may report reduced position 0; the filters then index with wrap-around, which completes - only the stated postconditions are checked']

DETECTORS = ['curvature', 'dfdt', 'menger', 'lmethod', 'kneedle']
LINKS = ['single_linkage', 'complete_linkage', 'centroid_linkage', 'average_linkage']
MODES = ['left', 'linear', 'right', 'hull']


@st.composite
def cases(draw, tier):
    big = tier != 'quick'
    c = draw(S.curves(2, 60 if not big else 300,
                      families=['mono_dec', 'mono_dec', 'convex', 'convex', 'noise', 'plateau', 'ulp', 'quant', 'steps',
                                'pwl_dyadic', 'pwl_rational', 'trace', 'trace', 'concave', 'repo', 'outlier'],
                      big_n=160 if not big else 600))
    pts = c['pts']
    n = len(pts)
    simp = draw(st.sampled_from(SIMPLIFIERS))
    case = {'family': c['family'], 'pts': pts, 'simplifier': simp}
    if simp in ('rdp', 'grdp', 'mp_grdp'):
        case['metric'] = draw(st.sampled_from(S.METRICS))
        case['t'] = draw(st.sampled_from([1e-4, 1e-3, 0.01, 0.05, 0.2])) if case['metric'] != 'r2' else draw(st.sampled_from([0.9, 0.99, 0.999, 0.5]))
    if simp != 'min_point_rdp':
        case['distance'] = draw(st.sampled_from(S.DISTANCES))
    if simp in ('grdp', 'rdp_fixed', 'mp_grdp'):
        case['order'] = draw(st.sampled_from(S.ORDERS))
    if simp in ('rdp_fixed', 'mp_grdp', 'min_point_rdp'):
        case['length'] = draw(st.integers(2, n))
    if simp == 'min_point_rdp':
        case['ts'] = draw(st.lists(st.sampled_from([0.1, 0.01, 0.001, 1e-4]), min_size=1, max_size=3))
    case.update({'detector': draw(st.sampled_from(DETECTORS)), 't1': draw(st.sampled_from([0.0, 1e-3, 0.01, 0.05])),
                 'corner_t': draw(st.sampled_from([0.1, 0.33, 0.5, 0.9])),
                 'linkage': draw(st.sampled_from(LINKS)), 'cluster_t': draw(st.sampled_from([0.01, 0.05, 0.1, 0.3])),
                 'mode': draw(st.sampled_from(MODES)), 'int_points': draw(st.booleans())})
    return case


def oracle(case, rec):
    L = lib.lib()
    pp, kr = L.postprocessing, L.knee_ranking
    p = lib.pts_of(case)
    if case.get('int_points') and np.all(p == np.floor(p)) and float(np.max(np.abs(p))) < 2 ** 30:
        p = p.astype(np.int64)          # an integer-typed curve is the same curve
        rec.tag('points:int64')
    n = len(p)
    bound = 4 * n + 16
    rec.tag('family:' + case['family'], 'simplifier:' + case['simplifier'], 'detector:' + case['detector'],
            'mode:' + case['mode'], 'linkage:' + case['linkage'])
    out = call_simplifier(case, rec, p)
    if out is FAILED:
        return
    if not (isinstance(out, tuple) and len(out) == 2):
        rec.fail('pipeline:simplifier-shape', repr(out)[:80])
        return
    reduced, removed = np.asarray(out[0]), np.asarray(out[1])
    r = [int(v) for v in reduced]
    if not rec.check(len(r) >= 2 and r[0] == 0 and r[-1] == n - 1 and all(a < b for a, b in zip(r, r[1:])),
                     'pipeline:malformed-reduction', r):
        return
    pr = p[reduced.astype(int)]
    det = getattr(L, case['detector'])
    t2 = {'curvature': 3, 'dfdt': 3, 'menger': 4, 'lmethod': 4, 'kneedle': 3}[case['detector']]
    knees = rec.call(bound, det.multi_knee, pr, case['t1'], t2, _site=case['detector'] + '.multi_knee')
    if knees is FAILED:
        return

    def ints(a, label):
        a = np.asarray(a)
        if not rec.check(a.ndim == 1 and (a.size == 0 or np.all(a == np.floor(a))), label + ':not-an-index-vector', repr(a)[:80]):
            return None
        return [int(v) for v in a]

    k0 = ints(knees, 'stage:multi_knee')
    if k0 is None:
        return
    if not rec.check(all(0 <= k <= len(r) - 2 for k in k0) and all(a < b for a, b in zip(k0, k0[1:])),
                     'stage:multi_knee:invalid-positions', (k0, len(r))):
        return

    def subseq(sub, full):
        it = iter(full)
        return all(any(v == w for w in it) for v in sub)

    def heights_ok(ks, label):
        hs = [float(pr[k, 1]) for k in ks]
        rec.check(all(a >= b for a, b in zip(hs, hs[1:])), label + ':heights-increase', list(zip(ks, hs)))

    def map_back(arr, lst, where):
        """Map reduced-space knees to the original curve with the simplifier's own table (the demos map
        after several stages and for several detectors with one and the same table)."""
        final = rec.call(bound, L.rdp.mapping, arr, reduced, removed, _site='rdp.mapping')
        if final is FAILED:
            return None
        fl = ints(final, 'stage:mapping')
        if fl is None:
            return None
        ok = rec.check(len(fl) == len(lst), 'mapping:length', (where, fl, lst))
        ok = ok and rec.check(all(a < b for a, b in zip(fl, fl[1:])), 'mapping:not-strictly-increasing', (where, fl))
        ok = ok and rec.check(set(fl) <= set(r), 'mapping:index-not-a-retained-point', '%s: mapped %r retained %r' % (where, fl, r))
        if ok:
            same = all(0 <= o < n and p[o, 0] == pr[k, 0] and p[o, 1] == pr[k, 1] for o, k in zip(fl, lst))
            rec.check(same, 'mapping:coordinates-differ-from-reduced-space-knee',
                      '%s: mapped %r knees %r reduced %r removed %r' % (where, fl, lst, r, np.asarray(removed).tolist()))
        return fl if ok else None

    if len(k0) and k0[0] >= 0:
        map_back(np.asarray(knees), k0, 'detector output')
    stages = [('worst', lambda ks: pp.filter_worst_knees(pr, ks)),
              ('corner', lambda ks: pp.filter_corner_knees(pr, ks, case['corner_t'])),
              ('cluster', lambda ks: pp.filter_clusters(pr, ks, getattr(L.clustering, case['linkage']), case['cluster_t'],
                                                        getattr(kr.ClusterRanking, case['mode'])))]
    cur = np.asarray(knees)
    cur_l = k0
    for name, f in stages:
        nxt = rec.call(bound, f, cur, _site='pp.' + name)
        if nxt is FAILED:
            return
        nl = ints(nxt, 'stage:' + name)
        if nl is None:
            return
        if not rec.check(subseq(nl, cur_l), 'stage:%s:not-a-subsequence-of-its-input' % name, 'in %r out %r' % (cur_l, nl)):
            return
        heights_ok(nl, 'stage:' + name)
        cur, cur_l = np.asarray(nxt), nl
    fl = map_back(cur, cur_l, 'final')
    if fl is None:
        return
    rec.nontrivial = len(fl) >= 2 and any(r[k] > k for k in cur_l)
    rec.tag('survivors:%s' % (len(fl) if len(fl) < 3 else '3+'))


def trace_cases(tier):
    """Whole bundled traces (strided to a manageable size in the quick tier) through default pipelines."""
    names = S.trace_names()
    for name in names:
        t = S.trace(name)
        stride = max(1, len(t) // (400 if tier == 'quick' else 4000))
        pts = [list(q) for q in t[::stride]]
        for det in DETECTORS:
            for mode in ('linear', 'hull'):
                yield {'family': 'trace', 'trace': name, 'pts': pts, 'simplifier': 'rdp', 'metric': 'smape', 't': 0.01 if tier == 'quick' else 0.001,
                       'distance': 'shortest', 'detector': det, 't1': 0.001, 'corner_t': 0.33, 'linkage': 'average_linkage',
                       'cluster_t': 0.01, 'mode': mode}


SUBS = [
    Sub('pipeline', oracle, strategy=cases, budget={'quick': 6400, 'thorough': 96000}),
    Sub('traces', oracle, enumerate=trace_cases),
]
