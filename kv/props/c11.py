"""C11 - 1-D linkage clustering follows its stated threshold rule."""
import itertools
import math
from fractions import Fraction as F

import numpy as np
from hypothesis import strategies as st

from .. import lib
from ..lib import FAILED
from ..runner import Sub

ID = 'C11'
TECHNIQUE = "PBT + exhaustive gap lattice against reference linkage rules (exact rational walk along the implementation's labels)"
LEVEL_TEXT = 'Exploration: Exact for single/complete incl. ties; centroid/average decisions inside the rounding slack are ambiguous. Finds counter-examples (shrunk to a replay file); never proves absence.'
RULE = ('Cases = (strictly increasing x: integers, dyadics, floats, n in 2..40|300; arbitrary y; t > 0 drawn '
        'among distances that occur in this x (exact ties), midpoints, 0.01, 0.2, > 1).  Oracle = reference '
        'models of the four rules written from the statement; single/complete use the identical float '
        'expression (exact comparison incl. ties); centroid/average decisions are taken in exact rational '
        'arithmetic and a decision within the rounding slack (4 ulp + 16*eps*max|x|*members/range) of t that '
        'is not an exact tie on small dyadic data is ambiguous (both continuations are followed).  Also: labels start at 0 and step by 0/1; number of '
        'single/complete clusters is non-increasing in t.  lattice: all gap patterns {1,2,3}^m, m <= 6|7, x all '
        'distinct tie thresholds (exhaustive).  Non-trivial: >= 2 clusters and a cluster with >= 3 members.')
ASSUMPTIONS = ['reference models are written from the property statement, not from the implementation']

LINKS = ['single_linkage', 'complete_linkage', 'centroid_linkage', 'average_linkage']


@st.composite
def cases(draw, tier):
    n = draw(st.one_of(st.integers(2, 12), st.integers(2, 40 if tier == 'quick' else 300)))
    kind = draw(st.sampled_from(['int', 'int', 'dyadic', 'float', 'clustered', 'epoch']))
    if kind == 'int':
        steps = draw(st.lists(st.integers(1, 5), min_size=n - 1, max_size=n - 1))
        x0 = draw(st.integers(0, 100))
        x = [float(x0)]
        for s in steps:
            x.append(x[-1] + s)
    elif kind == 'dyadic':
        steps = draw(st.lists(st.integers(1, 40), min_size=n - 1, max_size=n - 1))
        x = [draw(st.integers(0, 64)) / 8.0]
        for s in steps:
            x.append(x[-1] + s / 8.0)
    elif kind == 'epoch':       # time stamps: huge offset, small exactly representable steps
        x0 = draw(st.sampled_from([1.7e9, 1.7e12, 1e10, 1e15]))
        unit = 0.125 if x0 == 1e15 else 1.0     # 1e15 + k/8 is exactly representable
        x = [x0]
        for s in draw(st.lists(st.integers(1, 9), min_size=n - 1, max_size=n - 1)):
            x.append(x[-1] + s * unit)
    elif kind == 'clustered':   # tight groups separated by big gaps -> long clusters, drift matters
        x = [float(draw(st.integers(0, 10)))]
        for _ in range(n - 1):
            big = draw(st.integers(0, 5)) == 0
            x.append(x[-1] + (draw(st.integers(20, 60)) if big else draw(st.integers(1, 3))))
    else:
        steps = draw(st.lists(st.floats(0.01, 10), min_size=n - 1, max_size=n - 1))
        x = [draw(st.floats(0, 100))]
        for s in steps:
            x.append(x[-1] + s)
    y = draw(st.lists(st.floats(-10, 10), min_size=n, max_size=n))
    length = x[-1] - x[0]
    mode = draw(st.sampled_from(['tie', 'tie', 'mid', 'std', 'big']))
    if mode in ('tie', 'mid') and n >= 2:
        i = draw(st.integers(1, n - 1))
        j = draw(st.integers(0, i - 1))
        d = math.fabs(x[i] - x[j]) / length
        if mode == 'tie':
            t = d
        else:
            i2 = draw(st.integers(1, n - 1))
            t = (d + math.fabs(x[i2] - x[i2 - 1]) / length) / 2.0
    elif mode == 'std':
        t = draw(st.sampled_from([0.01, 0.05, 0.1, 0.2, 0.5]))
    else:
        t = draw(st.sampled_from([1.0, 1.5, 3.0]))
    if not t > 0:
        t = 0.2
    return {'kind': kind, 'x': x, 'y': y, 't': t, 'tmode': mode, 't2': draw(st.sampled_from([0.01, 0.07, 0.2, 0.4, 1.0]))}


def lattice(tier):
    top = 6 if tier == 'quick' else 7
    for m in range(1, top + 1):
        for gaps in itertools.product((1, 2, 3), repeat=m):
            x = [0.0]
            for g in gaps:
                x.append(x[-1] + g)
            length = x[-1]
            ts = sorted({F(int(x[i] - x[j]), int(length)) for i in range(len(x)) for j in range(i)})
            for tq in ts:
                yield {'kind': 'lattice', 'x': x, 'y': [0.0] * len(x), 't': float(tq), 'tmode': 'tie', 't2': 0.2}


def dyadic_small(x):
    return all(abs(v) < 2 ** 20 and float(v * 1024).is_integer() for v in x)


def ref_single(x, t):
    length = x[-1] - x[0]
    lab = [0]
    for i in range(1, len(x)):
        lab.append(lab[-1] + (1 if math.fabs(x[i] - x[i - 1]) / length >= t else 0))
    return lab


def ref_complete(x, t):
    length = x[-1] - x[0]
    lab = [0]
    first = 0
    for i in range(1, len(x)):
        if math.fabs(x[i] - x[first]) / length >= t:
            lab.append(lab[-1] + 1)
            first = i
        else:
            lab.append(lab[-1])
    return lab


def check_rational(x, t, rule, labels):
    """Walk along the implementation's own label sequence: at every point the cluster it is in is
    known from the previous labels, the stated distance to that cluster is computed in exact
    rational arithmetic, and the step (new cluster or not) must agree with `distance >= t` unless
    the decision lies within the rounding slack of t (then either step is accepted).  Linear in n,
    no enumeration of alternatives.  Returns (first bad index or None, #ambiguous decisions)."""
    xs = [F(float(v)) for v in x]
    tF = F(float(t))
    length = xs[-1] - xs[0]
    exact_data = dyadic_small(x)
    EPSF = float(np.finfo(float).eps)
    xmax = max(abs(v) for v in x)
    amb = 0
    start = 0
    ssum = xs[0]
    for i in range(1, len(xs)):
        k = i - start
        step = labels[i] - labels[i - 1]
        if k == 1:
            # one-member cluster: the statement's distance is the single float expression
            # |x_i - x_j| / range, evaluated without intermediate rounding choices -> binding
            new_cluster = math.fabs(x[i] - x[start]) / (x[-1] - x[0]) >= t
        else:
            if rule == 'centroid':
                d = abs(xs[i] - ssum / k) / length
            else:
                d = sum(abs(m - xs[i]) for m in xs[start:i]) / (k * length)
            df = float(d)
            # conditioning: the centroid / the member distances carry an absolute rounding error of
            # about eps*max|x| per member, which the division by the range turns into slack on d
            if rule == 'centroid':   # the running centroid carries ~eps*max|x| per member
                slack = 4 * EPSF * max(abs(df), abs(t)) + 16 * EPSF * xmax * k / float(length)
            else:                    # member distances are differences of nearby values: relative error only
                slack = 64 * EPSF * max(abs(df), abs(t))
            if abs(df - t) <= slack and not (d == tF and exact_data and rule == 'average'):
                amb += 1
                new_cluster = bool(step)          # either decision is accepted
            else:
                new_cluster = d >= tF
        if bool(step) != new_cluster:
            return i, amb
        if new_cluster:
            start = i
            ssum = xs[i]
        else:
            ssum += xs[i]
    return None, amb


def oracle(case, rec):
    L = lib.lib()
    x = [float(v) for v in case['x']]
    n = len(x)
    pts = np.column_stack((np.array(x), np.array(case['y'], dtype=float)))
    t = float(case['t'])
    rec.tag('x:' + case['kind'], 't:' + case['tmode'])
    outs = {}
    kept = {}
    for name in LINKS:
        out = rec.call(8, getattr(L.clustering, name), pts, t, _site='clustering.' + name)
        if out is FAILED:
            continue
        a = np.asarray(out)
        ok = rec.check(a.shape == (n,) and a.dtype.kind in 'iu', name + ':not-one-label-per-point', repr(a)[:120])
        if not ok:
            continue
        lab = [int(v) for v in a]
        ok = rec.check(lab[0] == 0 and all(b - a_ in (0, 1) for a_, b in zip(lab, lab[1:])), name + ':labels-not-contiguous-runs', lab)
        if ok:
            outs[name] = lab
            kept[name] = a          # the returned object itself, re-read after later calls
    if 'single_linkage' in outs:
        rec.check(outs['single_linkage'] == ref_single(x, t), 'single_linkage:rule', 'got %r want %r x=%r t=%r' % (outs['single_linkage'], ref_single(x, t), x, t))
    if 'complete_linkage' in outs:
        rec.check(outs['complete_linkage'] == ref_complete(x, t), 'complete_linkage:rule', 'got %r want %r x=%r t=%r' % (outs['complete_linkage'], ref_complete(x, t), x, t))
    for name, rule in (('centroid_linkage', 'centroid'), ('average_linkage', 'average')):
        if name in outs:
            bad, amb = check_rational(x, t, rule, outs[name])
            rec.check(bad is None, name + ':rule', 'labels %r break the rule at point %s (x=%r t=%r)' % (outs[name][:40], bad, x[:40], t))
            if amb:
                rec.tag(rule + ':ambiguous')
    # monotonicity in t for single / complete
    t2 = float(case['t2'])
    lo, hi = (t, t2) if t <= t2 else (t2, t)
    for name in ('single_linkage', 'complete_linkage'):
        a = rec.call(8, getattr(L.clustering, name), pts, lo, _site='clustering.' + name)
        b = rec.call(8, getattr(L.clustering, name), pts, hi, _site='clustering.' + name)
        if a is not FAILED and b is not FAILED:
            rec.check(int(np.max(b)) <= int(np.max(a)), name + ':cluster-count-increases-with-t', (lo, hi, int(np.max(a)) + 1, int(np.max(b)) + 1))
    for name, arr in kept.items():
        # a result must not be overwritten by later calls of the same function (t2 above, other linkages)
        other = rec.call(8, getattr(L.clustering, name), pts[::-1][:max(2, n // 2)][::-1].copy(), float(case['t2']), _site='clustering.' + name)
        rec.check(np.asarray(arr).tolist() == outs[name], name + ':result-overwritten-by-a-later-call', (np.asarray(arr).tolist(), outs[name]))
    for name, lab in outs.items():
        sizes = [len(list(g)) for _, g in itertools.groupby(lab)]
        if len(sizes) >= 2 and max(sizes) >= 3:
            rec.nontrivial = True
            rec.tag('long-cluster:' + name)


def examples(tier):
    return [{'kind': 'int', 'x': [1.0, 2.0, 3.0, 7.0, 8.0, 9.0], 'y': [0.0] * 6, 't': 0.2, 'tmode': 'std', 't2': 0.4},
            {'kind': 'int', 'x': [0.0, 1.0, 2.0, 4.0, 8.0], 'y': [0.0] * 5, 't': 0.25, 'tmode': 'tie', 't2': 0.125}]


SUBS = [
    Sub('linkage', oracle, strategy=cases, budget={'quick': 12800, 'thorough': 200000}, examples=examples),
    Sub('lattice', oracle, enumerate=lattice, exhaustive=True),
]
