"""C19 - knee-evaluation scores obey their accounting identities."""
import itertools
import math

import numpy as np
from hypothesis import strategies as st

from .. import lib, strategies as S
from ..lib import FAILED
from ..runner import Sub

ID = 'C19'
TECHNIQUE = 'PBT against a reference greedy matcher exploring all tie resolutions + accounting identities; atheris in thorough'
LEVEL_TEXT = 'Exploration: TP must be a reachable greedy count; error scores within the reachable nearest-neighbour range. Finds counter-examples (shrunk to a replay file); never proves absence.'
RULE = ('Cases = (curve n in 3..40|200 with x, y >= 0; non-empty sorted distinct knee set K; non-empty expected '
        'points E drawn as exact curve points, perturbed curve points and far-away points, |K|+|E| <= n; '
        'tolerance t in [0, 0.5] incl. distance ratios that occur exactly; 4 strategies).  Oracle: reference '
        'greedy matcher (expected points in order, nearest knee in x - every resolution of exact distance ties '
        'is explored and TP must be a reachable value), TP+FN=|E|, TP+FP=|K|, entries >= 0 summing to n; '
        'MAE/MSE/RMSE/RMSPE = mean per-coordinate error of nearest-neighbour matching from the side the '
        'strategy selects (ties: any nearest neighbour, value must lie in the reachable range, 1e-9 relative); '
        'rmse == sqrt(mse); all zero when E is exactly the knee points; accuracy, F1 in [0,1], MCC in [-1,1] '
        'when defined, all = 1 on perfect detection.  Non-trivial: |K| != |E| and >= 1 expected point competes '
        'for an already claimed knee.')
ASSUMPTIONS = ['x range of the curve is positive (n >= 3 distinct x)']

STRATS = ['knees', 'expected', 'best', 'worst']


@st.composite
def cases(draw, tier):
    c = draw(S.curves(3, 40 if tier == 'quick' else 200, scales=False,
                      families=['mono_dec', 'convex', 'noise', 'plateau', 'quant', 'pwl_dyadic', 'trace', 'repo', 'steps'],
                      big_n=240 if tier == 'quick' else 600))
    pts = c['pts']
    n = len(pts)
    k = draw(st.one_of(st.integers(1, max(1, (n - 1) // 2)), st.integers(1, max(1, n - 8))))
    knees = sorted(draw(st.lists(st.integers(0, n - 1), min_size=k, max_size=k, unique=True)))
    ne = draw(st.integers(1, max(1, min(6, n - len(knees)))))
    xr = pts[-1][0] - pts[0][0]
    expected = []
    for _ in range(ne):
        mode = draw(st.sampled_from(['knee', 'knee', 'curve', 'perturbed', 'far', 'between', 'late-knee', 'late-knee']))
        if mode == 'late-knee':   # (duplicated) annotations next to the last knees
            j = knees[-1 - draw(st.integers(0, min(2, len(knees) - 1)))]
            expected.append(list(pts[j]))
        elif mode == 'knee':
            j = draw(st.sampled_from(knees))
            expected.append(list(pts[j]))
        elif mode == 'curve':
            expected.append(list(pts[draw(st.integers(0, n - 1))]))
        elif mode == 'perturbed':
            j = draw(st.sampled_from(knees))
            expected.append([pts[j][0] + xr * draw(st.sampled_from([0.0, 0.01, -0.01, 0.05, 0.125, -0.125])),
                             max(0.0, pts[j][1] + draw(st.sampled_from([0.0, 0.5, -0.5])))])
        elif mode == 'between' and len(knees) >= 2:
            i = draw(st.integers(0, len(knees) - 2))
            expected.append([(pts[knees[i]][0] + pts[knees[i + 1]][0]) / 2.0, pts[knees[i]][1]])
        else:
            expected.append([pts[-1][0] + xr * draw(st.sampled_from([0.5, 2.0])), draw(st.sampled_from([0.0, 100.0]))])
    tmode = draw(st.sampled_from(['std', 'occurring', 'occurring', 'zero']))
    if tmode == 'zero':
        t = 0.0
    elif tmode == 'std':
        t = draw(st.sampled_from([0.01, 0.05, 0.1, 0.25, 0.5]))
    else:
        e = draw(st.sampled_from(expected))
        kx = pts[draw(st.sampled_from(knees))][0]
        dxr = math.fabs(max(q[0] for q in pts) - min(q[0] for q in pts))
        t = math.fabs(kx - e[0]) / dxr
        if not (0 <= t <= 0.5):
            t = 0.1
    return {'family': c['family'], 'pts': pts, 'knees': knees, 'expected': expected, 't': t,
            'strategy': draw(st.sampled_from(STRATS)), 'perfect': False, 'int_points': draw(st.booleans())}


@st.composite
def perfect_cases(draw, tier):
    c = draw(S.curves(4, 30, scales=False, families=['mono_dec', 'convex', 'noise', 'pwl_dyadic', 'quant']))
    pts = c['pts']
    n = len(pts)
    k = draw(st.integers(1, max(1, (n - 1) // 2)))
    knees = sorted(draw(st.lists(st.integers(0, n - 1), min_size=k, max_size=k, unique=True)))
    return {'family': c['family'], 'pts': pts, 'knees': knees, 'expected': [list(pts[j]) for j in knees],
            't': draw(st.sampled_from([0.0, 1e-9, 0.001])), 'strategy': draw(st.sampled_from(STRATS)), 'perfect': True}


def reachable_tp(kx, ex, dx, t):
    """All TP counts reachable by the greedy matcher over every resolution of exact nearest ties
    (iterative; it only branches where two knees are exactly equally near)."""
    results = set()
    competed = False
    kxa = np.asarray(kx, dtype=float)
    stack = [(0, set(), 0)]
    while stack:
        i, used, tp = stack.pop()
        while i < len(ex):
            d = np.fabs(kxa - ex[i]) / dx
            mn = d.min()
            ties = np.flatnonzero(d == mn)
            for j in ties[1:]:                   # alternative resolutions of an exact tie
                j = int(j)
                if d[j] <= t and j not in used:
                    stack.append((i + 1, used | {j}, tp + 1))
                else:
                    competed |= bool(j in used and d[j] <= t)
                    stack.append((i + 1, set(used), tp))
            j = int(ties[0])
            if d[j] <= t and j not in used:
                used.add(j)
                tp += 1
            elif j in used and d[j] <= t:
                competed = True
            i += 1
        results.add(tp)
        if len(results) > 64 or len(stack) > 4096:
            break
    return results, competed


def nn_range(a, b, f):
    """(min, max) of sum over p in a of f(p, nearest b) over all choices among exactly-tied nearest b."""
    lo = hi = 0.0
    for p in a:
        d = np.linalg.norm(b - p, axis=1)
        mn = d.min()
        vals = [f(p, b[j]) for j in range(len(b)) if d[j] == mn]
        lo += min(vals)
        hi += max(vals)
    return lo, hi


def oracle(case, rec):
    L = lib.lib()
    ev = L.evaluation
    p = lib.pts_of(case)
    n = len(p)
    knees = np.array(case['knees'], dtype=int)
    E = np.array(case['expected'], dtype=float).reshape(-1, 2)
    t = float(case['t'])
    strat = getattr(ev.Strategy, case['strategy'])
    pf = p            # float view used by the reference computations
    if case.get('int_points') and np.all(p == np.floor(p)) and float(np.max(np.abs(p))) < 2 ** 30:
        p = p.astype(np.int64)      # an integer-typed curve is the same curve
        rec.tag('points:int64')
    rec.tag('family:' + case['family'], 'strategy:' + case['strategy'], 'perfect' if case['perfect'] else 'general')
    K, NE = len(knees), len(E)
    # ---- confusion matrix
    cm = rec.call(8, ev.cm, p, knees, E, t, _site='evaluation.cm')
    if cm is not FAILED:
        cm = np.asarray(cm)
        if rec.check(cm.shape == (2, 2), 'cm:shape', cm.shape):
            tp, fp, fn, tn = int(cm[0, 0]), int(cm[0, 1]), int(cm[1, 0]), int(cm[1, 1])
            rec.check(tp + fn == NE, 'cm:tp+fn!=|E|', (cm.tolist(), NE))
            rec.check(tp + fp == K, 'cm:tp+fp!=|K|', (cm.tolist(), K))
            rec.check(tp + fp + fn + tn == n, 'cm:entries-do-not-sum-to-n', (cm.tolist(), n))
            rec.check(min(tp, fp, fn, tn) >= 0, 'cm:negative-entry', cm.tolist())
            dx = math.fabs(float(pf[:, 0].max()) - float(pf[:, 0].min()))
            reach, competed = reachable_tp([float(v) for v in pf[knees, 0]], [float(v) for v in E[:, 0]], dx, t)
            rec.check(tp in reach, 'cm:tp-not-the-greedy-one-to-one-count',
                      'tp=%d reachable=%r knees_x=%r expected_x=%r t=%r dx=%r' % (tp, sorted(reach), p[knees, 0].tolist(), E[:, 0].tolist(), t, dx))
            if competed:
                rec.tag('cm:competition')
            rec.nontrivial = K != NE and competed
            acc = rec.call(8, ev.accuracy, cm, _site='evaluation.accuracy')
            f1 = rec.call(8, ev.f1score, cm, _site='evaluation.f1score')
            if acc is not FAILED:
                rec.check(0.0 <= float(acc) <= 1.0, 'accuracy:outside-[0,1]', float(acc))
                rec.check(abs(float(acc) - (tp + tn) / n) <= 1e-12, 'accuracy:value', (float(acc), cm.tolist()))
            if f1 is not FAILED:
                rec.check(0.0 <= float(f1) <= 1.0, 'f1:outside-[0,1]', float(f1))
                rec.check(abs(float(f1) - 2.0 * tp / (2 * tp + fp + fn)) <= 1e-12, 'f1:value', (float(f1), cm.tolist()))
            den = (tp + fp) * (tp + fn) * (tn + fp) * (tn + fn)
            if den != 0:
                mcc = rec.call(8, ev.mcc, cm, _site='evaluation.mcc')
                if mcc is not FAILED:
                    rec.check(-1.0 - 1e-12 <= float(mcc) <= 1.0 + 1e-12, 'mcc:outside-[-1,1]', float(mcc))
                    rec.check(abs(float(mcc) - (tp * tn - fp * fn) / math.sqrt(den)) <= 1e-12, 'mcc:value', (float(mcc), cm.tolist()))
                    if case['perfect']:
                        rec.check(abs(float(mcc) - 1.0) <= 1e-12, 'mcc:not-1-on-perfect-detection', float(mcc))
            if case['perfect']:
                rec.check((tp, fp, fn) == (K, 0, 0), 'cm:perfect-detection-miscounted', cm.tolist())
                if acc is not FAILED:
                    rec.check(float(acc) == 1.0, 'accuracy:not-1-on-perfect-detection', float(acc))
                if f1 is not FAILED:
                    rec.check(float(f1) == 1.0, 'f1:not-1-on-perfect-detection', float(f1))
    # ---- nearest-neighbour error scores
    kp = pf[knees]
    name = case['strategy']
    if name == 'knees':
        a, b = kp, E
    elif name == 'expected':
        a, b = E, kp
    elif name == 'best':
        a, b = (E, kp) if NE <= K else (kp, E)
    else:
        a, b = (E, kp) if NE >= K else (kp, E)
    vals = {}
    for fname in ('mae', 'mse', 'rmse', 'rmspe'):
        out = rec.call(8, getattr(ev, fname), p, knees, E, strat, _site='evaluation.' + fname)
        if out is FAILED:
            continue
        try:
            vals[fname] = float(out)
        except (TypeError, ValueError):
            rec.fail(fname + ':not-a-number', repr(out)[:60])
    with np.errstate(all='ignore'):
        if 'mae' in vals:
            lo, hi = nn_range(a, b, lambda u, v: float(np.sum(np.abs(u - v))))
            lo, hi = lo / (len(a) * 2.0), hi / (len(a) * 2.0)
            rec.check(lo * (1 - 1e-9) - 1e-300 <= vals['mae'] <= hi * (1 + 1e-9) + 1e-300, 'mae:not-mean-nearest-neighbour-error',
                      'impl=%r range=[%r,%r] strategy=%s |a|=%d' % (vals['mae'], lo, hi, name, len(a)))
        if 'mse' in vals:
            lo, hi = nn_range(a, b, lambda u, v: float(np.sum(np.square(u - v))))
            lo, hi = lo / (len(a) * 2.0), hi / (len(a) * 2.0)
            rec.check(lo * (1 - 1e-9) - 1e-300 <= vals['mse'] <= hi * (1 + 1e-9) + 1e-300, 'mse:not-mean-nearest-neighbour-error',
                      'impl=%r range=[%r,%r] strategy=%s' % (vals['mse'], lo, hi, name))
        if 'mse' in vals and 'rmse' in vals:
            rec.check(vals['rmse'] == math.sqrt(vals['mse']), 'rmse:not-sqrt-of-mse', (vals['rmse'], vals['mse']))
        if 'rmspe' in vals:
            lo, hi = nn_range(a, b, lambda u, v: float(np.sum(np.square((u - v) / (u + 1e-16)))))
            lo, hi = math.sqrt(lo / (len(a) * 2.0)), math.sqrt(hi / (len(a) * 2.0))
            ok = lo * (1 - 1e-9) - 1e-300 <= vals['rmspe'] <= hi * (1 + 1e-9) + 1e-300
            rec.check(ok or (vals['rmspe'] != vals['rmspe'] and (lo != lo or hi != hi)), 'rmspe:not-rms-nearest-neighbour-percentage-error',
                      'impl=%r range=[%r,%r] strategy=%s' % (vals['rmspe'], lo, hi, name))
    for fname, v in vals.items():
        rec.check(v >= 0 or v != v, fname + ':negative', v)
        if case['perfect']:
            rec.check(v == 0, fname + ':nonzero-when-E-is-exactly-the-knee-points', v)


@st.composite
def big_cases(draw, tier):
    """More than 4096 points on the iterated side of the nearest-neighbour scores."""
    n = draw(st.sampled_from([9000, 12000, 20000]))
    a = draw(st.sampled_from([5.0, 40.0]))
    side = draw(st.sampled_from(['expected', 'knees']))
    big = draw(st.sampled_from([4097, 5000, 6000]))
    small = draw(st.integers(3, 40))
    return {'family': 'big', 'n': n, 'a': a, 'side': side, 'big': big, 'small': small,
            'strategy': draw(st.sampled_from(STRATS)), 'dy': draw(st.sampled_from([0.0, 0.5, 3.0]))}


def oracle_big(case, rec):
    n = case['n']
    x = np.arange(1, n + 1, dtype=float)
    pts = [[float(v), float(1000.0 * case['a'] / (v + case['a']))] for v in x]
    nk = case['big'] if case['side'] == 'knees' else case['small']
    ne = case['big'] if case['side'] == 'expected' else case['small']
    knees = [int(v) for v in np.linspace(1, n - 2, nk).astype(int)]
    knees = sorted(set(knees))
    eidx = np.linspace(2, n - 3, ne).astype(int)
    expected = [[pts[i][0] + 0.25, pts[i][1] + case['dy']] for i in eidx]
    full = {'family': 'big', 'pts': pts, 'knees': knees, 'expected': expected, 't': 0.0001,
            'strategy': case['strategy'], 'perfect': False, 'int_points': False}
    oracle(full, rec)


SUBS = [
    Sub('big', oracle_big, strategy=big_cases, budget={'quick': 24, 'thorough': 240}),
    Sub('scores', oracle, strategy=cases, budget={'quick': 9600, 'thorough': 160000}, fuzz={'thorough': 20000}),
    Sub('perfect', oracle, strategy=perfect_cases, budget={'quick': 1600, 'thorough': 32000}),
]
