"""C17 - geometric and ranking primitives equal their geometric definitions."""
import itertools
import math

import numpy as np
from hypothesis import strategies as st

from .. import lib, exact as X
from ..lib import FAILED, EPS
from ..runner import Sub

ID = 'C17'
TECHNIQUE = 'PBT against exact rational geometry with conditioning-aware tolerances'
LEVEL_TEXT = 'Exploration: Distances, IoU, Menger curvature, rank; offsets, short segments, integer-typed triples. Finds counter-examples (shrunk to a replay file); never proves absence.'
RULE = ('Sub-checks: distance (shortest / perpendicular / index variant vs exact rational geometry), '
        'rect (IoU vs rational reference, symmetry, range), menger (reciprocal circumradius, 6 '
        'permutations), rank (permutation ordering the values), misc (distances, similarity, triangle '
        'area).  Coordinates: integers, dyadics j/8, floats, common scale 10^k k in [-6,9]; degenerate '
        'inputs (a == b, points on/beyond the segment ends, touching/nested/identical/degenerate '
        'rectangles, collinear triples, ties).  Non-trivial: distance case with both a clamped and an '
        'unclamped projection at non-zero distance; rectangles with 0 < IoU < 1; non-collinear triple; '
        'rank input with >= 3 values and a tie.  Distinct by digest of the case.')
ASSUMPTIONS = ['tolerance |impl-ref| <= 1e-9*ref + 64*eps*(scale*(1+|p-a|/|b-a|)+|p-a|) for distances '
               '(conditioning of the cross product); exact rational reference over the input doubles']


def coords(k):
    base = st.one_of(st.integers(-1000, 1000).map(float),
                     st.integers(-8000, 8000).map(lambda j: j / 8.0),
                     # floats of ordinary magnitude: values below 1e-6 (incl. subnormals, where the
                     # implementation's intermediate products underflow) are snapped to 0
                     st.floats(-1000, 1000, allow_nan=False, allow_infinity=False)
                     .map(lambda v: v if abs(v) >= 1e-6 else 0.0))
    f = 10.0 ** k
    return base.map(lambda v: v * f)


@st.composite
def point(draw, k):
    return [draw(coords(k)), draw(coords(k))]


# ------------------------------------------------------------------ distance primitives
@st.composite
def distance_cases(draw, tier):
    k = draw(st.sampled_from([0, 0, 0, -6, -3, 3, 6, 9]))
    a = draw(point(k))
    same = draw(st.integers(0, 9)) == 0
    b = list(a) if same else draw(point(k))
    geo = draw(st.sampled_from(['plain', 'plain', 'plain', 'offset', 'short']))
    if geo == 'offset' and not same:      # large common offset, small extent (time stamps, counters)
        ox, oy = draw(st.sampled_from([(1e6, 0.0), (1.7e9, 3.2e9), (1e6, 1e6), (1000.0, 1000.0)]))
        a = [ox + draw(st.integers(0, 50)), oy + draw(st.integers(0, 50)) / 4.0]
        b = [a[0] + draw(st.integers(1, 40)), a[1] + draw(st.integers(-40, 40)) / 4.0]
    elif geo == 'short' and not same:     # a genuine segment that is short relative to its coordinates
        d = draw(st.sampled_from([1e-3, 1e-5, 1e-6]))
        a = [1000.0 + draw(st.integers(0, 9)), 1000.0 + draw(st.integers(0, 9))]
        b = [a[0] + 8 * d, a[1] + draw(st.sampled_from([0.0, 4.0, -2.0])) * d]
    n = draw(st.integers(1, 12 if tier == 'quick' else 40))
    pts = []
    for _ in range(n):
        mode = draw(st.sampled_from(['free', 'free', 'on', 'beyond', 'end']))
        if mode == 'free' and geo != 'plain' and not same:
            ext = max(abs(b[0] - a[0]), abs(b[1] - a[1]))
            pts.append([a[0] + ext * draw(st.integers(-8, 16)) / 4.0, a[1] + ext * draw(st.integers(-8, 16)) / 4.0])
        elif mode == 'free' or same:
            pts.append(draw(point(k)))
        elif mode == 'end':
            pts.append(list(draw(st.sampled_from([a, b]))))
        else:
            t = draw(st.sampled_from([0.25, 0.5, 0.75])) if mode == 'on' else draw(st.sampled_from([-1.0, -0.5, 1.5, 2.0, 3.0]))
            pts.append([a[0] + t * (b[0] - a[0]), a[1] + t * (b[1] - a[1])])
    return {'kind': 'distance', 'k': k, 'geo': geo, 'a': a, 'b': b, 'pts': pts, 'int_pts': draw(st.integers(0, 3)) == 0}


def dist_tol(ref, p, a, b, scale):
    pa = math.hypot(p[0] - a[0], p[1] - a[1])
    ab = math.hypot(b[0] - a[0], b[1] - a[1])
    cond = (1.0 + pa / ab) if ab > 0 else 1.0
    return 1e-9 * ref + 64 * EPS * (scale * cond + pa)


def oracle_distance(case, rec):
    L = lib.lib()
    a = np.array(case['a'], dtype=float)
    b = np.array(case['b'], dtype=float)
    p = np.array(case['pts'], dtype=float).reshape(-1, 2)
    p_arg = p
    if case.get('int_pts') and float(np.max(np.abs(p))) < 2 ** 30:
        p = np.round(p)                  # integer-typed points, end points stay fractional
        p_arg = p.astype(np.int64)
        rec.tag('dist:int-points')
    scale = max(1e-300, float(np.max(np.abs(np.vstack([p, a, b])))))
    fa, fb = X.pt(a), X.pt(b)
    rec.tag('dist:k=%d' % case['k'], 'dist:a==b' if fa == fb else 'dist:a!=b', 'dist:geo=' + case.get('geo', 'plain'))
    out = rec.call(8, L.lf.shortest_distance_points, p_arg, a, b, _site='lf.shortest_distance_points')
    clamped = unclamped = False
    if out is not FAILED:
        out = np.asarray(out, dtype=float)
        if rec.check(out.shape == (len(p),), 'shortest:shape', out.shape):
            for i in range(len(p)):
                q2, cl = X.seg_dist2(X.pt(p[i]), fa, fb)
                ref = X.fsqrt(q2)
                if ref > 0:
                    clamped |= cl
                    unclamped |= not cl
                tol = dist_tol(ref, p[i], a, b, scale)
                if not (abs(out[i] - ref) <= tol):
                    rec.fail('shortest:value' + (':clamped' if cl else ':inside'),
                             'p=%r a=%r b=%r impl=%r ref=%r tol=%g' % (p[i].tolist(), a.tolist(), b.tolist(), float(out[i]), ref, tol))
                    break
    if fa != fb:
        out = rec.call(8, L.lf.perpendicular_distance_points, p_arg, a, b, _site='lf.perpendicular_distance_points')
        if out is not FAILED:
            out = np.asarray(out, dtype=float)
            if rec.check(out.shape == (len(p),), 'perpendicular:shape', out.shape):
                for i in range(len(p)):
                    ref = X.fsqrt(X.line_dist2(X.pt(p[i]), fa, fb))
                    tol = dist_tol(ref, p[i], a, b, scale)
                    if not (abs(out[i] - ref) <= tol):
                        rec.fail('perpendicular:value',
                                 'p=%r a=%r b=%r impl=%r ref=%r tol=%g' % (p[i].tolist(), a.tolist(), b.tolist(), float(out[i]), ref, tol))
                        break
    rec.nontrivial = clamped and unclamped


@st.composite
def index_cases(draw, tier):
    k = draw(st.sampled_from([0, 0, -3, 3, 6]))
    n = draw(st.integers(2, 14 if tier == 'quick' else 40))
    pts = draw(st.lists(point(k), min_size=n, max_size=n))
    left = draw(st.integers(0, n - 2))
    right = draw(st.integers(left + 1, n - 1))
    return {'kind': 'index', 'k': k, 'pts': pts, 'left': left, 'right': right}


def oracle_index(case, rec):
    L = lib.lib()
    p = np.array(case['pts'], dtype=float).reshape(-1, 2)
    l, r = case['left'], case['right']
    scale = max(1e-300, float(np.max(np.abs(p))))

    def compare(out, lo, hi, label):
        out = np.asarray(out, dtype=float)
        if not rec.check(out.shape == (hi - lo + 1,), label + ':shape', (out.shape, hi - lo + 1)):
            return
        fa, fb = X.pt(p[lo]), X.pt(p[hi])
        for i in range(lo, hi + 1):
            ref = X.fsqrt(X.line_dist2(X.pt(p[i]), fa, fb))
            tol = dist_tol(ref, p[i], p[lo], p[hi], scale)
            if not (abs(out[i - lo] - ref) <= tol):
                rec.fail(label + ':value', 'i=%d left=%d right=%d impl=%r ref=%r tol=%g pts=%r' %
                         (i, lo, hi, float(out[i - lo]), ref, tol, p.tolist()))
                return
    rec.tag('index:left=0' if l == 0 else 'index:left>0')
    if X.pt(p[l]) != X.pt(p[r]):
        out = rec.call(8, L.lf.perpendicular_distance_index, p, l, r, _site='lf.perpendicular_distance_index')
        if out is not FAILED:
            compare(out, l, r, 'perp_index')
        rec.nontrivial = l > 0 and r - l >= 2
    if X.pt(p[0]) != X.pt(p[-1]):
        out = rec.call(8, L.lf.perpendicular_distance, p, _site='lf.perpendicular_distance')
        if out is not FAILED:
            compare(out, 0, len(p) - 1, 'perp_whole')


# ------------------------------------------------------------------ rectangles
@st.composite
def rect_cases(draw, tier):
    k = draw(st.sampled_from([0, 0, 0, -6, -3, 3, 9, -9, -8]))
    c = st.one_of(st.integers(0, 20).map(float), coords(0))
    f = 10.0 ** k

    def mk():
        x0, x1 = sorted([draw(c), draw(c)])
        y0, y1 = sorted([draw(c), draw(c)])
        return [x0 * f, y0 * f], [x1 * f, y1 * f]
    amin, amax = mk()
    mode = draw(st.sampled_from(['free', 'free', 'identical', 'nested', 'touch', 'degenerate', 'disjoint']))
    if mode == 'identical':
        bmin, bmax = list(amin), list(amax)
    elif mode == 'nested':
        w, h = amax[0] - amin[0], amax[1] - amin[1]
        bmin, bmax = [amin[0] + w / 4, amin[1] + h / 4], [amax[0] - w / 4, amax[1] - h / 4]
    elif mode == 'touch':
        w = amax[0] - amin[0]
        bmin, bmax = [amax[0], amin[1]], [amax[0] + w + f, amax[1]]
    elif mode == 'degenerate':
        bmin, bmax = mk()
        bmax[0] = bmin[0]
    elif mode == 'disjoint':
        w = amax[0] - amin[0]
        bmin, bmax = [amax[0] + f, amin[1]], [amax[0] + w + 2 * f, amax[1]]
    else:
        bmin, bmax = mk()
    return {'kind': 'rect', 'mode': mode, 'amin': amin, 'amax': amax, 'bmin': bmin, 'bmax': bmax}


def iou_ref(amin, amax, bmin, bmax):
    A = [X.fr(v) for v in amin + amax]
    B = [X.fr(v) for v in bmin + bmax]
    dx = max(0, min(A[2], B[2]) - max(A[0], B[0]))
    dy = max(0, min(A[3], B[3]) - max(A[1], B[1]))
    inter = dx * dy
    if inter <= 0:
        return 0.0, inter
    union = (A[2] - A[0]) * (A[3] - A[1]) + (B[2] - B[0]) * (B[3] - B[1]) - inter
    return float(inter / union), inter


def oracle_rect(case, rec):
    L = lib.lib()
    kr = L.knee_ranking
    amin, amax, bmin, bmax = (case[k] for k in ('amin', 'amax', 'bmin', 'bmax'))
    arr = [np.array(v, dtype=float) for v in (amin, amax, bmin, bmax)]
    rec.tag('rect:' + case['mode'])
    v1 = rec.call(8, kr.rect_overlap, *arr, _site='kr.rect_overlap')
    v2 = rec.call(8, kr.rect_overlap, arr[2], arr[3], arr[0], arr[1], _site='kr.rect_overlap')
    if v1 is FAILED or v2 is FAILED:
        return
    v1, v2 = float(v1), float(v2)
    ref, inter = iou_ref(amin, amax, bmin, bmax)
    tol = 1e-9 * max(ref, 1e-300) + 1e-12
    rec.check(abs(v1 - ref) <= tol, 'rect:value', 'impl=%r ref=%r %r' % (v1, ref, case))
    rec.check(abs(v1 - v2) <= tol, 'rect:symmetry', '%r vs %r %r' % (v1, v2, case))
    rec.check(-0.0 <= v1 <= 1.0 + 1e-12, 'rect:range', v1)
    if inter == 0:
        rec.check(v1 == 0.0, 'rect:disjoint-not-zero', (v1, case))
    nondeg = amin[0] < amax[0] and amin[1] < amax[1]
    if nondeg:
        s = rec.call(8, kr.rect_overlap, arr[0], arr[1], arr[0].copy(), arr[1].copy(), _site='kr.rect_overlap')
        if s is not FAILED:
            rec.check(abs(float(s) - 1.0) <= 1e-12, 'rect:identical-not-one', (float(s), amin, amax))
    # rect() builds the low/high corners from two arbitrary corner points
    corners = rec.call(8, kr.rect, arr[1], arr[0], _site='kr.rect')
    if corners is not FAILED and rec.check(isinstance(corners, tuple) and len(corners) == 2, 'rect:corners', corners):
        lo, hi = corners
        rec.check(list(map(float, lo)) == [min(amin[0], amax[0]), min(amin[1], amax[1])] and
                  list(map(float, hi)) == [max(amin[0], amax[0]), max(amin[1], amax[1])],
                  'rect:corners', (lo, hi))
    rec.nontrivial = 0.0 < ref < 1.0


# ------------------------------------------------------------------ Menger curvature
@st.composite
def menger_cases(draw, tier):
    k = draw(st.sampled_from([0, 0, 0, -6, -3, 3, 6, 9]))
    mode = draw(st.sampled_from(['free', 'free', 'collinear', 'isosceles', 'curve']))
    f = 10.0 ** k
    if mode == 'collinear':
        x0 = draw(st.integers(-50, 50)); y0 = draw(st.integers(-50, 50))
        dx = draw(st.integers(-8, 8)); dy = draw(st.integers(-8, 8))
        if dx == 0 and dy == 0:
            dx = 1
        t1, t2 = draw(st.sampled_from([(1, 2), (1, 3), (2, 5), (-1, 1), (3, -2)]))
        pts = [[x0, y0], [x0 + t1 * dx, y0 + t1 * dy], [x0 + t2 * dx, y0 + t2 * dy]]
        pts = [[a * f / 8.0, b * f / 8.0] for a, b in pts]
    elif mode == 'isosceles':
        w = draw(st.integers(1, 40)); h = draw(st.integers(1, 40))
        pts = [[0.0, 0.0], [w * f, h * f], [2.0 * w * f, 0.0]]
    elif mode == 'curve':  # three consecutive points of a curve: strictly increasing x
        x0 = draw(st.integers(0, 100)); s1 = draw(st.integers(1, 4)); s2 = draw(st.integers(1, 4))
        ys = draw(st.lists(st.integers(0, 64), min_size=3, max_size=3))
        pts = [[x0 * f, ys[0] * f / 8.0], [(x0 + s1) * f, ys[1] * f / 8.0], [(x0 + s1 + s2) * f, ys[2] * f / 8.0]]
    else:
        pts = [draw(point(k)) for _ in range(3)]
    return {'kind': 'menger', 'mode': mode, 'k': k, 'pts': pts, 'int64': draw(st.booleans())}


def menger_ref(f, g, h):
    F_, G_, H_ = X.pt(f), X.pt(g), X.pt(h)
    c = abs(X.cross(F_, G_, H_))
    prod = X.d2(F_, G_) * X.d2(G_, H_) * X.d2(H_, F_)
    return 2.0 * float(c) / X.fsqrt(prod), c


def oracle_menger(case, rec):
    L = lib.lib()
    pts = [np.array(p, dtype=float) for p in case['pts']]
    fp = [X.pt(p) for p in pts]
    rec.tag('menger:' + case['mode'])
    call_pts = pts
    flat = [v for p in pts for v in p]
    if case.get('int64') and all(float(v).is_integer() for v in flat) and max(abs(v) for v in flat) < 2 ** 30:
        arr = np.array(case['pts'], dtype=np.int64)      # rows of an integer-typed curve
        call_pts = [arr[0], arr[1], arr[2]]
        rec.tag('menger:int64')
    if len(set(fp)) < 3:
        rec.tag('menger:coincident-skipped')   # circumradius undefined, outside the definition
        return
    ref, c = menger_ref(*pts)
    scale = max(abs(v) for p in pts for v in p) or 1.0
    ls = [math.hypot(*(pts[i] - pts[j])) for i, j in ((0, 1), (1, 2), (2, 0))]
    dem = ls[0] * ls[1] * ls[2]
    vals = []
    for perm in itertools.permutations(range(3)):
        a, b, cc = (pts[i] for i in perm)
        v = rec.call(8, L.menger.menger_curvature, *(call_pts[i] for i in perm), _site='menger.menger_curvature')
        if v is FAILED:
            return
        v = float(v)
        l1 = math.hypot(*(b - a)); l2 = math.hypot(*(cc - b))
        tol = 1e-9 * ref + 2 * 64 * EPS * (scale * (l1 + l2) + l1 * l2) / dem
        vals.append(v)
        if not rec.check(abs(v - ref) <= tol, 'menger:value',
                         'perm=%r impl=%r ref=%r tol=%g pts=%r' % (perm, v, ref, tol, case['pts'])):
            return
    if c == 0:
        rec.check(all(abs(v) <= 2 * 64 * EPS * (scale * 2 * max(ls) + max(ls) ** 2) / dem for v in vals),
                  'menger:collinear-not-zero', (vals, case['pts']))
    rec.nontrivial = c != 0


# ------------------------------------------------------------------ rank / misc
@st.composite
def rank_cases(draw, tier):
    n = draw(st.integers(1, 12 if tier == 'quick' else 60))
    kind = draw(st.sampled_from(['int', 'float', 'ties']))
    if kind == 'int':
        vals = [float(v) for v in draw(st.lists(st.integers(-5, 5), min_size=n, max_size=n))]
    elif kind == 'ties':
        vals = [float(v) for v in draw(st.lists(st.sampled_from([0.0, 0.5, 1.0]), min_size=n, max_size=n))]
    else:
        vals = draw(st.lists(st.floats(-1e6, 1e6, allow_nan=False), min_size=n, max_size=n))
    p = draw(point(0))
    return {'kind': 'rank', 'vals': vals, 'int_dtype': draw(st.booleans()) and kind != 'float', 'point': p,
            'others': draw(st.lists(point(draw(st.sampled_from([0, 3, -3]))), min_size=1, max_size=6)),
            'tri': draw(st.lists(point(0), min_size=3, max_size=3))}


def oracle_rank(case, rec):
    L = lib.lib()
    kr = L.knee_ranking
    a = np.array(case['vals'], dtype=np.int64 if case['int_dtype'] else float)
    n = len(a)
    out = rec.call(8, kr.rank, a, _site='kr.rank')
    if out is not FAILED:
        out = np.asarray(out)
        ok = rec.check(out.shape == (n,) and sorted(int(v) for v in out) == list(range(n)),
                       'rank:not-permutation', (out.tolist(), a.tolist()))
        if ok:
            for i in range(n):
                for j in range(n):
                    if a[i] < a[j] and not out[i] < out[j]:
                        rec.fail('rank:order', (a.tolist(), out.tolist()))
                        break
                else:
                    continue
                break
    sim = rec.call(8, kr.distance_to_similarity, a.astype(float), _site='kr.distance_to_similarity')
    if sim is not FAILED:
        af = a.astype(float)
        rec.check(np.array_equal(np.asarray(sim), af.max() - af), 'similarity:value', (np.asarray(sim).tolist(), af.tolist()))
    # Euclidean distances from one point to a vector of points
    pt = np.array(case['point'], dtype=float)
    others = np.array(case['others'], dtype=float).reshape(-1, 2)
    d = rec.call(8, kr.distances, pt, others, _site='kr.distances')
    if d is not FAILED:
        d = np.asarray(d, dtype=float)
        if rec.check(d.shape == (len(others),), 'distances:shape', d.shape):
            sc = max(float(np.max(np.abs(others))), float(np.max(np.abs(pt))), 1e-300)
            for i, o in enumerate(others):
                ref = X.fsqrt(X.d2(X.pt(pt), X.pt(o)))
                rec.check(abs(d[i] - ref) <= 1e-12 * ref + 16 * EPS * sc, 'distances:value',
                          (float(d[i]), ref, pt.tolist(), o.tolist()))
    tri = np.array(case['tri'], dtype=float)
    ar = rec.call(8, L.postprocessing.triangle_area, tri, _site='pp.triangle_area')
    if ar is not FAILED:
        ref = abs(float(X.cross(X.pt(tri[0]), X.pt(tri[1]), X.pt(tri[2])))) / 2.0
        sc = float(np.max(np.abs(tri))) or 1.0
        rec.check(abs(abs(float(ar)) - ref) <= 1e-9 * ref + 64 * EPS * sc * sc, 'triangle_area:magnitude',
                  (float(ar), ref, tri.tolist()))
    rec.nontrivial = n >= 3 and len(set(case['vals'])) < n and len(set(case['vals'])) > 1


def examples_menger(tier):
    return [{'kind': 'menger', 'mode': 'curve', 'k': 0, 'pts': [[0.0, 0.0], [1.0, 1.0], [2.0, 0.0]]},
            {'kind': 'menger', 'mode': 'curve', 'k': 0, 'pts': [[0.0, 3.0], [1.0, 1.0], [3.0, 0.5]]}]


SUBS = [
    Sub('distance', oracle_distance, strategy=distance_cases, budget={'quick': 4800, 'thorough': 80000}),
    Sub('index', oracle_index, strategy=index_cases, budget={'quick': 3200, 'thorough': 40000}),
    Sub('rect', oracle_rect, strategy=rect_cases, budget={'quick': 4800, 'thorough': 80000}),
    Sub('menger', oracle_menger, strategy=menger_cases, budget={'quick': 4800, 'thorough': 80000},
        examples=examples_menger),
    Sub('rank', oracle_rank, strategy=rank_cases, budget={'quick': 3200, 'thorough': 40000}),
]
