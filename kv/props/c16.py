"""C16 - regression metrics and linear-fit helpers equal their mathematical definitions."""
import math
from fractions import Fraction as F

import numpy as np
from hypothesis import strategies as st

from .. import lib
from ..lib import FAILED
from ..runner import Sub

ID = 'C16'
WARM_EXTRA = True
TECHNIQUE = 'PBT against textbook formulas (fsum / exact rational Pearson) + algebraic laws + wrapper differential'
LEVEL_TEXT = 'Exploration: 1e-9 relative; R2 skipped when 0/0-conditioned. Finds counter-examples (shrunk to a replay file); never proves absence.'
RULE = ('metrics: equal-length vector pairs n >= 1 (>= 3 for adjusted R2), finite, magnitudes 10^[-9,12], '
        'y, y_hat >= 0 where logs/ratios need it, float64 and int64, contiguous and strided, eps in {default, '
        '1e-8, 0.5}; oracle = textbook formulas with math.fsum (1e-9 relative, conditioning-aware floor for R2) '
        'plus derived laws (symmetry, >= 0, zero at y = y_hat, smape <= 2, R2 <= 1).  wrappers: curves x '
        'coefficient pairs; linear_fit.<metric>(x, y, coef) == metrics.<metric>(y, m*x+b); endpoint fit '
        'passes through first and last point; best-fit R2 == exact rational squared Pearson correlation; '
        'adjusted variants apply (n-1)/(n-2).  Non-trivial: y != y_hat in >= 2 components.')
ASSUMPTIONS = ['R2 value checks are skipped when tss < 1e-12 * sum(y^2) unless y is an exactly representable constant (0/0 otherwise)']

EPS_DEFAULT = 1e-16


def vec(draw, n, k, nonneg, integral):
    if n > 400:     # long vectors: a drawn 37-value pattern, tiled with an index-dependent factor
        pat = vec(draw, 37, k, nonneg, integral)
        return [pat[i % 37] * (1 + (i % 5)) for i in range(n)]
    if integral:
        base = st.integers(0 if nonneg else -50, 50).map(float)
    else:
        lo = 0.0 if nonneg else -1.0
        base = st.one_of(st.floats(lo, 1.0, allow_nan=False).map(lambda v: v if abs(v) >= 1e-6 else 0.0),
                         st.sampled_from([0.0, 1.0, 0.5]))
    f = 10.0 ** k
    return [v * f for v in draw(st.lists(base, min_size=n, max_size=n))]


@st.composite
def metric_cases(draw, tier):
    n = draw(st.one_of(st.integers(1, 8), st.integers(1, 8), st.integers(1, 40 if tier == 'quick' else 300),
                       st.integers(1, 40 if tier == 'quick' else 300), st.integers(4000, 10000)))
    integral = draw(st.integers(0, 3)) == 0
    k = 0 if integral else draw(st.sampled_from([0, 0, 0, -9, -4, 3, 6, 12]))
    y = vec(draw, n, k, True, integral)
    rel = draw(st.sampled_from(['free', 'free', 'equal', 'near', 'partial']))
    if rel == 'equal':
        yh = list(y)
    elif rel == 'near':
        yh = [v * (1 + 1e-3) for v in y]
    elif rel == 'partial':
        yh = list(y)
        if n:
            yh[draw(st.sampled_from([0, n - 1, n // 2, max(0, n - 2)]))] += 10.0 ** k
    else:
        yh = vec(draw, n, k, True, integral)
    return {'kind': 'metric', 'y': y, 'yh': yh, 'rel': rel, 'k': k, 'integral': integral,
            'layout': draw(st.sampled_from(['C', 'C', 'strided'])), 'int64': integral and draw(st.booleans()),
            'int64_y_only': integral and draw(st.booleans()),
            'eps': draw(st.sampled_from([None, None, 1e-8, 0.5]))}


def layout(a, how, int64):
    a = np.array(a, dtype=np.int64 if int64 else float)
    if how == 'strided':
        big = np.zeros(len(a) * 2 + 1, dtype=a.dtype)
        big[1::2] = a
        return big[1::2]
    return a


def close(impl, ref, rel=1e-9, floor=0.0):
    if ref != ref or impl != impl:
        return (ref != ref) and (impl != impl)
    if math.isinf(ref) or math.isinf(impl):
        return ref == impl
    return abs(impl - ref) <= rel * abs(ref) + floor


def refs(y, yh, eps):
    n = len(y)
    fs = math.fsum
    d = [a - b for a, b in zip(y, yh)]
    out = {}
    out['residuals'] = fs(v * v for v in d)
    out['rmse'] = math.sqrt(out['residuals'] / n)
    # log1p: the value of log(y+1) itself; an implementation that forms y+1 (or (y+1)/(yh+1)) first
    # commits a relative rounding error in the argument, i.e. an ABSOLUTE error of ~eps in each
    # logarithm - hence the absolute allowance 'rmsle_floor' (the RMS is 1-Lipschitz in the terms)
    try:
        out['rmsle'] = math.sqrt(fs((math.log1p(a) - math.log1p(b)) ** 2 for a, b in zip(y, yh)) / n)
        out['rmsle_floor'] = 8 * float(np.finfo(float).eps) * (1.0 + max(max(abs(math.log1p(a)), abs(math.log1p(b))) for a, b in zip(y, yh)))
    except ValueError:
        out['rmsle'] = None
        out['rmsle_floor'] = 0.0
    with np.errstate(all='ignore'):
        try:
            out['rmspe'] = math.sqrt(fs(((a - b) / (a + eps)) ** 2 for a, b in zip(y, yh)) / n)
        except (ZeroDivisionError, OverflowError):
            out['rmspe'] = None
        try:
            out['rpd'] = fs(abs((a - b) / (max(a, b) + eps)) for a, b in zip(y, yh)) / n
        except (ZeroDivisionError, OverflowError):
            out['rpd'] = None
        try:
            out['smape'] = fs(2.0 * abs(b - a) / (abs(a) + abs(b) + eps) for a, b in zip(y, yh)) / n
        except (ZeroDivisionError, OverflowError):
            out['smape'] = None
    mean = fs(y) / n
    tss = fs((a - mean) ** 2 for a in y)
    rss = out['residuals']
    out['tss'], out['rss'] = tss, rss
    out['r2'] = (1.0 - rss) if tss == 0 else 1.0 - rss / tss
    return out


def exact_constant(vals):
    """All values identical and a small dyadic, so every implementation's mean is exact and tss == 0.
    (A constant like 0.1 gives tss == 0 or ~1e-34 depending on summation order: R2 is then 0/0.)"""
    v0 = vals[0]
    return all(v == v0 for v in vals) and abs(v0) < 2 ** 20 and float(v0 * 2 ** 20).is_integer() and len(vals) < 2 ** 10


def oracle_metric(case, rec):
    L = lib.lib()
    m = L.metrics
    y = layout(case['y'], case['layout'], case['int64'] or case.get('int64_y_only', False))
    yh = layout(case['yh'], case['layout'], case['int64'] and not case.get('int64_y_only', False))
    n = len(y)
    eps = case['eps']
    e = EPS_DEFAULT if eps is None else eps
    yl, yhl = [float(v) for v in y], [float(v) for v in yh]
    R = refs(yl, yhl, e)
    rec.tag('rel:' + case['rel'], 'layout:%s/%s/%s' % (case['layout'], y.dtype.name, yh.dtype.name), 'eps:%r' % eps)
    scale2 = max(max(abs(v) for v in yl + yhl), 1e-300) ** 2

    def call(f, *a):
        return rec.call(8, f, *a, _site='metrics.' + getattr(getattr(f, 'py_func', f), '__name__', 'f'))

    def num(v, name):
        try:
            return float(v)
        except (TypeError, ValueError):
            rec.fail(name + ':not-a-number', repr(v)[:60])
            return None

    vals = {}
    for name, args in (('rmse', ()), ('rmsle', ()), ('residuals', ()), ('rmspe', (e,) if eps is not None else ()),
                       ('rpd', (e,) if eps is not None else ()), ('smape', (e,) if eps is not None else ())):
        out = call(getattr(m, name), y, yh, *args)
        if out is FAILED:
            continue
        v = num(out, name)
        if v is None or R[name] is None:
            continue
        vals[name] = v
        floor = 1e-12 * scale2 if name == 'residuals' else R['rmsle_floor'] if name == 'rmsle' else 0.0
        rec.check(close(v, R[name], 1e-9, floor), name + ':value', 'impl=%r ref=%r y=%r yh=%r eps=%r' % (v, R[name], yl[:6], yhl[:6], eps))
        rec.check(v >= 0 or v != v, name + ':negative', v)
        if case['rel'] == 'equal':
            rec.check(v == 0, name + ':nonzero-at-y-equals-yhat', v)
    if 'smape' in vals:
        rec.check(vals['smape'] <= 2.0 + 1e-12, 'smape:above-2', vals['smape'])
    # symmetry
    for name in ('rmse', 'smape', 'residuals'):
        a = call(getattr(m, name), y, yh)
        b = call(getattr(m, name), yh, y)
        if a is not FAILED and b is not FAILED:
            rec.check(close(float(a), float(b), 1e-12, 1e-300), name + ':asymmetric', (float(a), float(b)))
    # R2 (classic for n >= 1, adjusted for n >= 3)
    out = call(m.r2, y, yh)
    if out is not FAILED:
        v = num(out, 'r2')
        if v is not None:
            sy2 = math.fsum(a * a for a in yl)
            if exact_constant(yl) or R['tss'] >= 1e-12 * sy2:
                ratio = 0.0 if R['tss'] == 0 else R['rss'] / R['tss']
                rec.check(close(v, R['r2'], 1e-9, 1e-9 * (1 + ratio) + (1e-9 * scale2 if R['tss'] == 0 else 0)), 'r2:value',
                          'impl=%r ref=%r tss=%r rss=%r y=%r yh=%r' % (v, R['r2'], R['tss'], R['rss'], yl[:6], yhl[:6]))
            rec.check(v <= 1.0 + 1e-12, 'r2:above-1', v)
            if n >= 3:
                adj = call(m.r2, y, yh, m.R2.adjusted)
                if adj is not FAILED:
                    want = 1.0 - (1.0 - v) * ((n - 1) / (n - 2))
                    rec.check(close(float(adj), want, 1e-12, 1e-12 * (1 + abs(want))), 'r2:adjusted-correction', (float(adj), want, n))
    rec.nontrivial = sum(1 for a, b in zip(yl, yhl) if a != b) >= 2


# ------------------------------------------------------------------ wrappers and fits
@st.composite
def wrapper_cases(draw, tier):
    from .. import strategies as S
    c = draw(S.curves(2, 30 if tier == 'quick' else 120))
    coef_mode = draw(st.sampled_from(['endpoint', 'free', 'flat']))
    return {'kind': 'wrapper', 'family': c['family'], 'pts': c['pts'], 'coef_mode': coef_mode,
            'b': draw(st.floats(-10, 10)), 'm': draw(st.floats(-3, 3)), 'xorder': draw(st.sampled_from(['asc', 'asc', 'desc', 'swap']))}


def pearson_r2(xs, ys):
    n = len(xs)
    X = [F(float(v)) for v in xs]
    Y = [F(float(v)) for v in ys]
    mx, my = sum(X) / n, sum(Y) / n
    sxx = sum((a - mx) ** 2 for a in X)
    syy = sum((b - my) ** 2 for b in Y)
    sxy = sum((a - mx) * (b - my) for a, b in zip(X, Y))
    if sxx == 0 or syy == 0:
        return None, False
    # Pearson's r is translation invariant and np.corrcoef centres the data first, so large common
    # offsets (time stamps, counters) are fine; only a spread near the rounding level of the values
    # (relative spread < 1e-7 of the magnitude) makes the centred data meaningless
    well = float(syy) >= 1e-14 * float(sum(b * b for b in Y)) and float(sxx) >= 1e-14 * float(sum(a * a for a in X))
    return float(sxy * sxy / (sxx * syy)), well


def oracle_wrapper(case, rec):
    L = lib.lib()
    lf, m = L.lf, L.metrics
    p = lib.pts_of(case)
    n = len(p)
    x, y = p[:, 0], p[:, 1]
    rec.tag('family:' + case['family'], 'coef:' + case['coef_mode'])
    # the endpoint fit is defined for any two vectors whose first and last abscissa differ: the
    # library itself calls linear_fit(y, x) on decreasing data (linear_hv_residuals)
    xo = case.get('xorder', 'asc')
    if xo == 'desc':
        p = p[::-1].copy()
        x, y = p[:, 0], p[:, 1]
    elif xo == 'swap' and y[0] != y[-1]:
        p = np.column_stack((y, x))
        x, y = p[:, 0], p[:, 1]
    rec.tag('xorder:' + xo)
    fit = rec.call(8, lf.linear_fit_points, p, _site='lf.linear_fit_points')
    fit2 = rec.call(8, lf.linear_fit, x, y, _site='lf.linear_fit')
    if fit is FAILED or fit2 is FAILED:
        return
    def near(u, v, scale=0.0):
        # the (x, y) and the points variants are the same function of the same data: equal to rounding
        u, v = float(u), float(v)
        return u == v or (u != u and v != v) or abs(u - v) <= 1e-9 * max(abs(u), abs(v)) + 64 * lib.EPS * scale
    sc_b = float(np.max(np.abs(y))) if n else 0.0
    if not rec.check(isinstance(fit, tuple) and len(fit) == 2 and len(tuple(fit2)) == 2 and
                     near(fit[1], fit2[1]) and near(fit[0], fit2[0], sc_b + abs(float(fit[1])) * float(np.max(np.abs(x)))),
                     'linear_fit:points-variant-differs', (fit, fit2)):
        return
    b, mm = float(fit[0]), float(fit[1])
    # the endpoint fit passes through the first and the last point
    for i in (0, n - 1):
        got = b + mm * x[i]
        # b is computed from the first point, the slope from both: the rounding error at either end
        # point is governed by the magnitudes at BOTH ends
        tol = 1e-9 * (abs(y[0]) + abs(y[-1]) + abs(mm) * (abs(x[0]) + abs(x[-1])) + abs(b)) + 1e-300
        rec.check(abs(got - y[i]) <= tol, 'linear_fit:not-through-end-point', 'i=%d line=%r y=%r (b=%r m=%r)' % (i, got, float(y[i]), b, mm))
    if case['coef_mode'] == 'endpoint':
        coef = (b, mm)
    elif case['coef_mode'] == 'flat':
        coef = (float(np.mean(y)), 0.0)
    else:
        sy = float(np.max(np.abs(y))) or 1.0
        sx = float(np.max(np.abs(x))) or 1.0
        coef = (case['b'] * sy, case['m'] * sy / sx)
    yhat = x * coef[1] + coef[0]
    tr = rec.call(8, lf.linear_transform_points, p, coef, _site='lf.linear_transform_points')
    if tr is not FAILED:
        tra = np.asarray(tr, dtype=float)
        tol_tr = 4 * lib.EPS * (np.abs(x * coef[1]) + abs(coef[0]))
        rec.check(tra.shape == yhat.shape and bool(np.all((np.abs(tra - yhat) <= tol_tr) | (tra == yhat) | (np.isnan(tra) & np.isnan(yhat)))),
                  'linear_transform:not-m*x+b', (tra[:4].tolist(), yhat[:4].tolist()))
    nonneg_hat = bool(np.all(yhat > -1))
    pairs = [('rmse', m.rmse, True), ('smape', m.smape, True), ('rpd', m.rpd, True), ('rmspe', m.rmspe, True),
             ('rmsle', m.rmsle, nonneg_hat), ('linear_residuals', m.residuals, True)]
    for name, mf, dom in pairs:
        if not dom:
            continue
        a = rec.call(8, getattr(lf, name), x, y, coef, _site='lf.' + name)
        bb = rec.call(8, getattr(lf, name + '_points'), p, coef, _site='lf.' + name + '_points')
        with np.errstate(all='ignore'):
            ref = float(mf(y, yhat))
        if a is FAILED or bb is FAILED:
            continue
        a, bb = float(a), float(bb)
        eq = lambda u, v: u == v or (u != u and v != v) or abs(u - v) <= 1e-9 * max(abs(u), abs(v))
        same = eq(a, ref) and eq(bb, ref)
        rec.check(same, 'wrapper:%s-differs-from-metric-on-m*x+b' % name, 'x-variant %r points-variant %r metric %r' % (a, bb, ref))
    # R2 wrappers (numpy implementation vs numba metric: equal within rounding)
    for variant in ('classic', 'adjusted'):
        if variant == 'adjusted' and n < 3:
            continue
        R2 = getattr(m.R2, variant)
        a = rec.call(8, lf.linear_r2, x, y, coef, R2, _site='lf.linear_r2')
        bb = rec.call(8, lf.linear_r2_points, p, coef, R2, _site='lf.linear_r2_points')
        if a is FAILED or bb is FAILED:
            continue
        with np.errstate(all='ignore'):
            ref = float(m.r2(y, yhat, R2))
        yl = [float(v) for v in y]
        sy2 = math.fsum(v * v for v in yl)
        mean = math.fsum(yl) / n
        if not (exact_constant(yl) or math.fsum((v - mean) ** 2 for v in yl) >= 1e-12 * sy2):
            rec.tag('r2-wrapper:ill-conditioned-skipped')
            continue
        a, bb = float(a), float(bb)
        tol = 1e-9 * (1 + abs(ref))
        rec.check(a == bb or (a != a and bb != bb) or abs(a - bb) <= tol, 'wrapper:linear_r2-points-variant-differs', (a, bb))
        rec.check(abs(a - ref) <= tol or (a != a and ref != ref), 'wrapper:linear_r2-%s-differs-from-metric' % variant, (a, ref))
    fr = rec.call(8, lf.linear_fit_residuals, x, y, _site='lf.linear_fit_residuals')
    if fr is not FAILED:
        with np.errstate(all='ignore'):
            ref = float(m.residuals(y, x * mm + b))
        rec.check(float(fr) == ref or abs(float(fr) - ref) <= 1e-9 * max(abs(ref), abs(float(fr))), 'wrapper:linear_fit_residuals', (float(fr), ref))
    # best-fit R2 == squared Pearson correlation
    if n >= 3:
        ref, well = pearson_r2(x, y)
        v = rec.call(8, lf.r2, x, y, _site='lf.r2')
        vp = rec.call(8, lf.r2_points, p, _site='lf.r2_points')
        if v is not FAILED and vp is not FAILED:
            v, vp = float(v), float(vp)
            rec.check(v == vp or (v != v and vp != vp) or (well and abs(v - vp) <= 1e-9), 'r2:points-variant-differs', (v, vp))
            if ref is not None and well:
                rec.check(abs(v - ref) <= 1e-6, 'r2:not-squared-pearson', (v, ref))
                rec.tag('pearson:checked')
                va = rec.call(8, lf.r2, x, y, m.R2.adjusted, _site='lf.r2')
                if va is not FAILED:
                    want = 1.0 - (1 - v) * ((n - 1) / (n - 2))
                    rec.check(abs(float(va) - want) <= 1e-12 * (1 + abs(want)), 'r2:adjusted-correction', (float(va), want))
    else:
        v = rec.call(8, lf.r2_points, p, _site='lf.r2_points')
        if v is not FAILED:
            rec.check(float(v) == 1.0, 'r2:two-points-not-1', float(v))
    rec.nontrivial = n >= 3 and case['coef_mode'] != 'endpoint' or (n >= 4)


SUBS = [
    Sub('metrics', oracle_metric, strategy=metric_cases, budget={'quick': 9600, 'thorough': 160000}),
    Sub('wrappers', oracle_wrapper, strategy=wrapper_cases, budget={'quick': 4800, 'thorough': 80000}),
]
