"""C15 - global reconstruction cost matches its definition and is cache-transparent."""
import math
from fractions import Fraction as F

import numpy as np
from hypothesis import strategies as st

from .. import lib, strategies as S
from ..lib import FAILED, EPS
from ..runner import Sub

ID = 'C15'
TECHNIQUE = 'PBT with interval-envelope oracle from exact rational interpolation + generated query histories against one shared cache (incl. all-segments history)'
LEVEL_TEXT = 'Exploration: Definition within rounding envelope; cache transparency bit-identical after every step. Finds counter-examples (shrunk to a replay file); never proves absence.'
RULE = ('definition: (performance curve; ascending breakpoint set containing both ends; metric) -> independent '
        'definition: piecewise-linear interpolation through the breakpoints in exact rational arithmetic, '
        'per-metric accumulation, divisor n + #interior breakpoints, segments of <= 2 points contribute 0, R2 = '
        '1 - rss/tss clipped at 0; compared through an interval envelope (prediction +-delta, delta = 16 eps x '
        'conditioning of m*x+b; every error term is monotone in |y - y_hat| on either side, lower end 0 when y '
        'lies inside the interval) +- 1e-9 relative; >= 0; all points as breakpoints -> exactly 0 (1 for R2); '
        'global RMSE and MIP/MAD likewise.  histories: generated query sequences (fresh set / refinement / '
        'coarsening, the patterns _grdp and mip use) against ONE shared cache; after every step the value must '
        'be bit-identical to a fresh-cache evaluation.  Non-trivial: >= 2 segments with interior points and '
        'non-zero cost (definition); history of >= 3 queries with >= 1 cache hit (histories).')
ASSUMPTIONS = ['one cache is only ever shared for one (curve, metric), the only way the library uses it',
               'R2 value check skipped when tss < 1e-12*sum(y^2) and y is not an exact constant']

EPS16 = 1e-16


def term(metric, y, yh):
    with np.errstate(all='ignore'):
        try:
            if metric == 'r2':
                return (y - yh) ** 2
            if metric == 'rmsle':
                if yh <= -1 or y <= -1:
                    return float('nan')
                return (math.log(y + 1) - math.log(yh + 1)) ** 2
            if metric == 'rmspe':
                return ((y - yh) / (y + EPS16)) ** 2
            if metric == 'rpd':
                return abs((y - yh) / (max(y, yh) + EPS16))
            return 2.0 * abs(yh - y) / (abs(y) + abs(yh) + EPS16)
        except (ZeroDivisionError, OverflowError):
            return float('nan')


def segment_envelope(p, l, r, metric, skip_short=True):
    """(lo, hi, wide) bounds on the accumulated error of segment [l, r] under the definition.
    The global cost defines segments of <= 2 points to contribute exactly 0; the global RMSE
    evaluates the line at the two end points too (rounding noise only)."""
    if r - l < 2 and skip_short:
        return 0.0, 0.0, False
    xl, yl, xr, yr = (F(float(p[l, 0])), F(float(p[l, 1])), F(float(p[r, 0])), F(float(p[r, 1])))
    m = (yl - yr) / (xl - xr)
    b = yl - m * xl
    mf, bf = abs(float(m)), abs(float(b))
    ymax = float(np.max(np.abs(p[l:r + 1, 1])))
    lo = hi = 0.0
    wide = False
    for i in range(l, r + 1):
        xi, yi = float(p[i, 0]), float(p[i, 1])
        yh = float(m * F(xi) + b)
        d = 16 * EPS * (mf * abs(xi) + bf + ymax) + 1e-300
        a, c = term(metric, yi, yh - d), term(metric, yi, yh + d)
        if a != a or c != c:
            return float('nan'), float('nan'), True
        t_hi = max(a, c)
        t_lo = 0.0 if (yh - d <= yi <= yh + d) else min(a, c)
        if t_hi - t_lo > 1e-6 * max(t_hi, 1e-300) and t_hi > 1e-12:
            wide = True
        lo += t_lo
        hi += t_hi
    return lo, hi, wide


def cost_envelope(p, reduced, metric):
    n = len(p)
    lo = hi = 0.0
    wide = False
    for l, r in zip(reduced, reduced[1:]):
        a, c, w = segment_envelope(p, l, r, metric)
        lo, hi, wide = lo + a, hi + c, wide or w
    if lo != lo or hi != hi:
        return None
    lo, hi = lo * (1 - 1e-9), hi * (1 + 1e-9)
    total = n + len(reduced) - 2
    if metric == 'r2':
        ys = [F(float(v)) for v in p[:, 1]]
        mean = sum(ys) / n
        tss = float(sum((v - mean) ** 2 for v in ys))
        sy2 = float(sum(v * v for v in ys))
        const = all(v == ys[0] for v in ys)
        if const:
            if not (abs(ys[0]) < 2 ** 20 and (ys[0] * 2 ** 20).denominator == 1 and n < 1024):
                return None   # tss is 0 or ~1e-34 depending on the summation order: 0/0
            out = (1.0 - hi, 1.0 - lo)
        elif tss < 1e-12 * sy2:
            return None
        else:
            out = (1.0 - hi / tss * (1 + 1e-9), 1.0 - lo / tss * (1 - 1e-9))
        return max(0.0, out[0] - 1e-12), max(0.0, out[1] + 1e-12), wide
    if metric in ('rmsle', 'rmspe'):
        return math.sqrt(lo / total), math.sqrt(hi / total) * (1 + 1e-12), wide
    return lo / total, hi / total, wide


@st.composite
def def_cases(draw, tier):
    fams = None if draw(st.booleans()) else ['mono_dec', 'convex', 'concave', 'noise', 'trace', 'pwl_rational']
    c = draw(S.curves(2, 40 if tier == 'quick' else 160, families=fams, big_n=120 if tier == 'quick' else 400))
    pts = c['pts']
    if fams is not None and draw(st.booleans()):
        # second generator: keep y >= 1e-3 * scale so that envelopes are tight
        top = max(q[1] for q in pts) or 1.0
        pts = [[q[0], q[1] + 1e-3 * top] for q in pts]
    n = len(pts)
    return {'kind': 'definition', 'family': c['family'], 'pts': pts, 'metric': draw(st.sampled_from(S.METRICS)),
            'reduced': draw(S.index_sets(n))}


def oracle_definition(case, rec):
    L = lib.lib()
    ev = L.evaluation
    p = lib.pts_of(case)
    n = len(p)
    metric = case['metric']
    M = S.metric_of(metric)
    red = np.array(case['reduced'], dtype=int)
    rec.tag('family:' + case['family'], 'metric:' + metric)
    out = rec.call(8, ev.compute_global_cost, p, red, M, _site='evaluation.compute_global_cost')
    if out is FAILED:
        return
    try:
        v = float(out)
    except (TypeError, ValueError):
        rec.fail('global_cost:not-a-number', repr(out)[:60])
        return
    env = cost_envelope(p, case['reduced'], metric)
    if env is None:
        rec.tag('undefined-or-ill-conditioned-skipped')
    elif v != v:
        rec.fail('global_cost:nan', case['reduced'])
    else:
        lo, hi, wide = env
        rec.tag('envelope:wide' if wide else 'envelope:tight')
        rec.check(lo <= v <= hi, 'global_cost:outside-definition-envelope:' + metric,
                  'impl=%r envelope=[%r, %r] reduced=%r n=%d' % (v, lo, hi, case['reduced'], n))
        rec.check(v >= 0, 'global_cost:negative', v)
        inner_segments = sum(1 for a, b in zip(case['reduced'], case['reduced'][1:]) if b - a >= 2)
        rec.nontrivial = inner_segments >= 2 and hi > 0 and (metric != 'r2' or v < 1)
    full = rec.call(8, ev.compute_global_cost, p, np.arange(n), M, _site='evaluation.compute_global_cost')
    if full is not FAILED:
        want = 1.0 if metric == 'r2' else 0.0
        ys = p[:, 1]
        if metric != 'r2' or not np.all(ys == ys[0]) or float(ys[0] * 2 ** 20).is_integer():
            rec.check(float(full) == want, 'global_cost:all-breakpoints-not-%g' % want, float(full))
    # global RMSE against exact linear interpolation
    g = rec.call(8, ev.compute_global_rmse, p, red, _site='evaluation.compute_global_rmse')
    if g is not FAILED:
        lo = hi = 0.0
        for l, r in zip(case['reduced'], case['reduced'][1:]):
            a, c, _ = segment_envelope(p, l, r, 'r2', skip_short=False)
            lo, hi = lo + a, hi + c
        lo, hi = math.sqrt(lo * (1 - 1e-9) / n), math.sqrt(hi * (1 + 1e-9) / n) * (1 + 1e-12)
        rec.check(lo <= float(g) <= hi, 'global_rmse:outside-definition-envelope', 'impl=%r envelope=[%r,%r]' % (float(g), lo, hi))
    # MIP = median over interior breakpoints of rmse(without i) - rmse(all), and the MAD
    if len(red) >= 3:
        mp = rec.call(8, ev.mip, p, red, _site='evaluation.mip')
        base = rec.call(8, ev.compute_global_rmse, p, red, _site='evaluation.compute_global_rmse')
        if mp is not FAILED and base is not FAILED and rec.check(isinstance(mp, tuple) and len(mp) == 2, 'mip:shape', repr(mp)[:80]):
            ip = []
            for i in range(1, len(red) - 1):
                o = rec.call(8, ev.compute_global_rmse, p, np.delete(red, i), _site='evaluation.compute_global_rmse')
                if o is FAILED:
                    return
                ip.append(float(o) - float(base))
            med = float(np.median(ip))
            mad = float(np.median(np.abs(np.array(ip) - med)))
            sc = max(abs(float(base)), max(abs(v_) for v_ in ip), 1e-300)
            rec.check(abs(float(mp[0]) - med) <= 1e-12 * sc, 'mip:not-median-of-rmse-increase', (float(mp[0]), med))
            rec.check(abs(float(mp[1]) - mad) <= 1e-12 * sc, 'mip:not-the-mad', (float(mp[1]), mad))


# ------------------------------------------------------------------ histories against one shared cache
class CountingCache(dict):
    hits = 0

    def __contains__(self, k):
        r = dict.__contains__(self, k)
        if r:
            self.hits += 1
        return r


@st.composite
def history_cases(draw, tier):
    c = draw(S.curves(4, 30 if tier == 'quick' else 100))
    n = len(c['pts'])
    steps = draw(st.integers(2, 8 if tier == 'quick' else 20))
    ops = []
    for _ in range(steps):
        kind = draw(st.sampled_from(['fresh', 'refine', 'refine', 'coarsen', 'repeat']))
        if kind == 'fresh':
            ops.append(['fresh', draw(S.index_sets(n))])
        else:
            ops.append([kind, draw(st.integers(0, 10 ** 6))])
    return {'kind': 'history', 'family': c['family'], 'pts': c['pts'], 'metric': draw(st.sampled_from(S.METRICS)),
            'start': draw(S.index_sets(n)), 'ops': ops, 'function': draw(st.sampled_from(['cost', 'cost', 'rmse']))}


def oracle_history(case, rec):
    L = lib.lib()
    ev = L.evaluation
    p = lib.pts_of(case)
    n = len(p)
    M = S.metric_of(case['metric'])
    fn = case['function']
    rec.tag('history:%s/%s' % (fn, case['metric'] if fn == 'cost' else '-'))
    cache = CountingCache()
    cur = list(case['start'])
    queries = [cur]
    for kind, arg in case['ops']:
        nxt = list(cur)
        if kind == 'fresh':
            nxt = list(arg)
        elif kind == 'refine':
            free = [i for i in range(n) if i not in set(cur)]
            if free:
                nxt = sorted(cur + [free[arg % len(free)]])
        elif kind == 'coarsen':
            if len(cur) > 2:
                nxt = list(cur)
                del nxt[1 + arg % (len(cur) - 2)]
        queries.append(nxt)
        cur = nxt
    for step, q in enumerate(queries):
        red = lib.idx_of(q)              # one array object per length, edited in place between queries
        if fn == 'cost':
            shared = rec.call(8, ev.compute_global_cost, p, red, M, cache, _site='evaluation.compute_global_cost')
            fresh = rec.call(8, ev.compute_global_cost, p, red, M, {}, _site='evaluation.compute_global_cost')
        else:
            shared = rec.call(8, ev.compute_global_rmse, p, red, cache, _site='evaluation.compute_global_rmse')
            fresh = rec.call(8, ev.compute_global_rmse, p, red, {}, _site='evaluation.compute_global_rmse')
        if shared is FAILED or fresh is FAILED:
            return
        a, b = float(shared), float(fresh)
        if not (a == b or (a != a and b != b)):
            rec.fail('cache:shared-differs-from-fresh:' + fn,
                     'step %d query %r: shared cache -> %r, fresh cache -> %r (history %r)' % (step, q, a, b, queries[:step + 1]))
            return
    rec.count('cache-hits', cache.hits)
    rec.nontrivial = len(queries) >= 3 and cache.hits >= 1


def examples(tier):
    pts = [[1.0, 1.0], [2.0, 3.0], [3.0, 2.0], [4.0, 5.0], [5.0, 4.0], [6.0, 6.5], [7.0, 1.0]]
    return [{'kind': 'history', 'family': 'zigzag', 'pts': pts, 'metric': m, 'start': [0, 6],
             'ops': [['fresh', [0, 3, 6]], ['fresh', [0, 2, 6]], ['fresh', [0, 3, 4, 6]], ['fresh', [0, 3, 6]]], 'function': f}
            for m in S.METRICS for f in ('cost', 'rmse')]


@st.composite
def all_segment_cases(draw, tier):
    c = draw(S.curves(100, 130 if tier == 'quick' else 260, scales=False, families=['noise', 'mono_dec', 'convex', 'quant', 'trace']))
    return {'kind': 'all-segments', 'family': c['family'], 'pts': c['pts'], 'metric': draw(st.sampled_from(S.METRICS)),
            'function': draw(st.sampled_from(['cost', 'cost', 'rmse'])), 'order': draw(st.sampled_from(['lr', 'rl', 'len']))}


def oracle_all_segments(case, rec):
    """History that queries EVERY segment (l, r) of the curve through breakpoint sets [0, l, r, n-1]
    against one shared cache: a cache key that is not injective in (l, r) shows up as a shared value
    that differs from the fresh-cache value."""
    L = lib.lib()
    ev = L.evaluation
    p = lib.pts_of(case)
    n = len(p)
    M = S.metric_of(case['metric'])
    fn = case['function']
    cache = {}
    segs = [(l, r) for l in range(n) for r in range(l + 1, n)]
    if case['order'] == 'rl':
        segs.reverse()
    elif case['order'] == 'len':
        segs.sort(key=lambda s_: (s_[1] - s_[0], s_[0]))
    rec.tag('all-segments:%s/%s' % (fn, case['order']))
    for l, r in segs:
        q = sorted({0, l, r, n - 1})
        red = np.array(q, dtype=int)
        if fn == 'cost':
            a = rec.call(8, ev.compute_global_cost, p, red, M, cache, _site='evaluation.compute_global_cost')
            b = rec.call(8, ev.compute_global_cost, p, red, M, {}, _site='evaluation.compute_global_cost')
        else:
            a = rec.call(8, ev.compute_global_rmse, p, red, cache, _site='evaluation.compute_global_rmse')
            b = rec.call(8, ev.compute_global_rmse, p, red, {}, _site='evaluation.compute_global_rmse')
        if a is FAILED or b is FAILED:
            return
        a, b = float(a), float(b)
        if not (a == b or (a != a and b != b)):
            rec.fail('cache:shared-differs-from-fresh:' + fn, 'query %r after %d queries: shared %r fresh %r' % (q, segs.index((l, r)), a, b))
            return
    rec.count('segment-queries', len(segs))
    rec.nontrivial = True


SUBS = [
    Sub('all_segments', oracle_all_segments, strategy=all_segment_cases, budget={'quick': 32, 'thorough': 320}),
    Sub('definition', oracle_definition, strategy=def_cases, budget={'quick': 6400, 'thorough': 96000}),
    Sub('history', oracle_history, strategy=history_cases, budget={'quick': 6400, 'thorough': 96000}, examples=examples),
]
