"""C14 - even-point insertion returns the documented candidates, height-filtered."""
import math
from fractions import Fraction as F

import numpy as np
from hypothesis import strategies as st

from .. import lib, strategies as S
from ..lib import FAILED
from ..runner import Sub

ID = 'C14'
TECHNIQUE = 'PBT against a reference model written from the statement (rational + mirrored float decisions); atheris in thorough'
LEVEL_TEXT = 'Exploration: Exact equality on decided cases (78%), structural clauses on ambiguous ones. Finds counter-examples (shrunk to a replay file); never proves absence.'
RULE = ('Cases = (curve n >= 2 with non-constant x and y; reduction = arbitrary index set containing both '
        'ends with compute_removed_points, or the output of a simplifier; knee positions; tx, ty in '
        '(0, 0.6]; extremes in {False, True}) for add_points_even and add_points_even_knees.  Oracle = '
        'reference model written from the statement (candidate segments, ceil(w/(2tx)) evenly '
        'index-spaced points, union, sort, dedupe, running-minimum filter); decisions are taken in '
        'exact rational arithmetic and in mirrored float arithmetic, a case where the two disagree or '
        'that lies within 8 ulp of a decision boundary is "ambiguous" and only the structural clauses '
        '(valid, strictly increasing, non-increasing heights) are checked.  Non-trivial: decided case '
        'in which >= 1 candidate segment produced >= 1 new point that survives the filter.')
ASSUMPTIONS = ['exact equality with the reference model on decided cases (all quantities are integers)']

TX = [0.01, 0.05, 0.1, 0.125, 0.2, 0.25, 0.4, 0.5]


def runmin(p, idx):
    out, h = [], None
    for i in idx:
        if h is None or p[i, 1] <= h:
            out.append(i)
            h = p[i, 1]
    return out


def near_int(v):
    r = round(v)
    return abs(v - r) <= 8 * np.finfo(float).eps * max(1.0, abs(v))


class Ambiguous(Exception):
    pass


def seg_points(p, l, r, dx, dy, tx, ty):
    """New points of one candidate gap [l, r] per the statement; raises Ambiguous near a boundary."""
    w = math.fabs(p[r][0] - p[l][0]) / dx
    h = math.fabs(p[r][1] - p[l][1]) / dy
    wF = abs(F(float(p[r][0])) - F(float(p[l][0]))) / F(float(dx))
    hF = abs(F(float(p[r][1])) - F(float(p[l][1]))) / F(float(dy))
    txF, tyF = F(float(tx)), F(float(ty))

    def decide(vf, vF, bf, bF):
        a, b = vf > bf, vF > bF
        close = abs(vf - bf) <= 8 * np.finfo(float).eps * max(abs(vf), abs(bf))
        if a != b or (close and vF != bF):
            raise Ambiguous()
        return a
    if not decide(w, wF, 2.0 * tx, 2 * txF):
        return []
    if not decide(h, hF, ty, tyF):
        return []
    ratio = w / (2.0 * tx)
    ratioF = wF / (2 * txF)
    if ratioF.denominator == 1:
        if ratio != float(ratioF):
            raise Ambiguous()
    elif near_int(ratio):
        raise Ambiguous()
    N = int(math.ceil(ratio))
    if N != math.ceil(ratioF):
        raise Ambiguous()
    inc = (r - l) // N
    return [l + j * inc for j in range(1, N + 1)]


def model(p, gaps, knees, tx, ty, ext):
    n = len(p)
    dx = math.fabs(p[:, 0].max() - p[:, 0].min())
    dy = math.fabs(p[:, 1].max() - p[:, 1].min())
    new = []
    produced = 0
    for l, r in gaps:
        pts = seg_points(p, l, r, dx, dy, tx, ty)
        produced += len(pts)
        new += pts
    s = set(int(k) for k in knees) | set(new)
    if ext:
        s |= {0, n - 1}
    out = runmin(p, sorted(s))
    survived = len(set(new) & set(out)) > 0
    return out, survived


@st.composite
def cases(draw, tier):
    c = draw(S.curves(2, 40 if tier == 'quick' else 200,
                      families=['noise', 'mono_dec', 'mono_dec', 'ulp', 'convex', 'concave', 'pwl_dyadic',
                                'pwl_rational', 'plateau', 'steps', 'trace', 'repo', 'outlier'],
                      big_n=160 if tier == 'quick' else 600))
    pts = c['pts']
    n = len(pts)
    ys = [q[1] for q in pts]
    if max(ys) == min(ys):   # the property requires non-constant y: bend the curve
        pts = [[q[0], (q[1] * 2.0 + 1.0) if i == 0 else q[1]] for i, q in enumerate(pts)]   # (+1 alone is lost at 1e16)
    src = draw(st.sampled_from(['set', 'set', 'set', 'rdp', 'rdp_fixed', 'grdp']))
    case = {'family': c['family'], 'pts': pts, 'reduction': src}
    if src == 'set':
        case['reduced'] = draw(S.index_sets(n))
    elif src == 'rdp_fixed':
        case['length'] = draw(st.integers(2, n))
    else:
        case['t'] = draw(st.sampled_from([0.001, 0.01, 0.05, 0.2, 0.5]))
    m = (len(case['reduced']) if src == 'set' else n)
    # knee *positions*; positions beyond the reduced length are folded in the oracle
    case['knee_pos'] = sorted(set(draw(st.lists(st.integers(0, m - 1), min_size=0, max_size=6))))
    case['tx'] = draw(st.one_of(st.sampled_from(TX), st.floats(0.005, 0.6)))
    case['ty'] = draw(st.one_of(st.sampled_from(TX), st.floats(0.005, 0.6)))
    case['extremes'] = draw(st.booleans())
    case['int_points'] = draw(st.booleans())
    case['flag_kind'] = draw(st.sampled_from(['bool', 'bool', 'numpy', 'int']))
    return case


def oracle(case, rec):
    L = lib.lib()
    pf = lib.pts_of(case)
    p = pf
    if case.get('int_points') and np.all(pf == np.floor(pf)) and float(np.max(np.abs(pf))) < 2 ** 30:
        p = pf.astype(np.int64)         # an integer-typed curve is the same curve
        rec.tag('points:int64')
    n = len(p)
    src = case['reduction']
    if src == 'set':
        reduced = np.array(case['reduced'], dtype=int)
        removed = L.rdp.compute_removed_points(p, reduced)
    else:
        if src == 'rdp':
            out = rec.call(4 * n + 16, L.rdp.rdp, p, case['t'], _site='rdp.rdp')
        elif src == 'grdp':
            out = rec.call(4 * n + 16, L.rdp.grdp, p, case['t'], _site='rdp.grdp')
        else:
            out = rec.call(4 * n + 16, L.rdp.rdp_fixed, p, case['length'], _site='rdp.rdp_fixed')
        if out is FAILED:
            return
        reduced, removed = out
        reduced = np.asarray(reduced).astype(int)
        if len(reduced) < 2 or reduced[0] != 0 or reduced[-1] != n - 1 or not lib.strictly_increasing(reduced):
            rec.tag('skipped:malformed-reduction')   # C01's business
            return
    m = len(reduced)
    kpos = sorted(set(min(k, m - 1) for k in case['knee_pos']))
    tx, ty, ext = case['tx'], case['ty'], case['extremes']
    fk = case.get('flag_kind', 'bool')
    ext_arg = ext if fk == 'bool' else (np.bool_(ext) if fk == 'numpy' else int(ext))     # any truth value
    rec.tag('reduction:' + src, 'extremes:%s' % ext, 'family:' + case['family'])

    def structural(out, label):
        out = np.asarray(out)
        if not rec.check(out.ndim == 1 and (out.size == 0 or out.dtype.kind in 'iu'), label + ':not-int-vector', repr(out)[:200]):
            return None
        r = [int(v) for v in out]
        ok = rec.check(all(0 <= v <= n - 1 for v in r), label + ':index-out-of-range', (r, n))
        ok &= rec.check(all(a < b for a, b in zip(r, r[1:])), label + ':not-strictly-increasing', r)
        if ok:
            rec.check(all(p[a, 1] >= p[b, 1] for a, b in zip(r, r[1:])), label + ':heights-increase', r)
        return r

    # --- add_points_even (knees are positions in the reduced curve)
    out = rec.call(4 * n + 16, L.postprocessing.add_points_even, p, reduced, np.array(kpos, dtype=int),
                   removed, tx, ty, ext_arg, _site='pp.add_points_even')
    if out is not FAILED:
        r = structural(out, 'even')
        if r is not None:
            gaps = [(int(a), int(b)) for a, b in zip(reduced[:-1], reduced[1:])]
            try:
                want, survived = model(pf, gaps, [int(reduced[k]) for k in kpos], tx, ty, ext)
                rec.check(r == want, 'even:differs-from-model',
                          'got %r want %r reduced=%r knees=%r tx=%r ty=%r ext=%r' % (r, want, reduced.tolist(), kpos, tx, ty, ext))
                rec.nontrivial |= survived
                rec.tag('even:decided')
            except Ambiguous:
                rec.tag('even:ambiguous')
    # --- add_points_even_knees (knees are original indices, at least one)
    knees = sorted(set(int(reduced[k]) for k in kpos))
    if knees:
        out = rec.call(4 * n + 16, L.postprocessing.add_points_even_knees, p, np.array(knees, dtype=int),
                       tx, ty, ext_arg, _site='pp.add_points_even_knees')
        if out is not FAILED:
            r = structural(out, 'markers')
            if r is not None:
                marks = [0] + knees + [n - 1]
                gaps = [(a, b) for a, b in zip(marks[:-1], marks[1:])]
                try:
                    want, survived = model(pf, gaps, knees, tx, ty, ext)
                    rec.check(r == want, 'markers:differs-from-model',
                              'got %r want %r knees=%r tx=%r ty=%r ext=%r' % (r, want, knees, tx, ty, ext))
                    rec.nontrivial |= survived
                    rec.tag('markers:decided')
                except Ambiguous:
                    rec.tag('markers:ambiguous')


def examples(tier):
    pts = [[float(i), float(20 - i)] for i in range(21)]
    out = []
    for ext in (False, True):
        out.append({'family': 'line', 'pts': pts, 'reduction': 'set', 'reduced': [0, 4, 10, 20],
                    'knee_pos': [1, 2], 'tx': 0.125, 'ty': 0.05, 'extremes': ext})
        out.append({'family': 'line', 'pts': pts, 'reduction': 'set', 'reduced': [0, 20],
                    'knee_pos': [], 'tx': 0.05, 'ty': 0.05, 'extremes': ext})
    return out


SUBS = [Sub('even', oracle, strategy=cases, budget={'quick': 9600, 'thorough': 160000}, examples=examples, fuzz={'thorough': 20000})]
