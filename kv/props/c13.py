"""C13 - worst-knee and corner filters implement exactly their selection rules."""
from fractions import Fraction as F

import numpy as np
from hypothesis import strategies as st

from .. import lib, strategies as S
from ..lib import FAILED
from ..runner import Sub
from .c17 import iou_ref

ID = 'C13'
TECHNIQUE = 'PBT against reference greedy filter and independent rational IoU + partition/idempotence laws; atheris in thorough'
LEVEL_TEXT = 'Exploration: Exact for the worst-knee filter; IoU decisions inside 4 ulp of t are ambiguous unless exact on dyadic data. Finds counter-examples (shrunk to a replay file); never proves absence.'
RULE = ('Cases = (curve n >= 3 from families rich in equal heights and flat neighbour triples; ascending '
        'knee list incl. empty, singleton, first/last index; t in [0,1] incl. IoU values that occur on '
        'the curve).  Oracle: filter_worst_knees == reference greedy running minimum (<=), idempotent; '
        'corner filter/selector vs an independent rational IoU (decisions within 4 ulp of t are ambiguous unless the '
        'tie is exact and the coordinates are small dyadics: either side accepted, partition still required); union = input, '
        'intersection empty, order-preserving, idempotent.  Non-trivial: each filter removes >= 1 and '
        'keeps >= 1 knee.  Distinct by digest of the case.')
ASSUMPTIONS = ['IoU reference is exact rational arithmetic over the input doubles']


def knee_iou(p, idx):
    p0, p1, p2 = p[idx - 1], p[idx], p[idx + 1]
    c0 = [p0[0], p2[1]]
    amin = [min(c0[0], p1[0]), min(c0[1], p1[1])]
    amax = [max(c0[0], p1[0]), max(c0[1], p1[1])]
    bmin = [min(p0[0], p2[0]), min(p0[1], p2[1])]
    bmax = [max(p0[0], p2[0]), max(p0[1], p2[1])]
    A = [F(float(v)) for v in amin + amax]
    B = [F(float(v)) for v in bmin + bmax]
    dx = max(0, min(A[2], B[2]) - max(A[0], B[0]))
    dy = max(0, min(A[3], B[3]) - max(A[1], B[1]))
    inter = dx * dy
    if inter <= 0:
        return F(0)
    return inter / ((A[2] - A[0]) * (A[3] - A[1]) + (B[2] - B[0]) * (B[3] - B[1]) - inter)


@st.composite
def cases(draw, tier):
    c = draw(S.curves(3, 40 if tier == 'quick' else 200,
                      families=['plateau', 'plateau', 'ulp', 'ulp', 'steps', 'mono_dec', 'noise', 'convex', 'pwl_dyadic',
                                'pwl_rational', 'flat', 'trace', 'repo', 'concave'],
                      big_n=160 if tier == 'quick' else 600))
    pts = c['pts']
    n = len(pts)
    mode = draw(st.sampled_from(['some', 'some', 'all', 'empty', 'single', 'ends']))
    if mode == 'all':
        knees = list(range(n))
    elif mode == 'empty':
        knees = []
    elif mode == 'single':
        knees = [draw(st.integers(0, n - 1))]
    elif mode == 'ends':
        knees = sorted(set([0, n - 1] + draw(st.lists(st.integers(0, n - 1), max_size=4))))
    else:
        bits = draw(st.lists(st.booleans(), min_size=n, max_size=n))
        knees = [i for i, b in enumerate(bits) if b]
    p = np.array(pts, dtype=float)
    tmode = draw(st.sampled_from(['std', 'occurring', 'occurring', 'float']))
    t = None
    if tmode == 'occurring':
        inner = [k for k in knees if 0 < k < n - 1]
        if inner:
            t = float(knee_iou(p, draw(st.sampled_from(inner))))
    if t is None:
        t = draw(st.sampled_from([0.0, 0.1, 0.25, 0.33, 0.5, 0.75, 1.0])) if tmode != 'float' else draw(st.floats(0, 1))
    return {'family': c['family'], 'pts': pts, 'knees': knees, 'mode': mode, 't': t, 'int_points': draw(st.booleans())}


def oracle(case, rec):
    L = lib.lib()
    pp = L.postprocessing
    p = lib.pts_of(case)
    if case.get('int_points') and np.all(p == np.floor(p)) and float(np.max(np.abs(p))) < 2 ** 30:
        p = p.astype(np.int64)
        rec.tag('points:int64')
    n = len(p)
    knees = np.array(case['knees'], dtype=int)
    t = float(case['t'])
    rec.tag('family:' + case['family'], 'knees:' + case['mode'])

    def as_list(out, label):
        a = np.asarray(out)
        if not rec.check(a.ndim == 1, label + ':shape', repr(out)[:100]):
            return None
        return [int(v) for v in a]

    # ---- worst-knee filter
    out = rec.call(8, pp.filter_worst_knees, p, knees, _site='pp.filter_worst_knees')
    if out is not FAILED:
        got = as_list(out, 'worst')
        if got is not None:
            want, h = [], None
            for k in case['knees']:
                if h is None or p[k, 1] <= h:
                    want.append(k)
                    h = p[k, 1]
            rec.check(got == want, 'worst:differs-from-running-minimum', 'got %r want %r knees=%r y=%r' %
                      (got, want, case['knees'], p[:, 1].tolist()))
            again = rec.call(8, pp.filter_worst_knees, p, np.array(got, dtype=int), _site='pp.filter_worst_knees')
            if again is not FAILED:
                rec.check(as_list(again, 'worst') == got, 'worst:not-idempotent', (got, np.asarray(again).tolist()))
            worst_nt = 0 < len(want) < len(case['knees'])
            if len(set(p[case['knees'], 1].tolist())) < len(case['knees']):
                rec.tag('worst:equal-heights')
        else:
            worst_nt = False
    else:
        worst_nt = False

    # ---- corner filter / selector
    f = rec.call(8, pp.filter_corner_knees, p, knees, t, _site='pp.filter_corner_knees')
    s = rec.call(8, pp.select_corner_knees, p, knees, t, _site='pp.select_corner_knees')
    corner_nt = False
    if f is not FAILED and s is not FAILED:
        fl, sl = as_list(f, 'corner_filter'), as_list(s, 'corner_select')
        if fl is not None and sl is not None:
            ks = case['knees']
            rec.check(not (set(fl) & set(sl)), 'corner:filter-and-select-overlap', (fl, sl, t))
            rec.check(sorted(fl + sl) == ks, 'corner:partition-not-exhaustive', 'filter %r select %r knees %r t=%r' % (fl, sl, ks, t))
            rec.check(fl == [k for k in ks if k in set(fl)], 'corner:filter-not-order-preserving', (fl, ks))
            rec.check(sl == [k for k in ks if k in set(sl)], 'corner:select-not-order-preserving', (sl, ks))
            tF = F(t)
            amb = 0
            for k in ks:
                if 0 < k < n - 1:
                    q = knee_iou(p, k)
                    qf = float(q)
                    # an exact tie only binds the implementation when its float arithmetic is exact
                    # (small dyadic coordinates); otherwise rounding may fall on either side
                    dyadic = all(abs(v) < 2 ** 20 and float(v * 1024).is_integer()
                                 for v in p[k - 1:k + 2].ravel().tolist())
                    close = abs(qf - t) <= 4 * np.finfo(float).eps * max(abs(qf), abs(t)) \
                        and not (q == tF and dyadic)
                    if close:
                        amb += 1
                        continue
                    if q < tF:
                        rec.check(k in fl and k not in sl, 'corner:iou-below-t-not-filtered-side',
                                  'knee %d iou=%r t=%r filter=%r select=%r' % (k, qf, t, fl, sl))
                    else:
                        rec.check(k in sl and k not in fl, 'corner:iou-at-or-above-t-not-selected-side',
                                  'knee %d iou=%r t=%r filter=%r select=%r' % (k, qf, t, fl, sl))
                        if q == tF:
                            rec.tag('corner:exact-tie')
                else:
                    rec.check(k in fl and k not in sl, 'corner:end-knee-not-kept-by-filter-only', (k, fl, sl))
            if amb:
                rec.tag('corner:ambiguous')
            f2 = rec.call(8, pp.filter_corner_knees, p, np.array(fl, dtype=int), t, _site='pp.filter_corner_knees')
            s2 = rec.call(8, pp.select_corner_knees, p, np.array(sl, dtype=int), t, _site='pp.select_corner_knees')
            if f2 is not FAILED:
                rec.check(as_list(f2, 'corner_filter') == fl, 'corner:filter-not-idempotent', (fl, np.asarray(f2).tolist()))
            if s2 is not FAILED:
                rec.check(as_list(s2, 'corner_select') == sl, 'corner:select-not-idempotent', (sl, np.asarray(s2).tolist()))
            inner = [k for k in ks if 0 < k < n - 1]
            corner_nt = any(k in fl for k in inner) and any(k in sl for k in inner)
    rec.nontrivial = worst_nt and corner_nt
    if worst_nt:
        rec.tag('worst:nontrivial')
    if corner_nt:
        rec.tag('corner:nontrivial')


def examples(tier):
    # the repository's two corner tests + equal-height ties
    return [
        {'family': 'repo', 'mode': 'some', 't': 0.33, 'knees': [1, 3, 5],
         'pts': [[0, 10], [1, 9.5], [2, 4], [3, 3.8], [4, 1], [5, 0.9], [6, 0.5]]},
        {'family': 'ties', 'mode': 'all', 't': 0.5, 'knees': [0, 1, 2, 3, 4, 5],
         'pts': [[0, 3], [1, 3], [2, 2], [3, 3], [4, 2], [5, 2]]},
    ]


SUBS = [Sub('filters', oracle, strategy=cases, budget={'quick': 12000, 'thorough': 200000}, examples=examples, fuzz={'thorough': 20000})]
