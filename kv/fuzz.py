"""Coverage-guided campaign (atheris / libFuzzer) over the *same* Hypothesis test of a sub-check.

Run as a separate process (instrumentation must wrap the first import of the package):

    python -m kv.fuzz <PROPERTY> <SUB> --runs N --seed S --tier T --out stats.pkl [--corpus DIR]

The fuzz target is `test.hypothesis.fuzz_one_input`, so libFuzzer's bytes are decoded by the
structured strategy and the oracle runs inside the target; outcomes are collected (not raised)
into the same Stats object the Hypothesis workers return, dumped every 500 executions because
atheris.Fuzz() never returns.
"""
import argparse
import os
import pickle
import sys


def main(argv=None):
    ap = argparse.ArgumentParser()
    ap.add_argument('property')
    ap.add_argument('sub')
    ap.add_argument('--runs', type=int, default=20000)
    ap.add_argument('--seed', type=int, default=1)
    ap.add_argument('--tier', default='thorough')
    ap.add_argument('--out', required=True)
    ap.add_argument('--corpus', default=None)
    a = ap.parse_args(argv)

    here = os.path.dirname(os.path.dirname(os.path.abspath(__file__)))
    sys.path.insert(0, here)
    sys.path.append(os.path.join(here, '.deps'))
    import atheris
    from kv import lib
    src = os.path.join(lib.repo_dir(), 'src')
    sys.path.insert(0, src)
    with atheris.instrument_imports(include=['kneeliverse'], exclude=['kneeliverse.metrics']):
        import kneeliverse  # noqa: F401
    from kv import runner
    L = lib.lib()
    lib.warmup()
    mod = runner.load_prop(a.property)
    if hasattr(mod, 'prepare'):
        mod.prepare(a.tier)
    sub = {s.name: s for s in mod.SUBS}[a.sub]
    stats = runner.Stats()
    count = [0]

    import hypothesis
    from hypothesis import given, Phase

    @runner._hyp_settings(1, [Phase.generate])
    @given(sub.strategy(a.tier))
    def target(case):
        case.setdefault('sub', a.sub)
        runner.evaluate(sub, case, stats)

    def dump():
        stats.tags['atheris:executions'] = count[0]
        tmp = a.out + '.tmp'
        with open(tmp, 'wb') as fh:
            pickle.dump(stats, fh)
        os.replace(tmp, a.out)

    fuzz_one = target.hypothesis.fuzz_one_input

    def one(data):
        count[0] += 1
        try:
            fuzz_one(data)
        except hypothesis.errors.UnsatisfiedAssumption:
            pass
        if count[0] % 500 == 0 or count[0] >= a.runs:
            dump()

    args = [sys.argv[0], '-runs=%d' % a.runs, '-seed=%d' % (a.seed % (2 ** 31) or 1), '-max_len=4096',
            '-print_final_stats=0', '-verbosity=0']
    if a.corpus:
        os.makedirs(a.corpus, exist_ok=True)
        args.append(a.corpus)
    dump()
    atheris.Setup(args, one)
    atheris.Fuzz()


if __name__ == '__main__':
    main()
