"""Exact rational reference geometry over the input doubles (fractions.Fraction)."""
import math
from fractions import Fraction as F


def fr(v):
    return F(float(v))


def fsqrt(q):
    """sqrt of a non-negative Fraction as a correctly-scaled float (error <= ~1 ulp)."""
    if q == 0:
        return 0.0
    if q < 0:
        raise ValueError('negative')
    # scale into double range without losing precision of the mantissa
    n, d = q.numerator, q.denominator
    shift = (n.bit_length() - d.bit_length()) // 2 * 2
    if shift > 0:
        val = F(n, d << shift)
    else:
        val = F(n << (-shift), d)
    return math.sqrt(float(val)) * (2.0 ** (shift // 2))


def cross(o, a, b):
    return (a[0] - o[0]) * (b[1] - o[1]) - (a[1] - o[1]) * (b[0] - o[0])


def d2(a, b):
    return (a[0] - b[0]) ** 2 + (a[1] - b[1]) ** 2


def seg_dist2(p, a, b):
    """Squared distance from p to the closed segment a-b (to a if a == b); also says whether the
    projection was clamped."""
    if a == b:
        return d2(p, a), True
    ab = (b[0] - a[0], b[1] - a[1])
    t = ((p[0] - a[0]) * ab[0] + (p[1] - a[1]) * ab[1]) / (ab[0] ** 2 + ab[1] ** 2)
    if t <= 0:
        return d2(p, a), t < 0
    if t >= 1:
        return d2(p, b), t > 1
    c = cross(a, b, p)
    return c * c / (ab[0] ** 2 + ab[1] ** 2), False


def line_dist2(p, a, b):
    c = cross(a, b, p)
    return c * c / d2(a, b)


def pt(v):
    return (fr(v[0]), fr(v[1]))
