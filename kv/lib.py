"""Shared helpers: library access, recorder, JIT warm-up, digests."""
import collections
import hashlib
import json
import math
import os
import sys
import traceback
import types
import warnings

import numpy as np

from . import guard

VERIF = os.path.dirname(os.path.dirname(os.path.abspath(__file__)))
EPS = float(np.finfo(float).eps)

FAILED = object()   # sentinel returned by Rec.call when the library raised / looped


class HarnessError(Exception):
    """The harness itself is broken (never reported as a violation)."""


# --------------------------------------------------------------------------- library access
_lib = None


def repo_dir():
    return os.path.abspath(os.environ.get('VERIF_REPO', '/repo'))


def lib():
    """Import the package under test from $VERIF_REPO/src (current working tree)."""
    global _lib
    if _lib is not None:
        return _lib
    src = os.path.join(repo_dir(), 'src')
    if sys.path[0] != src:
        sys.path.insert(0, src)
    sys.dont_write_bytecode = True
    warnings.filterwarnings('ignore')
    np.seterr(all='ignore')
    import kneeliverse  # noqa
    pkg_dir = os.path.dirname(os.path.abspath(kneeliverse.__file__))
    if not pkg_dir.startswith(src):
        raise HarnessError('kneeliverse imported from %s, expected below %s' % (pkg_dir, src))
    ns = types.SimpleNamespace()
    ns.pkg_dir = pkg_dir
    ns.pkg = kneeliverse
    for name in ('clustering', 'convex_hull', 'curvature', 'dfdt', 'evaluation', 'knee_ranking',
                 'kneedle', 'linear_fit', 'lmethod', 'menger', 'metrics', 'multi_knee',
                 'postprocessing', 'rdp', 'zmethod'):
        setattr(ns, name, getattr(kneeliverse, name))
    ns.lf = ns.linear_fit
    ns.M = ns.metrics.Metrics
    ns.Distance = ns.rdp.Distance
    ns.Order = ns.rdp.Order
    guard.install(pkg_dir)
    _lib = ns
    return ns


def warmup(extra=False):
    """Compile the numba signatures the checks use, once, in the parent (children fork and
    inherit the compiled code).  The library always calls the kernels with a strided y column
    and a contiguous prediction; `extra` adds the layouts/dtypes C16 and C20 pass directly."""
    L = lib()
    m = L.metrics
    big = np.arange(12.0).reshape(6, 2) + 1.0
    a = np.array([1.0, 2.0, 4.0])
    b = np.array([1.5, 2.0, 3.0])
    variants = [(big[:, 1][:3], b)]
    if extra:
        bi = big.astype(np.int64)
        variants += [(a, b), (a, big[:, 0][:3]), (big[:, 1][:3], big[:, 0][:3]),
                     (a.astype(np.int64), b.astype(np.int64)), (a.astype(np.int64), b),
                     (a, b.astype(np.int64)), (bi[:, 1][:3], b), (bi[:, 1][:3], bi[:, 0][:3])]
    for y, yh in variants:
        for f in (m.rmse, m.rmsle, m.rmspe, m.rpd, m.residuals, m.smape, m.r2):
            try:
                f(y, yh)
            except Exception:
                pass
        if extra:
            for f in (m.rmspe, m.rpd, m.smape):
                try:
                    f(y, yh, 1e-8)
                except Exception:
                    pass
            try:
                m.r2(y, yh, m.R2.adjusted)
            except Exception:
                pass


# --------------------------------------------------------------------------- case helpers
_buffers = {}


def pts_of(case, key='pts'):
    """The case's curve as a float64 (n, 2) array.

    The array OBJECT is reused for every case of the same length within a worker process and only
    its contents are overwritten, the way a caller re-fills one buffer between calls.  A library
    that memoises anything by object identity (or by index ranges only) across calls therefore
    sees the same object with different data in consecutive cases - a call *history* for free."""
    data = case[key]
    n = len(data)
    buf = _buffers.get(n)
    if buf is None:
        buf = _buffers[n] = np.empty((n, 2), dtype=float)
        if len(_buffers) > 4096:
            _buffers.clear()
            _buffers[n] = buf
    buf.setflags(write=True)
    buf[:] = np.array(data, dtype=float).reshape(-1, 2)
    # handed out READ-ONLY (like a memory-mapped trace): a library function that writes into its
    # input - even a no-op in-place sanitising step - raises instead of silently passing
    buf.setflags(write=False)
    return buf


_idx_buffers = {}


def idx_of(values):
    """An index vector as an int64 array whose OBJECT is re-used for every vector of the same length
    (contents overwritten in place), the way a local search nudges one breakpoint array."""
    n = len(values)
    buf = _idx_buffers.get(n)
    if buf is None:
        buf = _idx_buffers[n] = np.empty(n, dtype=np.int64)
    buf[:] = values
    return buf


def enable_debug_logging():
    """Switch the package's loggers to DEBUG with a handler that discards the records, as an
    application that runs with logging.basicConfig(level=DEBUG) would (debug-only code paths)."""
    import logging
    lg = logging.getLogger('kneeliverse')
    lg.setLevel(logging.DEBUG)
    if not lg.handlers:
        lg.addHandler(logging.NullHandler())
    lg.propagate = False


def digest(obj):
    s = json.dumps(obj, sort_keys=True, separators=(',', ':'), default=_json_default)
    return int.from_bytes(hashlib.blake2b(s.encode(), digest_size=8).digest(), 'big')


def case_size(obj):
    return len(json.dumps(obj, default=_json_default))


def _json_default(o):
    if isinstance(o, np.ndarray):
        return o.tolist()
    if isinstance(o, (np.integer,)):
        return int(o)
    if isinstance(o, (np.floating,)):
        return float(o)
    if isinstance(o, (np.bool_,)):
        return bool(o)
    raise TypeError(type(o))


def dumps(obj, **kw):
    return json.dumps(obj, default=_json_default, **kw)


def innermost_pkg_frame(tb, pkg_dir):
    """'module.function' of the innermost traceback frame that lies in the package."""
    name = None
    while tb is not None:
        f = tb.tb_frame.f_code.co_filename
        if os.path.abspath(f).startswith(pkg_dir):
            name = os.path.splitext(os.path.basename(f))[0] + '.' + tb.tb_frame.f_code.co_name
        tb = tb.tb_next
    return name


class Rec:
    """Collects the outcome of one oracle evaluation."""

    def __init__(self):
        self.violations = []      # (label, message)
        self.tags = []
        self.nontrivial = False
        self.ratio = 0.0          # largest loop count / bound seen
        self.calls = 0
        self.counts = {}          # named counters added to the evidence histogram

    def fail(self, label, msg=''):
        self.violations.append((label, str(msg)[:600]))

    def tag(self, *names):
        self.tags.extend(names)

    def count(self, name, k=1):
        self.counts[name] = self.counts.get(name, 0) + k

    def check(self, cond, label, msg=''):
        if not cond:
            self.fail(label, msg)
        return bool(cond)

    def call(self, bound, f, *a, **k):
        """Run a library entry point under the loop guard.  Library exceptions and exceeded loop
        bounds become labelled violations and FAILED is returned."""
        site = k.pop('_site', getattr(f, '__name__', 'call'))
        self.calls += 1
        if bound is not None and bound <= 64:
            # a constant bound documents "this entry point has no data-dependent loop today"; a
            # re-implementation with one loop iteration per element (or per cluster) is as correct,
            # so the effective bound is never below a generous linear function of the largest argument
            size = 0
            for v in a:
                try:
                    size = max(size, len(v))
                except TypeError:
                    pass
            bound = max(bound, 8 * size + 64)
        L = lib()
        try:
            with np.errstate(all='ignore'):
                out = guard.guarded(bound, f, *a, **k)
        except guard.LoopBound as e:
            self.fail('loopbound:%s' % (guard._state['hit'] or site), '%s (entry %s)' % (e, site))
            self._peak(bound)
            return FAILED
        except RecursionError as e:
            self.fail('exc:RecursionError@%s' % site, str(e))
            return FAILED
        except (KeyboardInterrupt, SystemExit, MemoryError):
            raise
        except Exception as e:  # library raised on an input of the property's domain
            where = innermost_pkg_frame(e.__traceback__, L.pkg_dir) or site
            self.fail('exc:%s@%s' % (type(e).__name__, where),
                      '%s: %s (entry %s)' % (type(e).__name__, e, site))
            return FAILED
        self._peak(bound)
        return out

    def _peak(self, bound):
        pk = guard.last_peak()
        if pk and bound:
            r = max(pk.values()) / float(bound)
            if r > self.ratio:
                self.ratio = r


def poison(value, max_elems=96, copies=8):
    """Fill NumPy's small-block free lists with `value`: arrays of 1..max_elems float64 are created,
    filled and released, so that a subsequent np.empty of such a size receives memory holding
    `value`.  Two identical calls made after different poisons must still agree; code that reads
    uninitialised memory (np.empty used as np.zeros) does not."""
    for k in range(1, max_elems + 1):
        blocks = [np.full(k, value) for _ in range(copies)]
        del blocks


def chord_noise(p, l, r):
    """Rounding-noise allowance for the library's distance of the interior points of p[l..r] to
    their chord, RELATIVE to the magnitudes that actually enter the computation (no absolute
    floor): |cross| is a difference of two products, |dx*uy| and |dy*ux|; the clamped parallel
    component only matters for points whose projection falls outside the chord."""
    a, b = p[l], p[r]
    ch = np.hypot(b[0] - a[0], b[1] - a[1])
    if not (ch > 0):
        return 64 * EPS * float(np.max(np.abs(p[l:r + 1] - a)))
    ux, uy = (b[0] - a[0]) / ch, (b[1] - a[1]) / ch
    d = p[l:r + 1] - a
    cross_terms = np.abs(d[:, 0] * uy) + np.abs(d[:, 1] * ux)
    par = d[:, 0] * ux + d[:, 1] * uy
    outside = (par < 0) | (par > ch)
    par_terms = np.where(outside, np.abs(d[:, 0] * ux) + np.abs(d[:, 1] * uy), 0.0)
    return 64 * EPS * float(np.max(cross_terms + par_terms))


def ref_distances(p, l, r, kind):
    """Distances of p[l..r] to the chord p[l]-p[r], written from the geometric definition and
    independent of the library's primitives: 'perpendicular' = distance to the infinite line,
    'shortest' = distance to the closed segment."""
    a, b = p[l].astype(float), p[r].astype(float)
    d = p[l:r + 1].astype(float) - a
    ch = np.hypot(b[0] - a[0], b[1] - a[1])
    with np.errstate(all='ignore'):
        ux, uy = (b[0] - a[0]) / ch, (b[1] - a[1]) / ch
        perp = np.abs(d[:, 0] * uy - d[:, 1] * ux)
        if kind == 'perpendicular':
            return perp
        par = d[:, 0] * ux + d[:, 1] * uy
        e = p[l:r + 1].astype(float) - b
        return np.where(par < 0, np.hypot(d[:, 0], d[:, 1]), np.where(par > ch, np.hypot(e[:, 0], e[:, 1]), perp))


def is_int_array(a, ndim=1):
    return isinstance(a, np.ndarray) and a.ndim == ndim and (a.size == 0 or a.dtype.kind in 'iu')


def strictly_increasing(a):
    a = np.asarray(a)
    return bool(np.all(a[1:] > a[:-1]))
