"""Check runner: generated-input search, bucketing, shrinking, replay, known findings, evidence.

    ./check C07 --tier quick|thorough
    ./check C07 --replay replays/C07-<digest>.json

exit 0  property held on everything explored (KNOWN-FINDING lines allowed)
exit 1  `VIOLATION property=<id> replay=<path>` printed for each new root cause
exit 2  harness error (never a verdict)
"""
import argparse
import collections
import hashlib
import importlib
import json
import multiprocessing
import os
import random
import sys
import time
import traceback

from . import lib
from .lib import Rec, HarnessError, VERIF

N_WORKERS = int(os.environ.get('VERIF_WORKERS', '16'))
MAX_SAMPLES = 8
SHRINK_CALLS = {'quick': 1500, 'thorough': 6000}
SHRINK_SECONDS = {'quick': 20, 'thorough': 120}
WATCHDOG_S = {'quick': 1500, 'thorough': 6 * 3600}


class Sub:
    """One sub-check of a property.

    strategy(tier) -> hypothesis strategy of JSON-able case dicts     (kind 'hyp')
    enumerate(tier) -> iterable of case dicts, a completely enumerated finite domain (kind 'enum')
    oracle(case, rec)   fills a Rec
    budget = {'quick': total examples, 'thorough': total examples}
    examples(tier) -> explicit regression cases always run first
    """

    def __init__(self, name, oracle, strategy=None, enumerate=None, budget=None, examples=None,
                 rule='', exhaustive=False, shards=None, fuzz=None):
        self.name = name
        self.oracle = oracle
        self.strategy = strategy
        self.enumerate = enumerate
        self.budget = budget or {'quick': 1600, 'thorough': 32000}
        self.examples = examples
        self.rule = rule
        self.exhaustive = exhaustive
        self.shards = shards
        self.fuzz = fuzz or {}      # tier -> libFuzzer runs per campaign process (atheris), 0 = none
        self.kind = 'enum' if enumerate is not None else 'hyp'


def load_prop(pid):
    mod = importlib.import_module('kv.props.%s' % pid.lower())
    return mod


def seed_for(*parts):
    h = hashlib.sha256(':'.join(str(p) for p in parts).encode()).digest()
    return int.from_bytes(h[:8], 'big')


# --------------------------------------------------------------------------- known findings
def load_known():
    """known_findings.txt lines:
        known: property=<id> label=<label> <what fails>
        fixed: property=<id> <commit> <what failed>
    Only `known:` lines suppress anything, and only the exact (property, label)."""
    path = os.path.join(VERIF, 'known_findings.txt')
    known = {}
    if os.path.exists(path):
        for line in open(path):
            line = line.strip()
            if not line.startswith('known:'):
                continue
            toks = line[len('known:'):].split()
            kv = dict(t.split('=', 1) for t in toks[:2] if '=' in t)
            what = ' '.join(toks[2:])
            if 'property' in kv and 'label' in kv:
                known[(kv['property'], kv['label'])] = what
    return known


# --------------------------------------------------------------------------- worker
class Stats:
    def __init__(self):
        self.evaluations = 0
        self.nontrivial = set()
        self.tags = collections.Counter()
        self.samples = []
        self.sample_keys = set()
        self.viol = {}          # label -> (size, case, msg, count)
        self.ratio = 0.0
        self.lib_calls = 0
        self.shrunk = {}        # label -> case
        self.errors = []

    def merge(self, o):
        self.evaluations += o.evaluations
        self.nontrivial |= o.nontrivial
        self.tags.update(o.tags)
        for s in o.samples:
            key = s.get('_key')
            if len(self.samples) < MAX_SAMPLES and key not in self.sample_keys:
                self.samples.append(s)
                self.sample_keys.add(key)
        for lab, (sz, case, msg, cnt) in o.viol.items():
            if lab in self.viol:
                osz, ocase, omsg, ocnt = self.viol[lab]
                if sz < osz:
                    self.viol[lab] = (sz, case, msg, cnt + ocnt)
                else:
                    self.viol[lab] = (osz, ocase, omsg, cnt + ocnt)
            else:
                self.viol[lab] = (sz, case, msg, cnt)
        for lab, case in o.shrunk.items():
            if lab not in self.shrunk or lib.case_size(case) < lib.case_size(self.shrunk[lab]):
                self.shrunk[lab] = case
        self.ratio = max(self.ratio, o.ratio)
        self.lib_calls += o.lib_calls
        self.errors += o.errors


def evaluate(sub, case, stats=None):
    rec = Rec()
    sub.oracle(case, rec)
    if stats is not None:
        stats.evaluations += 1
        stats.lib_calls += rec.calls
        stats.ratio = max(stats.ratio, rec.ratio)
        for t in rec.tags:
            stats.tags[t] += 1
        for t, k in rec.counts.items():
            stats.tags[t] += k
        if rec.nontrivial:
            stats.nontrivial.add(lib.digest(case))
            fam = str(case.get('family', case.get('kind', '')))
            key = (sub.name, fam)
            if key not in stats.sample_keys and len(stats.samples) < MAX_SAMPLES:
                stats.sample_keys.add(key)
                s = dict(case)
                s['_key'] = '%s/%s' % key
                stats.samples.append(s)
        seen = set()
        for lab, msg in rec.violations:
            if lab in seen:
                continue
            seen.add(lab)
            sz = lib.case_size(case)
            if lab in stats.viol:
                osz, ocase, omsg, cnt = stats.viol[lab]
                stats.viol[lab] = (sz, case, msg, cnt + 1) if sz < osz else (osz, ocase, omsg, cnt + 1)
            else:
                stats.viol[lab] = (sz, case, msg, 1)
    return rec


def _hyp_settings(n, phases):
    import hypothesis
    from hypothesis import settings, HealthCheck
    return settings(max_examples=max(1, n), database=None, deadline=None, phases=phases,
                    report_multiple_bugs=False, derandomize=False,
                    suppress_health_check=[HealthCheck.too_slow, HealthCheck.data_too_large,
                                           HealthCheck.large_base_example,
                                           HealthCheck.filter_too_much],
                    verbosity=hypothesis.Verbosity.quiet)


def run_shard(task):
    """Executed in a forked worker.  Returns a Stats object (picklable)."""
    pid, sub_name, shard, nshards, n, seed, tier, known_labels = task
    stats = Stats()
    try:
        if shard % 2 == 1:
            lib.enable_debug_logging()      # every other shard: the library's debug-only code paths are live
        mod = load_prop(pid)
        sub = {s.name: s for s in mod.SUBS}[sub_name]
        if shard == 0:
            for case in corpus_cases(pid, sub_name):
                evaluate(sub, case, stats)
            if sub.examples is not None:
                for case in sub.examples(tier):
                    case = dict(case)
                    case.setdefault('sub', sub_name)
                    evaluate(sub, case, stats)
        if sub.kind == 'enum':
            for i, case in enumerate(sub.enumerate(tier)):
                if i % nshards != shard:
                    continue
                case.setdefault('sub', sub_name)
                evaluate(sub, case, stats)
        else:
            import hypothesis
            from hypothesis import given, Phase
            strat = sub.strategy(tier)

            @hypothesis.seed(seed)
            @_hyp_settings(n, [Phase.generate])
            @given(strat)
            def collect(case):
                case.setdefault('sub', sub_name)
                evaluate(sub, case, stats)

            collect()
            # shrink every new root cause found in this shard (bounded by oracle calls)
            new = [lab for lab in stats.viol if lab not in known_labels][:3]
            for lab in new:
                budget = [SHRINK_CALLS[tier]]
                # wall-clock cap on *shrinking only* (minimality of the replay file, never the verdict)
                deadline = time.monotonic() + SHRINK_SECONDS[tier]

                def cond(case, lab=lab):
                    if budget[0] <= 0 or time.monotonic() > deadline:
                        return False
                    budget[0] -= 1
                    case.setdefault('sub', sub_name)
                    r = Rec()
                    sub.oracle(case, r)
                    return any(l == lab for l, _ in r.violations)

                try:
                    best = hypothesis.find(strat, cond,
                                           settings=_hyp_settings(n, [Phase.generate, Phase.shrink]),
                                           random=random.Random(seed))
                    best.setdefault('sub', sub_name)
                    stats.shrunk[lab] = best
                except Exception:
                    pass  # keep the smallest collected case
    except Exception:
        stats.errors.append('shard %s/%s[%d]: %s' % (pid, sub_name, shard, traceback.format_exc()))
    return stats


def corpus_cases(pid, sub_name):
    d = os.path.join(VERIF, 'corpus', pid)
    out = []
    if os.path.isdir(d):
        for fn in sorted(os.listdir(d)):
            if fn.endswith('.json'):
                with open(os.path.join(d, fn)) as fh:
                    obj = json.load(fh)
                case = obj.get('case', obj)
                if case.get('sub') == sub_name:
                    out.append(case)
    return out


# --------------------------------------------------------------------------- driver
def plan(mod, tier, seed, known_labels, workers):
    tasks = []
    for sub in mod.SUBS:
        total = sub.budget[tier]
        nshards = sub.shards or workers
        if sub.kind == 'hyp':
            nshards = max(1, min(nshards, total // 20 or 1))
        per = max(1, total // nshards)
        for sh in range(nshards):
            tasks.append((mod.ID, sub.name, sh, nshards, per,
                          seed_for(seed, mod.ID, sub.name, sh), tier, known_labels))
    return tasks


def write_replay(pid, label, case, msg, tier, seed):
    rdir = os.environ.get('VERIF_REPLAYS', 'replays')     # relative to /verif unless absolute
    os.makedirs(os.path.join(VERIF, rdir), exist_ok=True)
    dg = hashlib.sha256((pid + '|' + label).encode()).hexdigest()[:10]
    rel = os.path.join(rdir, '%s-%s.json' % (pid, dg))
    head = ''
    try:
        import subprocess
        head = subprocess.run(['git', '-C', lib.repo_dir(), 'rev-parse', 'HEAD'],
                              capture_output=True, text=True).stdout.strip()
    except Exception:
        pass
    with open(os.path.join(VERIF, rel), 'w') as fh:
        fh.write(lib.dumps({'property': pid, 'label': label, 'message': msg, 'case': case,
                            'found_with': {'tier': tier, 'seed': seed, 'repo_head': head}},
                           indent=1))
    return rel


def run_check(pid, tier, seed, workers):
    t0 = time.time()
    mod = load_prop(pid)
    L = lib.lib()
    lib.warmup(getattr(mod, 'WARM_EXTRA', False))
    if hasattr(mod, 'prepare'):
        mod.prepare(tier)
    known = load_known()
    known_labels = frozenset(l for (p, l) in known if p == pid)
    tasks = plan(mod, tier, seed, known_labels, workers)
    total = Stats()
    per_sub = collections.defaultdict(Stats)
    ctx = multiprocessing.get_context('fork')
    with ctx.Pool(min(workers, len(tasks))) as pool:
        res = pool.map_async(run_shard, tasks, chunksize=1)
        try:
            outs = res.get(timeout=WATCHDOG_S[tier])
        except multiprocessing.TimeoutError:
            pool.terminate()
            print('HARNESS-ERROR: watchdog expired after %ds (inconclusive)' % WATCHDOG_S[tier])
            return 2
    for task, st in zip(tasks, outs):
        total.merge(st)
        per_sub[task[1]].merge(st)
    fuzz_note = run_fuzz_campaigns(mod, tier, seed, workers, total, per_sub)
    if total.errors:
        for e in total.errors[:5]:
            print('HARNESS-ERROR:', e)
        return 2

    subs = {s.name: s for s in mod.SUBS}
    new_viol = []
    known_seen = []
    for lab, (sz, case, msg, cnt) in sorted(total.viol.items()):
        if (pid, lab) in known:
            known_seen.append((lab, known[(pid, lab)], cnt))
            continue
        best = total.shrunk.get(lab, case)
        # make sure the replay reproduces through the plain oracle, else fall back
        sub = subs[best.get('sub', case.get('sub'))]
        r = evaluate(sub, best)
        if not any(l == lab for l, _ in r.violations):
            best = case
            r = evaluate(subs[case['sub']], best)
        m = next((mm for l, mm in r.violations if l == lab), msg)
        rel = write_replay(pid, lab, best, m, tier, seed)
        new_viol.append((lab, rel, m, cnt))

    for lab, what, cnt in known_seen:
        print('KNOWN-FINDING: property=%s %s [label=%s, %d case(s) this run]' % (pid, what, lab, cnt))
    for lab, rel, m, cnt in new_viol:
        print('VIOLATION property=%s replay=%s' % (pid, rel))
        print('  label=%s cases=%d :: %s' % (lab, cnt, m))

    wall = time.time() - t0
    write_evidence(mod, tier, seed, total, per_sub, new_viol, known_seen, wall, fuzz_note)
    print('%s %s seed=%d: evaluations=%d distinct_nontrivial=%d violations=%d known=%d wall=%.1fs'
          % (pid, tier, seed, total.evaluations, len(total.nontrivial), len(new_viol),
             len(known_seen), wall))
    return 1 if new_viol else 0


def run_fuzz_campaigns(mod, tier, seed, workers, total, per_sub):
    """Coverage-guided campaigns (atheris) for the sub-checks that register one for this tier.  Each
    campaign is a fresh process (instrumentation must wrap the package import); half start from an
    empty corpus, half from a corpus directory they share.  Bounded by run count, never by time."""
    import pickle
    import shutil
    import subprocess
    jobs = [(s, s.fuzz.get(tier, 0)) for s in mod.SUBS if s.kind == 'hyp' and s.fuzz.get(tier, 0)]
    if not jobs:
        return None
    work = os.path.join(VERIF, '.work', 'fuzz-%d' % os.getpid())
    os.makedirs(work, exist_ok=True)
    note = {'engine': 'atheris/libFuzzer over hypothesis.fuzz_one_input', 'campaigns': 0, 'executions': 0, 'valid_cases': 0}
    env = dict(os.environ)
    env['PYTHONPATH'] = VERIF + os.pathsep + os.path.join(VERIF, '.deps') + os.pathsep + env.get('PYTHONPATH', '')
    procs = []
    per = max(1, workers // max(1, len(jobs)))
    try:
        for sub, runs in jobs:
            for i in range(per):
                out = os.path.join(work, '%s-%d.pkl' % (sub.name, i))
                cmd = [sys.executable, '-m', 'kv.fuzz', mod.ID, sub.name, '--runs', str(runs), '--seed',
                       str(seed_for(seed, mod.ID, sub.name, 'fuzz', i) % (2 ** 31)), '--tier', tier, '--out', out]
                if i % 2:
                    cmd += ['--corpus', os.path.join(work, 'corpus-%s-%d' % (sub.name, i))]
                procs.append((sub, out, subprocess.Popen(cmd, cwd=VERIF, env=env, stdout=subprocess.DEVNULL,
                                                         stderr=subprocess.DEVNULL)))
        for sub, out, pr in procs:
            try:
                pr.wait(timeout=WATCHDOG_S[tier])
            except subprocess.TimeoutExpired:
                pr.kill()
            if os.path.exists(out):
                with open(out, 'rb') as fh:
                    st = pickle.load(fh)
                note['campaigns'] += 1
                note['executions'] += int(st.tags.pop('atheris:executions', 0))
                note['valid_cases'] += st.evaluations
                total.merge(st)
                per_sub[sub.name + '+atheris'].merge(st)
        if note['campaigns'] == 0:
            note['unavailable'] = 'no campaign produced output (atheris not importable?)'
    finally:
        shutil.rmtree(work, ignore_errors=True)
    return note


def write_evidence(mod, tier, seed, total, per_sub, new_viol, known_seen, wall, fuzz_note=None):
    os.makedirs(os.path.join(VERIF, 'evidence'), exist_ok=True)
    samples = []
    for s in total.samples:
        s = dict(s)
        s.pop('_key', None)
        samples.append(s)
    cov = {
        'evaluations': total.evaluations,
        'distinct_nontrivial': len(total.nontrivial),
        'rule': mod.RULE,
        'samples': samples,
        'library_calls': total.lib_calls,
        'histogram': dict(sorted(total.tags.items())),
        'max_loop_count_over_bound': round(total.ratio, 4),
        'sub_checks': {name: {'evaluations': st.evaluations,
                              'distinct_nontrivial': len(st.nontrivial)}
                       for name, st in sorted(per_sub.items())},
        'exhaustive_sub_checks': [s.name for s in mod.SUBS if s.exhaustive],
        'new_violation_labels': [v[0] for v in new_viol],
        'known_findings_seen': [k[0] for k in known_seen],
        'workers': N_WORKERS,
    }
    if fuzz_note:
        cov['coverage_guided'] = fuzz_note
    if any(s.exhaustive for s in mod.SUBS) and all(s.exhaustive for s in mod.SUBS):
        cov['exhaustive'] = True
    ev = {
        'property_id': mod.ID,
        'tier': tier,
        'seed': seed,
        'level': 'exploration',
        'coverage': cov,
        'assumptions': getattr(mod, 'ASSUMPTIONS', []),
        'wall_s': round(wall, 2),
        'violations': len(new_viol),
    }
    path = os.path.join(VERIF, 'evidence', '%s.json' % mod.ID)
    with open(path, 'w') as fh:
        fh.write(lib.dumps(ev, indent=1))


def run_replay(pid, path):
    mod = load_prop(pid)
    lib.lib()
    lib.warmup()
    if hasattr(mod, 'prepare'):
        mod.prepare('quick')
    with open(path if os.path.isabs(path) else os.path.join(VERIF, path)) as fh:
        obj = json.load(fh)
    case = obj.get('case', obj)
    subs = {s.name: s for s in mod.SUBS}
    sub = subs[case['sub']]
    rec = evaluate(sub, case)
    known = load_known()
    bad = 0
    for lab, msg in rec.violations:
        if (pid, lab) in known:
            print('KNOWN-FINDING: property=%s %s [label=%s]' % (pid, known[(pid, lab)], lab))
        else:
            bad += 1
            print('VIOLATION property=%s replay=%s' % (pid, path))
            print('  label=%s :: %s' % (lab, msg))
    if not bad:
        print('%s replay %s: no violation' % (pid, path))
    return 1 if bad else 0


def main(argv=None):
    ap = argparse.ArgumentParser(prog='check')
    ap.add_argument('property')
    ap.add_argument('--tier', default=os.environ.get('VERIF_TIER', 'quick'),
                    choices=['quick', 'thorough'])
    ap.add_argument('--replay')
    ap.add_argument('--seed', type=int, default=None)
    ap.add_argument('--workers', type=int, default=N_WORKERS)
    a = ap.parse_args(argv)
    seed = a.seed if a.seed is not None else int(os.environ.get('VERIF_SEED', '1') or 1)
    try:
        if a.replay:
            return run_replay(a.property.upper(), a.replay)
        return run_check(a.property.upper(), a.tier, seed, a.workers)
    except HarnessError as e:
        print('HARNESS-ERROR:', e)
        return 2
    except Exception:
        print('HARNESS-ERROR:', traceback.format_exc())
        return 2
