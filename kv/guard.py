"""Deterministic loop-iteration guard for the package under test (no wall clock, no source hook).

sys.monitoring (Python 3.12) LINE events are armed with set_local_events on exactly the code
objects of the package that contain a `while` statement, so neither Hypothesis, NumPy nor the
harness is traced.  The callback counts executions of every `while` header line per function
invocation (a PY_START event on the same code object resets that function's counters, the
package has no recursion) and, for a `while` nested in another loop, per activation (each iteration
of an enclosing for/while loop resets it) and raises LoopBound *inside the monitored frame* when the active
bound is exceeded.  All other lines answer DISABLE, so the overhead is one event per line per
guarded call.
"""
import ast
import atexit
import os
import sys
import types

mon = sys.monitoring
TOOL = 4  # free id: Hypothesis uses 3, cProfile 2, coverage 1; atheris rewrites bytecode instead


class LoopBound(Exception):
    """A `while` loop of the package ran more often than the stated linear bound."""


_state = {
    'installed': False,
    'limit': None,          # active bound or None (not counting)
    'counts': {},           # (code, line) -> executions in the current invocation
    'peak': {},             # 'file:line' -> largest count seen in the current guarded call
    'hit': None,            # description of the site that tripped
    'lines': {},            # code -> frozenset(while header lines)
    'resets': {},           # code -> {enclosing loop line: set(nested while lines)}
    'names': {},            # code -> 'file.py:func'
    'pkg_dir': None,
    'probes': {},           # code -> {line: name}   (branch-coverage probes, never raise)
    'probe_hits': {},       # name -> hits in the current guarded call
}


def _while_lines_of(tree):
    """Lines executed exactly once per iteration of each `while` loop.

    For `while <test>:` that is the header line (the test is re-evaluated there).  `while True:`
    has no test instruction, the back-edge lands on the first body statement, so that line is
    counted instead (verified by selftest())."""
    out = set()
    for node in ast.walk(tree):
        if isinstance(node, ast.While):
            if isinstance(node.test, ast.Constant):
                out.add(node.body[0].lineno)
            else:
                out.add(node.lineno)
    return out


def _counted_line(node):
    return node.body[0].lineno if isinstance(node.test, ast.Constant) else node.lineno


def _reset_points_of(tree):
    """{line: set(counted lines of the `while` loops nested inside the loop that iterates at `line`)}.

    A `while` loop nested in another loop (for or while) is counted per ACTIVATION: every iteration
    of an enclosing loop - the `for` header line, or the counted line of an enclosing `while` -
    resets the counters of the loops nested in it, so that the bound limits each loop by itself and
    a re-implementation may walk (bounded) inner work lists in a `while` of its own."""
    out = {}

    def visit(node, enclosing):
        for child in ast.iter_child_nodes(node):
            if isinstance(child, (ast.FunctionDef, ast.AsyncFunctionDef, ast.Lambda)):
                visit(child, [])
            elif isinstance(child, (ast.For, ast.While)):
                here = child.lineno if isinstance(child, ast.For) else _counted_line(child)
                if isinstance(child, ast.While):
                    for hdr in enclosing:
                        out.setdefault(hdr, set()).add(here)
                visit(child, enclosing + [here])
            else:
                visit(child, enclosing)
    visit(tree, [])
    return out


def _collect_code(code, acc):
    acc.append(code)
    for c in code.co_consts:
        if isinstance(c, types.CodeType):
            _collect_code(c, acc)


def _on_line(code, line):
    st = _state
    wl = st['lines'].get(code)
    pr = st['probes'].get(code)
    if pr is not None and line in pr:
        st['probe_hits'][pr[line]] = st['probe_hits'].get(pr[line], 0) + 1
        return None
    rs = st['resets'].get(code)
    is_reset = rs is not None and line in rs
    if is_reset and st['limit'] is not None:
        for inner in rs[line]:          # a new iteration of an enclosing loop: nested loops start afresh
            st['counts'].pop((code, inner), None)
    if wl is None or line not in wl or st['limit'] is None:
        return mon.DISABLE if ((wl is None or line not in wl) and not is_reset) else None
    key = (code, line)
    c = st['counts'].get(key, 0) + 1
    st['counts'][key] = c
    name = st['names'][code] + ':' + str(line)
    if c > st['peak'].get(name, 0):
        st['peak'][name] = c
    if c > st['limit']:
        st['hit'] = name
        lim = st['limit']
        st['limit'] = None  # do not re-raise while the exception unwinds
        raise LoopBound('%s executed %d times > bound %d' % (name, c, lim))
    return None


def _on_start(code, offset):
    st = _state
    wl = st['lines'].get(code)
    if wl is None:
        return mon.DISABLE
    for line in wl:
        st['counts'].pop((code, line), None)
    return None


def install(pkg_dir):
    """Arm the guard on every code object below pkg_dir that contains a while loop."""
    st = _state
    if st['installed']:
        return
    st['pkg_dir'] = pkg_dir
    per_file = {}
    per_file_resets = {}
    for fn in sorted(os.listdir(pkg_dir)):
        if not fn.endswith('.py'):
            continue
        path = os.path.join(pkg_dir, fn)
        with open(path) as fh:
            src = fh.read()
        tree = ast.parse(src)
        lines = _while_lines_of(tree)
        per_file[path] = lines
        per_file_resets[path] = _reset_points_of(tree)
    mon.use_tool_id(TOOL, 'kv-loopguard')
    mon.register_callback(TOOL, mon.events.LINE, _on_line)
    mon.register_callback(TOOL, mon.events.PY_START, _on_start)
    n_armed = 0
    for name, mod in list(sys.modules.items()):
        f = getattr(mod, '__file__', None)
        if not f or os.path.dirname(os.path.abspath(f)) != os.path.abspath(pkg_dir):
            continue
        path = os.path.abspath(f)
        wl = per_file.get(path) or per_file.get(f)
        if not wl:
            continue
        codes = []
        for obj in vars(mod).values():
            fn = getattr(obj, 'py_func', obj)  # numba dispatchers
            if isinstance(fn, types.FunctionType) and fn.__code__.co_filename == f:
                _collect_code(fn.__code__, codes)
        for code in codes:
            first = code.co_firstlineno
            span = [l for (_, _, l) in code.co_lines() if l is not None]
            mine = frozenset(l for l in wl if span and min(span) <= l <= max(span))
            if not mine:
                continue
            st['lines'][code] = mine
            rs = per_file_resets.get(path) or {}
            st['resets'][code] = {h: frozenset(v) for h, v in rs.items() if min(span) <= h <= max(span) and v & mine}
            st['names'][code] = os.path.basename(f) + ':' + code.co_name
            mon.set_local_events(TOOL, code, mon.events.LINE | mon.events.PY_START)
            n_armed += 1
    st['installed'] = True
    atexit.register(uninstall)
    return n_armed


def uninstall():
    st = _state
    if not st['installed']:
        return
    try:
        for code in list(st['lines']):
            mon.set_local_events(TOOL, code, 0)
        mon.register_callback(TOOL, mon.events.LINE, None)
        mon.register_callback(TOOL, mon.events.PY_START, None)
        mon.free_tool_id(TOOL)
    except Exception:
        pass
    st['installed'] = False


def add_probe(func, needle, name):
    """Count how often the source line of `func` containing `needle` starts executing during a
    guarded call (used to measure that a generator reaches a branch).  Returns False if the line
    cannot be found (e.g. after a refactoring) - the probe is then simply absent."""
    import inspect
    f = getattr(func, 'py_func', func)
    code = f.__code__
    try:
        lines, first = inspect.getsourcelines(f)
    except (OSError, TypeError):
        return False
    for i, text in enumerate(lines):
        if needle in text:
            _state['probes'].setdefault(code, {})[first + i] = name
            if code not in _state['lines']:
                _state['lines'][code] = frozenset()
                _state['names'][code] = os.path.basename(code.co_filename) + ':' + code.co_name
            mon.set_local_events(TOOL, code, mon.events.LINE | mon.events.PY_START)
            return True
    return False


def probe_hits():
    return dict(_state['probe_hits'])


def guarded(bound, f, *a, **k):
    """Call f(*a, **k) with every package `while` header limited to `bound` executions per
    function invocation.  Returns the result; raises LoopBound if a loop exceeds the bound."""
    st = _state
    st['counts'].clear()
    st['peak'] = {}
    st['probe_hits'] = {}
    st['hit'] = None
    st['limit'] = int(bound)
    mon.restart_events()
    try:
        return f(*a, **k)
    finally:
        st['limit'] = None


def last_peak():
    """{'file.py:func:line': max executions} for the most recent guarded call."""
    return dict(_state['peak'])


def armed_sites():
    return sorted('%s:%s' % (_state['names'][c], ','.join(map(str, sorted(l))))
                  for c, l in _state['lines'].items())
