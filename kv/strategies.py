"""Shared Hypothesis strategies.  Every random choice is made here (no RNG, no clock).

A generated case is a JSON-able dict; floats are plain Python floats (json round-trips them
exactly).  `curves()` yields {'family': tag, 'pts': [[x, y], ...]} with strictly increasing
finite x and y >= 0 -- the "performance curve" of C01-C09 / C12-C15.
"""
import csv
import functools
import math
import os
from fractions import Fraction

from hypothesis import strategies as st

from . import lib

# curves used by the repository's own tests / demos (explicit seeds, also drawn as a family)
REPO_CURVES = [
    [[1, 5], [2, 5], [3, 5], [4, 5], [5, 5]],
    [[1, 1], [2, 2], [3, 3], [4, 4], [5, 5]],
    [[0, 5], [1, 4], [2, 3], [3, 2], [4, 1], [5, 0]],
    [[1.0, 5.0], [2.0, 5.0], [3.0, 5.0], [4.0, 6.0], [5.0, 7.0], [6.0, 8.0]],
    [[1, 2], [4, 1], [7, 0]],
    [[0, 0], [1, 9], [3, 27]],
    [[0.0, 0.0], [1.0, 2.0], [1.2, 4.0], [2.3, 6], [2.9, 8], [5, 10]],
    [[1, 1], [2, 0.5], [3, 0.33], [4, 0.25], [5, 0.2], [6, 0.17], [7, 0.14], [8, 0.125],
     [9, 0.11], [10, 0.1]],
    [[0, 0], [1, 1], [2, 2], [3, 3], [4, 4], [5, 3], [6, 2], [7, 1], [8, 0]],
    [[0, 10], [1, 6], [2, 4], [3, 3], [4, 2.5], [5, 2.2], [6, 2.1], [7, 2.0], [8, 2.0],
     [9, 2.0], [10, 2.0]],
]

FAMILIES = ['noise', 'mono_dec', 'convex', 'concave', 'pwl_dyadic', 'pwl_rational',
            'pwl_decimal', 'plateau', 'flat', 'outlier', 'repo', 'trace', 'steps', 'quant', 'offset', 'ulp']


@functools.lru_cache(maxsize=None)
def _traces():
    """Bundled traces (x, y) as float lists; empty/unusable files are skipped."""
    out = []
    d = os.path.join(lib.repo_dir(), 'traces')
    if not os.path.isdir(d):
        return out
    for fn in sorted(os.listdir(d)):
        if not fn.endswith('.csv'):
            continue
        pts = []
        try:
            with open(os.path.join(d, fn)) as fh:
                for row in csv.reader(fh):
                    if len(row) >= 2:
                        try:
                            pts.append([float(row[0]), float(row[1])])
                        except ValueError:
                            pass
        except OSError:
            continue
        ok = len(pts) >= 50 and all(pts[i][0] < pts[i + 1][0] for i in range(len(pts) - 1)) \
            and all(math.isfinite(v) and v >= 0 for p in pts for v in p[1:])
        if ok:
            out.append((fn, pts))
    return out


def trace_names():
    return [fn for fn, _ in _traces()]


def trace(name):
    return dict(_traces())[name]


def _sizes(min_n, max_n, big_n=None):
    """Most mass on small n (collinear / tie phenomena appear at n = 3), tail up to max_n; with
    big_n a further ~1/9 of the cases is large (fast paths / chunking for big inputs)."""
    small_hi = min(max_n, max(min_n, 16))
    base = [st.integers(min_n, small_hi), st.integers(min_n, small_hi), st.integers(min_n, max_n)]
    if big_n and big_n > max_n:
        return st.one_of(*(base * 3 + [st.integers(max_n, big_n)]))
    return st.one_of(*base)


@st.composite
def xs(draw, n, integer=False):
    """Strictly increasing x of length n (offset + cumulative positive steps)."""
    kind = draw(st.sampled_from(['i4', 'i4', 'i4', 'i1000', 'i1000', 'unit', 'unit', 'epoch'] if integer
                                else ['i4', 'i4', 'i4', 'i1000', 'i1000', 'float', 'float', 'unit', 'unit', 'epoch']))
    if kind == 'epoch':
        # time-stamp like abscissa: huge offset, small exactly representable steps (x span is 1e-9
        # or less of |x|) - strictly increasing and finite, so inside every property's domain
        x0 = draw(st.sampled_from([1.7e9, 1.7e12]))
        steps = draw(st.lists(st.integers(1, 4), min_size=n - 1, max_size=n - 1))
    elif kind == 'unit':
        x0 = draw(st.integers(0, 3))
        steps = [1] * (n - 1)
    elif kind == 'i4':
        x0 = draw(st.integers(0, 50))
        steps = draw(st.lists(st.integers(1, 4), min_size=n - 1, max_size=n - 1))
    elif kind == 'i1000':
        x0 = draw(st.integers(0, 5000))
        steps = draw(st.lists(st.integers(1, 1000), min_size=n - 1, max_size=n - 1))
    else:
        x0 = draw(st.floats(0, 100, allow_nan=False).map(lambda v: v if v >= 1e-6 else 0.0))
        steps = draw(st.lists(st.floats(0.01, 10, allow_nan=False), min_size=n - 1, max_size=n - 1))
    x = [float(x0)]
    for s in steps:
        x.append(x[-1] + s)
    return x


def _scale(vals, k):
    if k == 0:
        return vals
    f = 10.0 ** k
    return [v * f for v in vals]


@st.composite
def curves(draw, min_n=2, max_n=40, families=None, integer_x=False, y01=False, scales=True, big_n=None):
    fam = draw(st.sampled_from(families or FAMILIES))
    if fam == 'repo':
        pts = draw(st.sampled_from(REPO_CURVES))
        pts = [[float(a), float(b)] for a, b in pts]
        if len(pts) < min_n or len(pts) > max_n or integer_x or y01:
            fam = 'mono_dec'
        else:
            return {'family': fam, 'pts': pts}
    if fam == 'trace':
        names = trace_names()
        if not names:
            fam = 'mono_dec'
        else:
            name = draw(st.sampled_from(names))
            t = trace(name)
            n = min(draw(_sizes(max(min_n, 4), max_n, big_n)), len(t))
            stride = draw(st.sampled_from([1, 1, 2, 7, 31, 101]))
            stride = max(1, min(stride, (len(t) - 1) // n))
            start = draw(st.integers(0, len(t) - 1 - (n - 1) * stride))
            pts = [list(t[start + i * stride]) for i in range(n)]
            if y01:
                m = max(p[1] for p in pts) or 1.0
                pts = [[p[0], p[1] / m if m > 1 else p[1]] for p in pts]
            if integer_x:
                pts = [[float(int(p[0])), p[1]] for p in pts]
                if not all(pts[i][0] < pts[i + 1][0] for i in range(len(pts) - 1)):
                    pts = [[float(i + 1), p[1]] for i, p in enumerate(pts)]
            return {'family': fam, 'pts': pts, 'trace': name}
    n = draw(_sizes(min_n, max_n, big_n))
    x = draw(xs(n, integer=integer_x or fam in ('pwl_dyadic', 'pwl_rational', 'pwl_decimal')))
    # ordinary magnitudes only: values below 1e-6 (whose squares approach the underflow range once a
    # 1e-9 scale is applied) are snapped to an exact zero
    unit = st.floats(0, 1, allow_nan=False).map(lambda v: v if v >= 1e-6 else 0.0)
    if fam == 'noise':
        y = draw(st.lists(unit, min_size=n, max_size=n))
    elif fam == 'mono_dec':
        y = sorted(draw(st.lists(unit, min_size=n, max_size=n)), reverse=True)
    elif fam == 'convex':
        a = draw(st.floats(0.1, 100)); b = draw(st.floats(0.01, 50)); c = draw(st.floats(0, 1))
        y = [a / (xi - x[0] + b) + c for xi in x]
        m = max(y)
        y = [v / m for v in y] if y01 else y
    elif fam == 'concave':
        a = draw(st.floats(0.1, 10)); p = draw(st.sampled_from([0.5, 0.3, 0.8]))
        y = [a * (xi - x[0]) ** p for xi in x]
        if draw(st.booleans()):
            y = [max(y) - v for v in y]
        m = max(y) or 1.0
        y = [v / m for v in y] if y01 else y
    elif fam in ('pwl_dyadic', 'pwl_rational', 'pwl_decimal'):
        # piecewise linear with exactly collinear runs; slopes change with probability ~0.3
        if fam == 'pwl_dyadic':
            den = 8
        elif fam == 'pwl_rational':
            den = draw(st.sampled_from([3, 5, 6, 7, 9, 11, 13]))
        else:
            den = 1
        slope_ints = st.integers(-4 * max(den, 1), 4 * max(den, 1))
        nseg = draw(st.integers(1, min(5, n - 1)))
        cuts = sorted(set(draw(st.lists(st.integers(1, max(1, n - 2)), min_size=nseg - 1,
                                        max_size=nseg - 1)))) if n > 2 else []
        slopes = draw(st.lists(slope_ints, min_size=len(cuts) + 1, max_size=len(cuts) + 1))
        y0 = draw(st.integers(0, 40))
        yy = [Fraction(y0)]
        si = 0
        for i in range(1, n):
            if si < len(cuts) and i > cuts[si]:
                si += 1
            yy.append(yy[-1] + Fraction(slopes[si], den) * Fraction(int(x[i] - x[i - 1])))
        lo = min(yy)
        mode = draw(st.sampled_from(['shift0', 'shiftpos', 'lift']))
        if mode == 'shift0':
            yy = [v - lo for v in yy]                       # touches y = 0
        elif lo < 0:
            off = draw(st.integers(0, 3))
            yy = [v - lo + off for v in yy]
        y = [float(v) for v in yy]
        if fam == 'pwl_decimal':
            k = draw(st.sampled_from([-3, -2, -1, 1]))
            x = _scale(x, k)
            y = _scale(y, draw(st.sampled_from([-3, -2, -1, 0])))
        if y01:
            m = max(y) or 1.0
            y = [v / m for v in y]
    elif fam == 'plateau':
        digits = draw(st.sampled_from([1, 1, 2]))
        y = [round(v, digits) for v in draw(st.lists(unit, min_size=n, max_size=n))]
        if draw(st.booleans()):
            y = sorted(y, reverse=True)
    elif fam == 'quant':   # quantised monotone staircase: few integer levels, many ties
        top = draw(st.sampled_from([2, 3, 6, 9]))
        y = [float(v) for v in sorted(draw(st.lists(st.integers(0, top), min_size=n, max_size=n)), reverse=True)]
        if y01:
            m = max(y) or 1.0
            y = [v / m for v in y]
    elif fam == 'offset':   # counter-like ordinate: large common offset, small variation
        off = draw(st.sampled_from([1e6, 3.2e9, 1e4]))
        var = draw(st.lists(st.integers(0, 200), min_size=n, max_size=n))
        if draw(st.booleans()):
            var = sorted(var, reverse=True)
        y = [off + v for v in var]
        if y01:
            m = max(y) or 1.0
            y = [v / m for v in y]
    elif fam == 'ulp':      # a floor whose heights differ by a few units in the last place
        import numpy as _np
        v = draw(st.sampled_from([0.3, 1.0, 0.1, 7.0]))
        js = draw(st.lists(st.integers(-3, 3), min_size=n, max_size=n))
        y = []
        for j in js:
            w = v
            for _ in range(abs(j)):
                w = float(_np.nextafter(w, _np.inf if j > 0 else -_np.inf))
            y.append(w)
        head = draw(st.integers(0, max(0, n // 3)))
        for i in range(head):                 # optional decreasing lead-in
            y[i] = v * (1.0 + (head - i))
    elif fam == 'flat':
        v = draw(st.sampled_from([0.0, 1.0, 0.5, 3.0]))
        y = [v] * n
    elif fam == 'steps':
        levels = sorted(draw(st.lists(st.integers(0, 10), min_size=1, max_size=4)), reverse=True)
        y = []
        for i in range(n):
            y.append(float(levels[min(len(levels) - 1, i * len(levels) // n)]))
        if y01:
            m = max(y) or 1.0
            y = [v / m for v in y]
    else:  # outlier
        base = draw(st.sampled_from([0.0, 1.0]))
        y = [base] * n
        y[draw(st.integers(0, n - 1))] = 1.0 if y01 else draw(st.sampled_from([1e6, 1e12, 50.0]))
    if scales and not y01 and fam not in ('pwl_decimal',):
        if draw(st.integers(0, 3)) == 0:
            y = _scale(y, draw(st.integers(-9, 15)))
        if not integer_x and draw(st.integers(0, 3)) == 0:
            x = _scale(x, draw(st.integers(-6, 9)))
    pts = [[float(a), float(b)] for a, b in zip(x, y)]
    ok = all(pts[i][0] < pts[i + 1][0] for i in range(n - 1)) and \
        all(math.isfinite(v) for p in pts for v in p) and all(p[1] >= 0 for p in pts)
    if not ok:  # precision loss after scaling: fall back to a plain valid curve (rare, counted)
        return {'family': 'fallback', 'pts': [[float(i), float((i * 7) % 5)] for i in range(n)]}
    return {'family': fam, 'pts': pts}


METRICS = ['r2', 'rmspe', 'rmsle', 'rpd', 'smape']
DISTANCES = ['shortest', 'perpendicular']
ORDERS = ['triangle', 'area', 'segment']
STD_T = [1e-4, 1e-3, 0.01, 0.05, 0.1, 0.3, 0.5, 0.9, 0.99, 1.0]


def metric_of(name):
    return getattr(lib.lib().M, name)


def distance_of(name):
    return getattr(lib.lib().Distance, name)


def order_of(name):
    return getattr(lib.lib().Order, name)


@st.composite
def thresholds(draw, pts, metric, candidates=None):
    """t > 0 (t <= 1 for R2).  Boundary-aware: with probability ~1/2 the threshold is *equal to
    a cost that actually occurs* on a sub-range of the generated curve (computed with the
    library primitive), so that the `<` / `>=` boundary is hit."""
    mode = draw(st.sampled_from(['std', 'occurring', 'occurring', 'float']))
    hi = 1.0 if metric == 'r2' else 3.0
    if metric == 'r2' and draw(st.integers(0, 7)) == 0:
        return 1.0                     # the top of R2's range (lossless simplification) is a boundary of its own
    if mode == 'occurring':
        cands = list(candidates) if candidates is not None else occurring_costs(pts, metric, draw)
        cands = [c for c in cands if isinstance(c, float) and math.isfinite(c) and 0 < c <= hi]
        if cands:
            return draw(st.sampled_from(cands))
        mode = 'std'
    if mode == 'std':
        return draw(st.sampled_from(STD_T))
    return draw(st.floats(1e-6, hi, allow_nan=False, exclude_min=False))


def occurring_costs(pts, metric, draw):
    L = lib.lib()
    import numpy as np
    p = np.array(pts, dtype=float)
    n = len(p)
    out = []
    if n < 3:
        return out
    pairs = [(0, n - 1)]
    for _ in range(3):
        l = draw(st.integers(0, n - 3))
        r = draw(st.integers(l + 2, n - 1))
        pairs.append((l, r))
    for l, r in pairs:
        seg = p[l:r + 1]
        try:
            with np.errstate(all='ignore'):
                c = float(L.rdp.compute_cost_coef(seg, L.lf.linear_fit_points(seg), metric_of(metric)))
            out.append(c)
        except Exception:
            pass
    return out


@st.composite
def index_sets(draw, n, min_inner=0):
    """Strictly increasing subsets of 0..n-1 containing both ends."""
    inner = list(range(1, n - 1))
    if not inner:
        return [0, n - 1] if n > 1 else [0]
    mode = draw(st.sampled_from(['few', 'bits', 'all', 'none']))
    if mode == 'none' and min_inner == 0:
        chosen = []
    elif mode == 'all':
        chosen = inner
    elif mode == 'few':
        chosen = sorted(set(draw(st.lists(st.sampled_from(inner), min_size=min_inner,
                                          max_size=max(min_inner, min(6, len(inner)))))))
    else:
        bits = draw(st.lists(st.booleans(), min_size=len(inner), max_size=len(inner)))
        chosen = [i for i, b in zip(inner, bits) if b]
    if len(chosen) < min_inner:
        chosen = inner[:min_inner]
    return [0] + chosen + [n - 1]
